"""Gen.Hkdf: everything the C20 model takes from the sources.

  probe    HKDF_MAX_ROUNDS, MUNGE_KEY_LEN_{MIN,MAX,DFL}_BYTES, O_* / errno values, entropy and salt sizes,
           the default MAC (enum, name string, digest length through the real mac_size), MUNGE_MAC_SHA1
  AST      src/common/hkdf.c      default salt (length expression, fill byte), extract key/message sources,
                                  expand loop: initial round, round update, per-round feed list with its guards,
                                  loop condition, copy length (the MIN expression), stop test
           src/mungekey/conf.c    --bits: min/max expressions, the range tests of _conf_set_int, the
                                  bits->bytes expression; _conf_validate translated as a kernel (ktrans)
           src/mungekey/key.c     unlink under do_force before open, ENOENT tolerance, open flags and mode,
                                  any umask/chmod/fchmod call, length written, HKDF inputs of _create_key_secret
                                  (md, key/salt sizes, info format string + arguments, bits expression)
           src/munged/conf.c      create_subkeys as a straight-line digest program (init / feed-file / length
                                  test / copy / feed-literal / final), the read-loop tests, the buffer size

An item whose extractor does not recognise the code any more is a failed `gen` obligation (the committed twin
text is then written so that the Lean library still builds and the correspondence streams can look for a concrete
failing input)."""
import json, os, re
from .probe import run_probe
from . import ktrans
from .ktrans import KError, Translator, load_ast, translate_kernels
from ..vlib.leanlib import gen_write

# ----------------------------------------------------------------------------------------------- AST helpers

def strip(n):
    while isinstance(n, dict) and n.get("kind") in ("ParenExpr", "ImplicitCastExpr", "CStyleCastExpr", "ConstantExpr") and n.get("inner"):
        n = n["inner"][0]
    return n


def walk(n):
    """pre-order, source order"""
    if isinstance(n, dict):
        if n.get("kind"):
            yield n
        for c in n.get("inner", []) or []:
            yield from walk(c)


def callee(n):
    if n.get("kind") != "CallExpr":
        return None
    f = strip(n["inner"][0])
    if f.get("kind") == "DeclRefExpr":
        return f["referencedDecl"]["name"]
    return None


def args(n):
    return n["inner"][1:]


def calls(n, names=None):
    return [c for c in walk(n) if c.get("kind") == "CallExpr" and (names is None or callee(c) in names)]


def refname(n):
    """name of the variable / member an expression denotes: `x`, `&x`, `p->f`, `x.f` -> 'x' / 'p.f'"""
    n = strip(n)
    k = n.get("kind")
    if k == "DeclRefExpr":
        return n["referencedDecl"]["name"]
    if k == "UnaryOperator" and n.get("opcode") in ("&", "*"):
        return refname(n["inner"][0])
    if k == "MemberExpr":
        b = refname(n["inner"][0])
        return (b + "." if b else "") + n["name"]
    if k == "ArraySubscriptExpr":
        return refname(n["inner"][0])
    return None


def mentions(n, name):
    return any(refname(x) == name for x in walk(n) if x.get("kind") in ("DeclRefExpr", "MemberExpr"))


def strlit(n):
    """python bytes of a C string literal node (without the NUL), or None"""
    n = strip(n)
    if n.get("kind") != "StringLiteral":
        return None
    return json.loads(n["value"]).encode("latin-1") if n["value"].startswith('"') else None


def body_of(fdecl):
    return [c for c in fdecl["inner"] if c["kind"] == "CompoundStmt"][0]


def stmts(n):
    if n is None:
        return []
    if n.get("kind") == "CompoundStmt":
        return list(n.get("inner", []))
    return [n]


class X:
    """expression translation on top of the K translator: C expression / condition -> Lean Int / Prop text
    over named variables.  `vars` maps C names (locals, `p.f` member paths, `errno`) to Lean names."""
    def __init__(self, vars, enumvals=None):
        self.tr = Translator({"name": "expr", "inputs": [(c, l) for c, l in vars.items()]}, enumvals or {}, {})
        self.st = {"locals": {}, "mem": {}, "worder": [], "events": [], "declared": set(), "params": set()}

    def int(self, node):
        return self.tr.as_int(self.tr.rvalue(node, self.st)).s

    def prop(self, node):
        return self.tr.cond(node, self.st).s


def lean_bytes(b):
    return "[" + ", ".join(str(x) for x in b) + "]"


def lean_str(s):
    return '"' + s.replace("\\", "\\\\").replace('"', '\\"') + '"'


class Miss(Exception):
    pass


def need(c, what):
    if not c:
        raise Miss(what)
    return c

# ----------------------------------------------------------------------------------------------- probe

PROBE = r'''
#include <stdio.h>
#include <errno.h>
#include <fcntl.h>
#include <sys/stat.h>
#include "src/common/hkdf.c"
#include "src/common/mac.c"
#include "src/common/md.c"
#include "src/libmunge/enum.c"
#include "munge_defs.h"
#include "entropy.h"
int main(void){
  const char *s;
  md_init_subsystem ();
  printf("HKDF_MAX_ROUNDS %d\n", (int) HKDF_MAX_ROUNDS);
  printf("KEY_LEN_MIN_BYTES %d\nKEY_LEN_MAX_BYTES %d\nKEY_LEN_DFL_BYTES %d\n",
         (int) MUNGE_KEY_LEN_MIN_BYTES, (int) MUNGE_KEY_LEN_MAX_BYTES, (int) MUNGE_KEY_LEN_DFL_BYTES);
  printf("O_RDONLY %d\nO_WRONLY %d\nO_RDWR %d\nO_ACCMODE %d\nO_CREAT %d\nO_EXCL %d\nO_TRUNC %d\nO_APPEND %d\n",
         O_RDONLY, O_WRONLY, O_RDWR, O_ACCMODE, O_CREAT, O_EXCL, O_TRUNC, O_APPEND);
  printf("EINTR %d\nENOENT %d\nEEXIST %d\n", EINTR, ENOENT, EEXIST);
  printf("ENTROPY_BYTES %d\n", (int) ENTROPY_NUM_BYTES_GUARANTEED);
  printf("DEFAULT_MAC %d\n", (int) MUNGE_DEFAULT_MAC);
  printf("MAC_SHA1 %d\n", (int) MUNGE_MAC_SHA1);
  printf("MAC_LAST %d\n", (int) MUNGE_MAC_LAST_ITEM);
  s = munge_enum_int_to_str (MUNGE_ENUM_MAC, MUNGE_DEFAULT_MAC);
  printf("DEFAULT_MAC_NAME %s\n", s ? s : "?");
  printf("DEFAULT_MAC_LEN %d\n", mac_size (MUNGE_DEFAULT_MAC));
  printf("SHA1_LEN %d\n", md_size (MUNGE_MAC_SHA1));
  { int i; printf("MAC_SIZES"); for (i = 0; i < (int) MUNGE_MAC_LAST_ITEM + 1; i++) printf(" %d", mac_size (i)); printf("\n"); }
  return 0;
}
'''

# ----------------------------------------------------------------------------------------------- hkdf.c

SRC_OF = {"salt": "salt", "key": "ikm", "info": "info", "prk": "prk", "okm": "prev", "round": "counter"}


def _src(node):
    r = refname(node)
    if r is None:
        raise Miss("MAC argument is not a plain variable/member")
    leaf = r.split(".")[-1]
    return need(SRC_OF.get(leaf), "MAC argument `%s` is not one of salt/key/info/prk/okm/round" % r)


def is_errcheck(s):
    """`if (rv == -1) {...goto/return}` style error handling (skipped when walking a body)"""
    if s.get("kind") != "IfStmt":
        return False
    cond = s["inner"][0]
    names = {refname(x) for x in walk(cond) if x.get("kind") == "DeclRefExpr"}
    return names <= {"rv", "rv2"} and not calls(cond)


def hkdf_items(repo):
    out = {}
    # --- hkdf(): default salt
    f = load_ast(repo, "src/common/hkdf.c", "hkdf")
    blk = None
    for s in walk(body_of(f)):
        if s.get("kind") == "IfStmt":
            c = strip(s["inner"][0])
            if c.get("kind") == "BinaryOperator" and c.get("opcode") == "==" and \
                    (refname(c["inner"][0]) or "").endswith(".salt") and strip(c["inner"][1]).get("kind") == "IntegerLiteral":
                blk = s["inner"][1]
                break
    need(blk, "hkdf(): no `if (ctxp->salt == NULL)` block")
    lenx = fill = None
    for s in walk(blk):
        if s.get("kind") == "BinaryOperator" and s.get("opcode") == "=":
            lhs = refname(s["inner"][0]) or ""
            if lhs.endswith(".saltlen"):
                lenx = X({"ctxp.mdlen": "mdlen"}).int(s["inner"][1])
            if lhs.endswith(".salt"):
                c = strip(s["inner"][1])
                if callee(c) == "calloc":
                    fill = 0
    for c in calls(blk, {"memset"}):
        if (refname(args(c)[0]) or "").endswith("salt"):
            v = strip(args(c)[1])
            if v.get("kind") == "IntegerLiteral":
                fill = int(v["value"]) & 255
    need(lenx is not None and fill is not None, "hkdf(): default salt length / fill byte not recognised")
    out["defaultSaltLen"] = lenx
    out["defaultSaltByte"] = fill
    # the order extract -> expand and what expand receives as prk
    cs = [callee(c) for c in calls(body_of(f), {"_hkdf_extract", "_hkdf_expand"})]
    need(cs == ["_hkdf_extract", "_hkdf_expand"], "hkdf(): expected one _hkdf_extract call followed by one _hkdf_expand call, got %s" % cs)
    ce = calls(body_of(f), {"_hkdf_extract"})[0]
    cx = calls(body_of(f), {"_hkdf_expand"})[0]
    need(refname(args(ce)[1]) == refname(args(cx)[1]), "hkdf(): the buffer filled by _hkdf_extract is not the prk given to _hkdf_expand")
    need(refname(args(cx)[3]) == "dst" and refname(args(cx)[4]) == "dstlenp", "hkdf(): _hkdf_expand does not write to dst/dstlenp")
    out["prkLen"] = X({"ctxp.mdlen": "mdlen", "prklen": "prklen"}).int(args(cx)[2]) if refname(args(cx)[2]) != "prklen" else None
    if out["prkLen"] is None:
        # prklen = ctxp->mdlen
        v = None
        for s in walk(body_of(f)):
            if s.get("kind") == "BinaryOperator" and s.get("opcode") == "=" and refname(s["inner"][0]) == "prklen":
                v = X({"ctxp.mdlen": "mdlen"}).int(s["inner"][1])
        out["prkLen"] = need(v, "hkdf(): prklen assignment not found")
    # --- _hkdf_extract
    f = load_ast(repo, "src/common/hkdf.c", "_hkdf_extract")
    seq = [(callee(c), c) for c in calls(body_of(f), {"mac_init", "mac_update", "mac_final"})]
    need([n for n, _ in seq][0] == "mac_init" and [n for n, _ in seq][-1] == "mac_final" and
         all(n == "mac_update" for n, _ in seq[1:-1]), "_hkdf_extract: expected mac_init, mac_update.., mac_final; got %s" % [n for n, _ in seq])
    out["extractKey"] = _src(args(seq[0][1])[2])
    out["extractMsg"] = [_src(args(c)[1]) for n, c in seq[1:-1]]
    need(refname(args(seq[-1][1])[1]) == "prk", "_hkdf_extract: mac_final does not write prk")
    # --- _hkdf_expand
    f = load_ast(repo, "src/common/hkdf.c", "_hkdf_expand")
    top = stmts(body_of(f))
    loops = [s for s in top if s.get("kind") in ("WhileStmt", "ForStmt", "DoStmt")]
    need(len(loops) == 1 and loops[0]["kind"] == "WhileStmt", "_hkdf_expand: expected exactly one top-level while loop")
    loop = loops[0]
    vars_ = {"round": "round", "ctxp.infolen": "infolen", "dstlen_left": "left", "okmlen": "okmlen", "ctxp.mdlen": "mdlen"}
    # initial round: last assignment to round before the loop
    init = None
    for s in top[:top.index(loop)]:
        if s.get("kind") == "BinaryOperator" and s.get("opcode") == "=" and refname(s["inner"][0]) == "round":
            init = X(vars_).int(s["inner"][1])
        if s.get("kind") == "DeclStmt":
            for d in s.get("inner", []):
                if d.get("name") == "round" and [c for c in d.get("inner", []) if c.get("kind") != "FullComment"]:
                    init = X(vars_).int([c for c in d["inner"] if c.get("kind") != "FullComment"][0])
    out["roundInit"] = need(init, "_hkdf_expand: initial value of round not found")
    rt = [s["type"].get("desugaredQualType") or s["type"]["qualType"] for s in walk(body_of(f)) if s.get("kind") == "VarDecl" and s.get("name") == "round"]
    need(rt == ["unsigned char"], "_hkdf_expand: `round` is not an unsigned char (the counter fed to the MAC is `&round, sizeof (round)`: one octet)")
    out["expandMore"] = X(vars_).prop(loop["inner"][0])
    need(mentions(loop["inner"][0], "dstlen_left"), "_hkdf_expand: loop condition does not test dstlen_left")
    # initial okm buffer: calloc (zeros) of okmlen = mdlen bytes
    okm0 = None
    for s in walk({"inner": top[:top.index(loop)]}):
        if s.get("kind") == "BinaryOperator" and s.get("opcode") == "=" and refname(s["inner"][0]) == "okm" and callee(strip(s["inner"][1])) == "calloc":
            okm0 = 0
    need(okm0 is not None, "_hkdf_expand: okm is not calloc'ed before the loop")
    out["okmInitByte"] = okm0
    body = stmts(loop["inner"][1])
    # phase 1: statements before mac_init: the round update
    i = 0
    upd = None
    while i < len(body) and not calls(body[i], {"mac_init"}):
        s = body[i]
        if s.get("kind") in ("UnaryOperator", "CompoundAssignOperator", "BinaryOperator") and refname(s["inner"][0]) == "round":
            x = X(vars_)
            x.st["declared"].add("round")
            x.st["locals"]["round"] = ktrans.E("round", 0, 255, atom=True)
            x.tr.rvalue(s, x.st)
            upd = x.st["locals"]["round"].s
        elif not is_errcheck(s) and strip(s).get("kind") not in ("IntegerLiteral",):
            raise Miss("_hkdf_expand: unrecognised statement before mac_init in the loop")
        i += 1
    out["roundNext"] = need(upd, "_hkdf_expand: round is not updated before mac_init")
    need(i < len(body), "_hkdf_expand: no mac_init in the loop")
    out["expandKey"] = _src(args(calls(body[i], {"mac_init"})[0])[2])
    i += 1
    # phase 2: feeds until mac_final
    feeds = []
    while i < len(body) and not calls(body[i], {"mac_final"}):
        s = body[i]
        cu = calls(s, {"mac_update"})
        if cu:
            need(len(cu) == 1, "_hkdf_expand: several mac_update calls in one statement")
            guard = "True"
            if s.get("kind") == "IfStmt" and not calls(s["inner"][0]):
                need(len(s["inner"]) == 2, "_hkdf_expand: guarded mac_update has an else branch")
                guard = X(vars_).prop(s["inner"][0])
            feeds.append((guard, _src(args(cu[0])[1])))
        elif round_written(s):
            raise Miss("_hkdf_expand: round changes between mac_init and mac_final")
        i += 1
    need(i < len(body), "_hkdf_expand: no mac_final in the loop")
    need(refname(args(calls(body[i], {"mac_final"})[0])[1]) == "okm", "_hkdf_expand: mac_final does not write okm")
    out["expandFeeds"] = feeds
    i += 1
    # phase 3: copy and stop test
    copy = stop = None
    nvar = None
    while i < len(body):
        s = body[i]
        if s.get("kind") == "BinaryOperator" and s.get("opcode") == "=" and refname(s["inner"][0]) == "n":
            copy = X(vars_).int(s["inner"][1])
            nvar = "n"
        elif calls(s, {"memcpy"}):
            c = calls(s, {"memcpy"})[0]
            need(refname(args(c)[0]) == "dstp" and refname(args(c)[1]) == "okm" and refname(args(c)[2]) == nvar,
                 "_hkdf_expand: memcpy is not (dstp, okm, n)")
        elif s.get("kind") == "IfStmt" and any(x.get("kind") == "BreakStmt" for x in walk(s["inner"][1])):
            stop = X(vars_).prop(s["inner"][0])
            need(i == len(body) - 1, "_hkdf_expand: the stop test is not the last statement of the loop")
        elif round_written(s):
            raise Miss("_hkdf_expand: round changes after mac_final")
        i += 1
    out["expandCopy"] = need(copy, "_hkdf_expand: `n = MIN (okmlen, dstlen_left)` not found")
    out["expandStop"] = need(stop, "_hkdf_expand: `if (round == HKDF_MAX_ROUNDS) break` not found")
    adv = [s for s in body if s.get("kind") == "CompoundAssignOperator" and refname(s["inner"][0]) in ("dstp", "dstlen_left")]
    need(sorted((refname(s["inner"][0]), s["opcode"], refname(s["inner"][1])) for s in adv) ==
         [("dstlen_left", "-=", "n"), ("dstp", "+=", "n")], "_hkdf_expand: dstp += n / dstlen_left -= n not found")
    return out


def round_written(s):
    for x in walk(s):
        if x.get("kind") in ("UnaryOperator", "CompoundAssignOperator", "BinaryOperator") and \
                (x.get("opcode") in ("++", "--", "=") or x.get("kind") == "CompoundAssignOperator") and refname(x["inner"][0]) == "round" \
                and not (x.get("kind") == "UnaryOperator" and x.get("opcode") == "&"):
            if x.get("kind") == "BinaryOperator" and x.get("opcode") != "=":
                continue
            return True
    return False


HKDF_TWIN = {
    "defaultSaltLen": "mdlen", "defaultSaltByte": 0, "prkLen": "mdlen", "extractKey": "salt", "extractMsg": ["ikm"],
    "roundInit": "0", "expandMore": "left > 0", "okmInitByte": 0, "roundNext": "wrapU8 (round + 1)", "expandKey": "prk",
    "expandFeeds": [("round > 1", "prev"), ("infolen > 0", "info"), ("True", "counter")],
    "expandCopy": "wrapS32 (if (wrapU64 okmlen) ≤ left then wrapU64 okmlen else left)", "expandStop": "round = 255",
}


def hkdf_lean(it):
    feeds = " ++\n    ".join("(if %s then [Src.%s] else [])" % (g, s) if g != "True" else "[Src.%s]" % s for g, s in it["expandFeeds"]) or "[]"
    return """
/-! ### src/common/hkdf.c (AST) -/

/-- the byte strings a MAC call of `hkdf.c` can be keyed with / fed -/
inductive Src | salt | ikm | info | prk | prev | counter
deriving DecidableEq, Repr

/-- `hkdf()`: length of the salt allocated when none was set -/
def defaultSaltLen (mdlen : Int) : Int := %(defaultSaltLen)s
/-- … and the byte it is filled with (calloc) -/
def defaultSaltByte : UInt8 := %(defaultSaltByte)d
/-- length of the pseudorandom key handed from extract to expand -/
def prkLen (mdlen : Int) : Int := %(prkLen)s
/-- `_hkdf_extract`: key of the MAC and what is fed into it -/
def extractKey : Src := Src.%(extractKey)s
def extractMsg : List Src := [%(extractMsgL)s]
/-- `_hkdf_expand`: value of `round` before the loop, and the byte the scratch block `okm` is initialised with -/
def roundInit : Int := %(roundInit)s
def okmInitByte : UInt8 := %(okmInitByte)d
/-- the loop condition -/
def expandMore (left : Int) : Prop := %(expandMore)s
instance (left : Int) : Decidable (expandMore left) := by unfold expandMore; infer_instance
/-- update of `round` at the top of the loop body (before it is used) -/
def roundNext (round : Int) : Int := %(roundNext)s
/-- key of the per-round MAC -/
def expandKey : Src := Src.%(expandKey)s
/-- what one round feeds into the MAC, in order, with the guards of the code -/
def expandFeeds (round infolen : Int) : List Src :=
    %(feeds)s
/-- number of bytes copied to the output after a round -/
def expandCopy (okmlen left : Int) : Int := %(expandCopy)s
/-- the test that ends the loop after the copy -/
def expandStop (round : Int) : Prop := %(expandStop)s
instance (round : Int) : Decidable (expandStop round) := by unfold expandStop; infer_instance
""" % dict(it, extractMsgL=", ".join("Src." + s for s in it["extractMsg"]), feeds=feeds)

# ----------------------------------------------------------------------------------------------- mungekey/conf.c

def bits_items(repo):
    out = {}
    f = load_ast(repo, "src/mungekey/conf.c", "_conf_parse_bits_opt")
    vars_ = {"n": "n", "min": "min", "max": "max"}
    mn = mx = upd = None
    setint = None
    for s in walk(body_of(f)):
        if s.get("kind") == "VarDecl" and s.get("name") in ("min", "max"):
            ini = [c for c in s.get("inner", []) if c.get("kind") != "FullComment"]
            if ini:
                v = X(vars_).int(ini[0])
                if s["name"] == "min":
                    mn = v
                else:
                    mx = v
        if s.get("kind") == "BinaryOperator" and s.get("opcode") == "=" and refname(s["inner"][0]) in ("min", "max"):
            v = X(vars_).int(s["inner"][1])
            if refname(s["inner"][0]) == "min":
                mn = v
            else:
                mx = v
        if s.get("kind") in ("BinaryOperator", "CompoundAssignOperator") and refname(s["inner"][0]) == "n" and \
                (s.get("opcode") == "=" or s.get("kind") == "CompoundAssignOperator") and \
                (mentions(s["inner"][1], "n") or s.get("kind") == "CompoundAssignOperator"):
            x = X(vars_)
            x.st["declared"].add("n")
            x.st["locals"]["n"] = ktrans.E("n", -(1 << 31), (1 << 31) - 1, atom=True)
            x.tr.rvalue(s, x.st)
            upd = x.st["locals"]["n"].s
        if callee(s) == "_conf_set_int":
            setint = s
    need(mn is not None and mx is not None, "_conf_parse_bits_opt: min/max not found")
    need(setint is not None and refname(args(setint)[0]) == "n" and refname(args(setint)[2]) == "min" and refname(args(setint)[3]) == "max",
         "_conf_parse_bits_opt: `_conf_set_int (&n, src, min, max)` not found")
    # the store into *dstp must be n, after the rounding
    st = [s for s in walk(body_of(f)) if s.get("kind") == "BinaryOperator" and s.get("opcode") == "=" and refname(s["inner"][0]) == "dstp"]
    need(len(st) == 1 and refname(st[0]["inner"][1]) == "n", "_conf_parse_bits_opt: `*dstp = n` not found")
    out["bitsMin"], out["bitsMax"] = mn, mx
    out["bitsToBytes"] = upd if upd is not None else "n"
    # _conf_set_int: the numeric range tests (the strtol syntax / errno tests are parsing, not modelled)
    f = load_ast(repo, "src/mungekey/conf.c", "_conf_set_int")
    rej = []
    skipped = []
    v2 = {"l": "l", "min": "min", "max": "max"}
    for s in stmts(body_of(f)):
        if s.get("kind") == "IfStmt" and any(x.get("kind") == "ReturnStmt" for x in walk(s["inner"][1])):
            c = s["inner"][0]
            names = {refname(x) for x in walk(c) if x.get("kind") == "DeclRefExpr" and x["referencedDecl"]["kind"] in ("VarDecl", "ParmVarDecl")}
            if names and names <= {"l", "min", "max"} and not calls(c):
                rej.append(X(v2).prop(c))
            else:
                skipped.append(sorted(n for n in names if n))
    need(rej, "_conf_set_int: no numeric range test found")
    st = [s for s in walk(body_of(f)) if s.get("kind") == "BinaryOperator" and s.get("opcode") == "=" and refname(s["inner"][0]) == "dstp"]
    need(len(st) == 1, "_conf_set_int: `*dstp = (int) l` not found")
    out["setIntValue"] = X(v2).int(st[0]["inner"][1])
    out["setIntRejects"] = " ∨ ".join("(%s)" % r for r in rej)
    out["setIntSkipped"] = skipped
    # create_conf: default key_num_bytes
    f = load_ast(repo, "src/mungekey/conf.c", "create_conf")
    d = None
    for s in walk(body_of(f)):
        if s.get("kind") == "BinaryOperator" and s.get("opcode") == "=" and (refname(s["inner"][0]) or "").endswith(".key_num_bytes"):
            d = X({}).int(s["inner"][1])
    out["dflBytes"] = need(d, "create_conf: default key_num_bytes not found")
    return out


BITS_TWIN = {"bitsMin": "256", "bitsMax": "8192", "bitsToBytes": "wrapS32 (cdiv (wrapS32 (n + 7)) 8)",
             "setIntRejects": "(l < (-2147483648) ∨ l > 2147483647) ∨ (l < min ∨ l > max)", "setIntValue": "wrapS32 l",
             "dflBytes": "128", "setIntSkipped": []}


def bits_lean(it):
    return """
/-! ### src/mungekey/conf.c (AST): `--bits` -/

/-- `_conf_parse_bits_opt`: the range handed to `_conf_set_int` -/
def bitsMin : Int := %(bitsMin)s
def bitsMax : Int := %(bitsMax)s
/-- `_conf_set_int`: the numeric tests that reject the parsed `long` -/
def setIntRejects (l min max : Int) : Prop := %(setIntRejects)s
instance (l min max : Int) : Decidable (setIntRejects l min max) := by unfold setIntRejects; infer_instance
/-- … and the value stored on acceptance -/
def setIntValue (l : Int) : Int := %(setIntValue)s
/-- `_conf_parse_bits_opt`: bits to bytes -/
def bitsToBytes (n : Int) : Int := %(bitsToBytes)s
/-- `create_conf`: key length when `--bits` is not given -/
def dflBytes : Int := %(dflBytes)s
""" % it

# ----------------------------------------------------------------------------------------------- mungekey/key.c

def _const(node):
    """evaluate an integer constant expression made of literals and | + """
    n = strip(node)
    k = n.get("kind")
    if k == "IntegerLiteral":
        return int(n["value"])
    if k == "BinaryOperator" and n.get("opcode") in ("|", "+", "&"):
        a, b = _const(n["inner"][0]), _const(n["inner"][1])
        return {"|": a | b, "+": a + b, "&": a & b}[n["opcode"]]
    if k == "UnaryOperator" and n.get("opcode") == "~":
        return ~_const(n["inner"][0])
    raise Miss("not an integer constant expression (%s)" % k)


def key_items(repo, consts):
    out = {}
    f = load_ast(repo, "src/mungekey/key.c", "create_key")
    top = stmts(body_of(f))
    # position of every interesting call in source order
    order = []
    def visit(n, guards):
        if not isinstance(n, dict):
            return
        if n.get("kind") == "IfStmt":
            inner = n["inner"]
            visit(inner[0], guards)
            visit(inner[1], guards + [inner[0]])
            if len(inner) > 2:
                visit(inner[2], guards + [("not", inner[0])])
            return
        if n.get("kind") == "CallExpr":
            order.append((callee(n), n, guards))
        for c in n.get("inner", []) or []:
            visit(c, guards)
    visit(body_of(f), [])
    names = [o[0] for o in order]
    opens = [o for o in order if o[0] in ("open", "open64", "openat", "creat")]
    need(len(opens) == 1 and opens[0][0] in ("open", "open64"), "create_key: expected exactly one open() call, got %s" % [o[0] for o in opens])
    op = opens[0]
    need((refname(args(op[1])[0]) or "").endswith(".key_path"), "create_key: open() is not on confp->key_path")
    need(not op[2], "create_key: open() is conditional")
    out["openFlags"] = _const(args(op[1])[1])
    need(len(args(op[1])) >= 3 or not (out["openFlags"] & consts["O_CREAT"]), "create_key: open() with O_CREAT but no mode argument")
    out["openMode"] = _const(args(op[1])[2]) if len(args(op[1])) >= 3 else 0
    # unlink before open, guarded by do_force only
    ui = [i for i, o in enumerate(order) if o[0] in ("unlink", "remove") and (refname(args(o[1])[0]) or "").endswith(".key_path")]
    oi = order.index(op)
    force = False
    for i in ui:
        g = order[i][2]
        if i < oi and len(g) == 1 and not isinstance(g[0], tuple) and (refname(g[0]) or "").endswith(".do_force"):
            force = True
        else:
            raise Miss("create_key: unlink of key_path that is not `if (confp->do_force)` before open()")
    out["forceUnlinks"] = force
    # tolerance of a failed unlink: the test in front of the fatal log_errno inside the do_force block
    tol = None
    for s in walk(body_of(f)):
        if s.get("kind") == "IfStmt" and mentions(s["inner"][0], "rv") and any(callee(c) == "__errno_location" for c in calls(s["inner"][0])) \
                and calls(s["inner"][1], {"log_errno", "log_err"}):
            tol = X({"rv": "rv", "errno": "errno"}).prop(s["inner"][0])
    out["unlinkFatal"] = tol if tol is not None else ("rv = -1" if force else "False")
    # any call that changes the creation mask or the mode afterwards
    perm = []
    for nm, c, g in order:
        if nm in ("umask", "chmod", "fchmod", "fchmodat"):
            need(not g, "create_key: conditional %s()" % nm)
            m = _const(args(c)[-1 if nm != "fchmodat" else 2])
            perm.append((nm, m, order.index((nm, c, g)) < oi))
    out["permCalls"] = perm
    # what is written
    w = [o for o in order if o[0] in ("fd_write_n", "write")]
    need(len(w) == 1 and refname(args(w[0][1])[0]) == "fd" and refname(args(w[0][1])[1]) == "buf", "create_key: expected one fd_write_n (fd, buf, ..)")
    out["writeLen"] = X({"confp.key_num_bytes": "keyNumBytes"}).int(args(w[0][1])[2])
    sec = [o for o in order if o[0] == "_create_key_secret"]
    need(len(sec) == 1 and refname(args(sec[0][1])[0]) == "buf" and names.index("_create_key_secret") < names.index(w[0][0]),
         "create_key: _create_key_secret (buf, ..) before the write not found")
    out["secretLen"] = X({"confp.key_num_bytes": "keyNumBytes"}).int(args(sec[0][1])[1])
    need(names.index("_create_key_secret") > oi, "create_key: secret is generated before the file is created")  # order as in the source
    # --- _create_key_secret
    f = load_ast(repo, "src/mungekey/key.c", "_create_key_secret")
    b = body_of(f)
    lits = {}
    for s in walk(b):
        if s.get("kind") == "VarDecl":
            ini = [c for c in s.get("inner", []) if c.get("kind") != "FullComment"]
            if ini and strlit(ini[0]) is not None:
                lits[s["name"]] = strlit(ini[0])
    sizes = {}
    for s in walk(b):
        if s.get("kind") == "VarDecl":
            q = s["type"].get("desugaredQualType") or s["type"]["qualType"]
            m = re.match(r"unsigned char\s*\[(\d+)\]", q)
            if m:
                sizes[s["name"]] = int(m.group(1))
            elif q in ("unsigned int", "int"):
                sizes[s["name"]] = 4
            elif q in ("unsigned long", "long"):
                sizes[s["name"]] = 8
    def one(nm):
        c = calls(b, {nm})
        need(len(c) == 1, "_create_key_secret: expected one %s call" % nm)
        return c[0]
    def is_sizeof(node, var):
        n = strip(node)
        return n.get("kind") == "UnaryExprOrTypeTraitExpr" and n.get("name") == "sizeof" and refname(n["inner"][0]) == var
    c = one("entropy_read")
    need(refname(args(c)[0]) == "key" and is_sizeof(args(c)[1], "key"), "_create_key_secret: entropy_read (key, sizeof (key), ..) not found")
    c = one("entropy_read_uint")
    need(refname(args(c)[0]) == "salt", "_create_key_secret: entropy_read_uint (&salt) not found")
    c = one("hkdf_ctx_set_key")
    need(refname(args(c)[1]) == "key" and is_sizeof(args(c)[2], "key"), "_create_key_secret: hkdf_ctx_set_key (.., key, sizeof (key))")
    out["ikmLen"] = need(sizes.get("key"), "_create_key_secret: size of key[]")
    c = one("hkdf_ctx_set_salt")
    need(refname(args(c)[1]) == "salt" and is_sizeof(args(c)[2], "salt"), "_create_key_secret: hkdf_ctx_set_salt (.., &salt, sizeof (salt))")
    out["saltLen"] = need(sizes.get("salt"), "_create_key_secret: size of salt")
    c = one("hkdf_ctx_set_info")
    need(refname(args(c)[1]) == "info" and callee(strip(args(c)[2])) == "strlen" and refname(args(strip(args(c)[2]))[0]) == "info",
         "_create_key_secret: hkdf_ctx_set_info (.., info, strlen (info))")
    c = one("hkdf_ctx_set_md")
    need(refname(args(c)[1]) == "md", "_create_key_secret: hkdf_ctx_set_md (.., md)")
    c = one("hkdf")
    need(refname(args(c)[1]) == "buf" and refname(args(c)[2]) == "buflen", "_create_key_secret: hkdf (.., buf, &buflen)")
    c = one("munge_enum_int_to_str")
    need(refname(args(c)[1]) == "md", "_create_key_secret: md_str is not the name of md")
    c = one("snprintf")
    need(refname(args(c)[0]) == "info", "_create_key_secret: snprintf does not write info")
    fmt = need(strlit(args(c)[2]), "_create_key_secret: snprintf format is not a literal")
    fa = []
    for a in args(c)[3:]:
        r = refname(a)
        if r in lits:
            fa.append(("lit", lits[r]))
        elif r == "md_str":
            fa.append(("mdname", None))
        elif r == "num_bits":
            fa.append(("bits", None))
        else:
            raise Miss("_create_key_secret: snprintf argument `%s` not recognised" % r)
    out["infoFormat"] = fmt
    out["infoArgs"] = fa
    nb = None
    for s in walk(b):
        if s.get("kind") == "BinaryOperator" and s.get("opcode") == "=" and refname(s["inner"][0]) == "num_bits":
            nb = X({"buflen": "buflen"}).int(s["inner"][1])
    out["numBits"] = need(nb, "_create_key_secret: num_bits assignment not found")
    return out


KEY_TWIN = {"openFlags": 193, "openMode": 384, "forceUnlinks": True, "unlinkFatal": "rv = (-1) ∧ errno ≠ 2", "permCalls": [],
            "writeLen": "wrapU64 keyNumBytes", "secretLen": "wrapU64 keyNumBytes", "ikmLen": 256, "saltLen": 4,
            "infoFormat": b"%s:%s:%d:", "infoArgs": [("lit", b"MUNGEKEY"), ("mdname", None), ("bits", None)],
            "numBits": "wrapS32 (wrapU64 (buflen * 8))"}


def key_lean(it):
    fa = ", ".join({"lit": "InfoArg.lit %s" % lean_bytes(v or b""), "mdname": "InfoArg.mdName", "bits": "InfoArg.bits"}[k] for k, v in it["infoArgs"])
    perm = ", ".join("(%s, %d, %s)" % (lean_str(n), m, "true" if before else "false") for n, m, before in it["permCalls"])
    return """
/-! ### src/mungekey/key.c (AST) -/

/-- `create_key`: second and third argument of the one `open (confp->key_path, …)` -/
def openFlags : Nat := %(openFlags)d
def openMode : Nat := %(openMode)d
/-- `unlink (confp->key_path)` happens under `if (confp->do_force)` before the open -/
def forceUnlinks : Bool := %(fu)s
/-- the test that makes a failed unlink fatal -/
def unlinkFatal (rv errno : Int) : Prop := %(unlinkFatal)s
instance (rv errno : Int) : Decidable (unlinkFatal rv errno) := by unfold unlinkFatal; infer_instance
/-- calls that change the creation mask or the mode: (function, constant argument, before the open?) -/
def permCalls : List (String × Nat × Bool) := [%(perm)s]
/-- number of bytes requested from `_create_key_secret` and number of bytes written to the file -/
def secretLen (keyNumBytes : Int) : Int := %(secretLen)s
def writeLen (keyNumBytes : Int) : Int := %(writeLen)s
/-- `_create_key_secret`: sizes of the input keying material and of the salt -/
def ikmLen : Nat := %(ikmLen)d
def saltLen : Nat := %(saltLen)d
/-- the distinguisher: `snprintf` format and arguments, and the bits expression -/
inductive InfoArg | lit (s : List UInt8) | mdName | bits
deriving DecidableEq, Repr
def infoFormat : List UInt8 := %(fmt)s
def infoArgs : List InfoArg := [%(fa)s]
def numBits (buflen : Int) : Int := %(numBits)s
""" % dict(it, fu="true" if it["forceUnlinks"] else "false", perm=perm, fmt=lean_bytes(it["infoFormat"]), fa=fa)

# ----------------------------------------------------------------------------------------------- munged/conf.c

def subkey_items(repo, enumvals):
    out = {}
    f = load_ast(repo, "src/munged/conf.c", "create_subkeys")
    b = body_of(f)
    ctxs = []
    def cid(node):
        r = need(refname(node), "create_subkeys: digest context argument is not a variable")
        if r not in ctxs:
            ctxs.append(r)
        return ctxs.index(r)
    prog = []
    loopinfo = {}
    bufsize = None
    for s in walk(b):
        if s.get("kind") == "VarDecl" and s.get("name") == "buf":
            m = re.match(r"unsigned char\s*\[(\d+)\]", s["type"].get("desugaredQualType") or s["type"]["qualType"])
            if m:
                bufsize = int(m.group(1))
    def visit(n, in_loop):
        if not isinstance(n, dict):
            return
        k = n.get("kind")
        if k in ("ForStmt", "WhileStmt", "DoStmt"):
            need(not in_loop and "loop" not in loopinfo, "create_subkeys: more than one loop")
            loopinfo["loop"] = n
            body = stmts(n["inner"][-1] if k != "DoStmt" else n["inner"][0])
            conds = [c for c in (n["inner"][:-1] if k != "DoStmt" else n["inner"][1:]) if isinstance(c, dict) and c.get("kind")]
            need(not conds, "create_subkeys: the read loop has a loop condition (expected `for (;;)`)")
            read_loop(body)
            return
        if k == "IfStmt" and mentions(n["inner"][0], "n_total") and not calls(n["inner"][0]) and calls(n["inner"][1], {"log_err", "log_errno"}):
            prog.append(("checkLen", X({"n_total": "nTotal"}).prop(n["inner"][0])))
            return
        if k == "CallExpr":
            nm = callee(n)
            a = args(n)
            if nm == "md_init":
                alg = strip(a[1])
                v = None
                if alg.get("kind") == "DeclRefExpr" and alg["referencedDecl"]["kind"] == "EnumConstantDecl":
                    v = enumvals.get(alg["referencedDecl"]["name"])
                elif alg.get("kind") == "IntegerLiteral":
                    v = int(alg["value"])
                prog.append(("init", cid(a[0]), need(v, "create_subkeys: md_init algorithm is not an enum constant with a probed value")))
            elif nm == "md_update":
                lit = strlit(a[1])
                need(lit is not None, "create_subkeys: md_update outside the read loop with a non-literal argument")
                ln = _const(a[2])
                need(0 <= ln <= len(lit) + 1, "create_subkeys: md_update literal length")
                prog.append(("feed", cid(a[0]), (lit + b"\0")[:ln]))
            elif nm == "md_copy":
                prog.append(("copy", cid(a[0]), cid(a[1])))
            elif nm == "md_final":
                dest = need(refname(a[1]), "create_subkeys: md_final destination")
                prog.append(("final", cid(a[0]), dest.split(".")[-1]))
            elif nm in ("md_cleanup",):
                prog.append(("cleanup", cid(a[0])))
        for c in n.get("inner", []) or []:
            visit(c, in_loop)
    def read_loop(body):
        # n = read (fd, buf, sizeof (buf)); eof / retry / fail tests; md_update (&ctx, buf, n); n_total += n
        v = {"n": "n", "errno": "errno"}
        got = {}
        for s in body:
            cr = calls(s, {"read"})
            cu = calls(s, {"md_update"})
            if cr:
                need(s.get("kind") == "BinaryOperator" and s.get("opcode") == "=" and refname(s["inner"][0]) == "n" and "read" not in got,
                     "create_subkeys: `n = read (fd, buf, sizeof (buf))` not found")
                a = args(cr[0])
                sz = strip(a[2])
                need(refname(a[0]) == "fd" and refname(a[1]) == "buf" and sz.get("kind") == "UnaryExprOrTypeTraitExpr" and refname(sz["inner"][0]) == "buf",
                     "create_subkeys: read arguments are not (fd, buf, sizeof (buf))")
                got["read"] = True
            elif cu:
                need("read" in got and len(cu) == 1, "create_subkeys: md_update before read in the loop")
                a = args(cu[0])
                need(refname(a[1]) == "buf" and refname(a[2]) == "n" and strip(a[2]).get("kind") == "DeclRefExpr",
                     "create_subkeys: the loop does not feed (buf, n) to the digest")
                if s.get("kind") == "IfStmt":
                    c = strip(s["inner"][0])
                    need(c.get("kind") == "BinaryOperator" and c.get("opcode") in ("<", "!=", "==") and callee(strip(c["inner"][0])) == "md_update",
                         "create_subkeys: md_update in the read loop is guarded (expected `if (md_update (…) < 0) log_err`)")
                need("eof" in got, "create_subkeys: digest update before the end-of-file test")
                got["update"] = cid(a[0])
            elif s.get("kind") == "IfStmt" and any(x.get("kind") == "BreakStmt" for x in walk(s["inner"][1])):
                need("update" not in got, "create_subkeys: break after the digest update")
                got["eof"] = X(v).prop(s["inner"][0])
            elif s.get("kind") == "IfStmt" and any(x.get("kind") == "ContinueStmt" for x in walk(s["inner"][1])):
                need("update" not in got, "create_subkeys: continue after the digest update")
                got["retry"] = X(v).prop(s["inner"][0])
            elif s.get("kind") == "IfStmt" and calls(s["inner"][1], {"log_errno", "log_err"}):
                need("update" not in got, "create_subkeys: read-error test after the digest update")
                got["fail"] = X(v).prop(s["inner"][0])
            elif s.get("kind") == "CompoundAssignOperator" and refname(s["inner"][0]) == "n_total":
                need(s.get("opcode") == "+=" and refname(s["inner"][1]) == "n" and "update" in got, "create_subkeys: `n_total += n` after the update not found")
                got["count"] = True
            else:
                raise Miss("create_subkeys: unrecognised statement in the read loop (%s)" % s.get("kind"))
        for k in ("read", "eof", "update", "count"):
            need(k in got, "create_subkeys: read loop lacks its %s step" % k)
        out["readEof"] = got["eof"]
        out["readRetry"] = got.get("retry", "False")
        out["readFail"] = got.get("fail", "False")
        prog.append(("feedFile", got["update"]))
    visit(b, False)
    need("loop" in loopinfo, "create_subkeys: read loop not found")
    ini = None
    for s in walk(b):
        if s.get("kind") == "BinaryOperator" and s.get("opcode") == "=" and refname(s["inner"][0]) == "n_total":
            ini = X({}).int(s["inner"][1])
    out["nTotalInit"] = need(ini, "create_subkeys: n_total is not initialised")
    out["program"] = prog
    out["readBuf"] = need(bufsize, "create_subkeys: size of buf[]")
    out["ctxNames"] = ctxs
    return out


SUB_TWIN = {"readEof": "n = 0", "readRetry": "n < 0 ∧ errno = 4", "readFail": "n < 0", "nTotalInit": "0", "readBuf": 1024,
            "ctxNames": ["dek_ctx", "mac_ctx"],
            "program": [("init", 0, 3), ("feedFile", 0), ("checkLen", "nTotal < 32"), ("copy", 1, 0), ("feed", 0, b"1"), ("final", 0, "dek_key"),
                        ("cleanup", 0), ("feed", 1, b"2"), ("final", 1, "mac_key"), ("cleanup", 1)]}


def sub_lean(it):
    ops = []
    for p in it["program"]:
        if p[0] == "init":
            ops.append("SkOp.init %d %d" % (p[1], p[2]))
        elif p[0] == "feedFile":
            ops.append("SkOp.feedFile %d" % p[1])
        elif p[0] == "checkLen":
            ops.append("SkOp.checkLen")
        elif p[0] == "copy":
            ops.append("SkOp.copy %d %d" % (p[1], p[2]))
        elif p[0] == "feed":
            ops.append("SkOp.feed %d %s" % (p[1], lean_bytes(p[2])))
        elif p[0] == "final":
            ops.append("SkOp.final %d %s" % (p[1], lean_str(p[2])))
        elif p[0] == "cleanup":
            ops.append("SkOp.cleanup %d" % p[1])
    chk = [p[1] for p in it["program"] if p[0] == "checkLen"]
    short = " ∨ ".join("(%s)" % c for c in chk) if chk else "False"
    return """
/-! ### src/munged/conf.c (AST): `create_subkeys` -/

/-- the digest calls of `create_subkeys` in execution order; contexts are numbered in order of first use (%(names)s) -/
inductive SkOp
  | init (ctx : Nat) (alg : Nat)          -- md_init
  | feedFile (ctx : Nat)                  -- the read loop: every chunk read goes into this context
  | checkLen                              -- `if (keyTooShort n_total) log_err (…)`
  | copy (dst src : Nat)                  -- md_copy
  | feed (ctx : Nat) (lit : List UInt8)   -- md_update with a literal
  | final (ctx : Nat) (dest : String)     -- md_final into conf-><dest>
  | cleanup (ctx : Nat)
deriving DecidableEq, Repr
def subkeyProgram : List SkOp := [
  %(ops)s]
/-- the length test that refuses a key file -/
def keyTooShort (nTotal : Int) : Prop := %(short)s
instance (nTotal : Int) : Decidable (keyTooShort nTotal) := by unfold keyTooShort; infer_instance
/-- the tests on the return value of `read` in the loop: end of file, retry, fatal -/
def readEof (n errno : Int) : Prop := %(readEof)s
def readRetry (n errno : Int) : Prop := %(readRetry)s
def readFail (n errno : Int) : Prop := %(readFail)s
instance (n errno : Int) : Decidable (readEof n errno) := by unfold readEof; infer_instance
instance (n errno : Int) : Decidable (readRetry n errno) := by unfold readRetry; infer_instance
instance (n errno : Int) : Decidable (readFail n errno) := by unfold readFail; infer_instance
def nTotalInit : Int := %(nTotalInit)s
/-- size of the read buffer -/
def readBuf : Nat := %(readBuf)d
""" % dict(it, ops=",\n  ".join(ops), short=short, names=", ".join(it["ctxNames"]))

# ----------------------------------------------------------------------------------------------- main

def item(ctx, name, fn, twin):
    """run one AST extractor; on failure record the failed obligation and fall back to the committed twin so that
    the library still builds (the run is then decided by the correspondence streams / the oracle)."""
    try:
        it = fn()
        ctx.obligation("gen", "%s extracted from the AST" % name, True)
        return it, True
    except (Miss, KError, KeyError, IndexError, TypeError, AttributeError, ValueError) as e:
        ctx.obligation("gen", "%s extracted from the AST" % name, False,
                       "%s: %s -- the extractor does not recognise the code any more; using the committed twin" % (type(e).__name__, e))
        return dict(twin), False


def generate(ctx):
    out = run_probe(ctx, "hkdf", PROBE, libs=["-lcrypto"], gc=True)
    if out is None:
        return False
    kv = {}
    for line in out.strip().split("\n"):
        p = line.split()
        kv[p[0]] = p[1:]
    want = ["HKDF_MAX_ROUNDS", "KEY_LEN_MIN_BYTES", "KEY_LEN_MAX_BYTES", "KEY_LEN_DFL_BYTES", "O_WRONLY", "O_RDWR", "O_ACCMODE", "O_CREAT", "O_EXCL",
            "O_TRUNC", "O_APPEND", "EINTR", "ENOENT", "EEXIST", "ENTROPY_BYTES", "DEFAULT_MAC", "MAC_SHA1", "MAC_LAST", "DEFAULT_MAC_NAME",
            "DEFAULT_MAC_LEN", "SHA1_LEN", "MAC_SIZES"]
    ok = all(k in kv and kv[k] for k in want)
    ctx.obligation("gen", "hkdf/key constants printed by the probe (HKDF_MAX_ROUNDS, MUNGE_KEY_LEN_*, O_*, default MAC …)", ok, out[:400])
    if not ok:
        return False
    consts = {k: int(kv[k][0]) for k in want if k not in ("DEFAULT_MAC_NAME", "MAC_SIZES")}
    ctx.c20_consts = dict(consts, DEFAULT_MAC_NAME=kv["DEFAULT_MAC_NAME"][0], MAC_SIZES=[int(x) for x in kv["MAC_SIZES"]])
    hk, ok1 = item(ctx, "hkdf.c: default salt, extract and expand-loop structure", lambda: hkdf_items(ctx.repo), HKDF_TWIN)
    bt, ok2 = item(ctx, "mungekey/conf.c: --bits range tests and bits->bytes expression", lambda: bits_items(ctx.repo), BITS_TWIN)
    ky, ok3 = item(ctx, "mungekey/key.c: unlink/open flags/mode/write and HKDF inputs of the key", lambda: key_items(ctx.repo, consts), KEY_TWIN)
    sk, ok4 = item(ctx, "munged/conf.c: create_subkeys digest program, read loop and length test",
                   lambda: subkey_items(ctx.repo, {"MUNGE_MAC_SHA1": consts["MAC_SHA1"], "MUNGE_DEFAULT_MAC": consts["DEFAULT_MAC"]}), SUB_TWIN)
    kern = translate_kernels(ctx, "src/mungekey/conf.c", [
        dict(name="_conf_validate", lean="conf_validate", void=True,
             inputs=[("confp", "confp"), ("confp.key_path", "keyPath"), ("confp.key_num_bytes", "keyNumBytes")],
             calls={"log_err": ("event", 0, [0])}),
    ])
    if kern is None:
        kern = ("/-- TWIN of `_conf_validate` (the translator failed) -/\n"
                "def conf_validate (confp keyPath keyNumBytes : Int) : KOut :=\n"
                "  { ret := 0, writes := [], events := (if confp = 0 then [(\"log_err\", [15])] else []) ++ (if keyPath = 0 then [(\"log_err\", [15])] else []) ++\n"
                "      (if keyNumBytes > 1024 then [(\"log_err\", [15])] else []) ++ (if keyNumBytes < 32 then [(\"log_err\", [15])] else []) }\n")
    body = "/- GENERATED from <repo>/src/{common/hkdf.c,mungekey/conf.c,mungekey/key.c,munged/conf.c} by tools/gen/g_hkdf.py -- do not edit -/\n"
    body += "import Munge.C.Kernel\nset_option linter.unusedVariables false\nnamespace Munge.Gen.Hkdf\nopen Munge.C\n\n/-! ### constants (compile-and-print probe) -/\n\n"
    for k in want:
        if k == "DEFAULT_MAC_NAME":
            body += "def DEFAULT_MAC_NAME : List UInt8 := %s  -- %s\n" % (lean_bytes(kv[k][0].encode()), kv[k][0])
        elif k == "MAC_SIZES":
            body += "/-- `mac_size (md)` of the real library for md = 0 … MUNGE_MAC_LAST_ITEM (-1 = invalid) -/\n"
            body += "def MAC_SIZES : List Int := [%s]\n" % ", ".join(kv[k])
        else:
            body += "def %s : Int := %s\n" % (k, kv[k][0])
    body += hkdf_lean(hk) + bits_lean(bt) + key_lean(ky) + sub_lean(sk)
    body += "\n/-! ### `_conf_validate` of mungekey (K translator) -/\n\n" + kern
    body += "\nend Munge.Gen.Hkdf\n"
    gen_write("Hkdf", body)
    ctx.c20_items = {"hkdf": hk, "bits": bt, "key": ky, "subkeys": sk}
    return ok and ok1 and ok2 and ok3 and ok4
