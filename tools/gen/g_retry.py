"""Gen.Retry: what the `Retry` model (C13) takes from src/libmunge/m_msg_client.c and the headers.

From clang-14's JSON AST of `m_msg_client_xfer` (macros already expanded, implicit casts explicit):
  * the initial value of the attempt counter `i` (the assignment right before the `while (1)`),
  * the `else if` chain of one attempt: callee of every link, in order, and what a failure of that link
    does -- `break` (leave the loop: fatal) or fall through to the exit tests (a retryable failure), and the
    error code a link forces (`e = EMUNGE_SOCKET` after `auth_send () < 0`),
  * the `maxlen` arguments of the `m_msg_send` / `m_msg_recv` calls,
  * the tail of the loop body, executed symbolically over (i, e, retry): every `if (..) break;` whose
    condition speaks about `i` / `e` becomes an exit test (a Lean Bool term, in source order), the assignment
    `mreq->retry = <expr>` becomes `retryOf` (with the conversion to the member's C type), the argument of the
    back-off sleep becomes `sleepMsecs`, the update of `i` becomes `nextI`.  A tail without an assignment to
    `mreq->retry` yields `retryOf i retry = retry` (the header byte is never advanced) -- that is a semantic
    statement about the code, not a default.
From a compile-and-print probe: MUNGE_SOCKET_RETRY_ATTEMPTS, MUNGE_SOCKET_RETRY_MSECS, MUNGE_MAXIMUM_REQ_LEN,
the message type numbers, the header size/magic/version, the error codes the loop mentions.
Anything not understood is a failed obligation, never a default."""
from . import ktrans
from .probe import run_probe
from ..vlib.leanlib import gen_write

FILE = "src/libmunge/m_msg_client.c"
FN = "m_msg_client_xfer"
EXPECT_CHAIN = ["_m_msg_client_connect", "m_msg_send", "auth_send", "m_msg_create", "m_msg_bind", "m_msg_recv",
                "_m_msg_client_disconnect"]

PROBE = r'''
#include <stdio.h>
#include <munge.h>
#include "munge_defs.h"
#include "m_msg.h"
int main(void){
  printf("MUNGE_SOCKET_RETRY_ATTEMPTS %lld\n", (long long) MUNGE_SOCKET_RETRY_ATTEMPTS);
  printf("MUNGE_SOCKET_RETRY_MSECS %lld\n", (long long) MUNGE_SOCKET_RETRY_MSECS);
  printf("MUNGE_MAXIMUM_REQ_LEN %lld\n", (long long) MUNGE_MAXIMUM_REQ_LEN);
  printf("MUNGE_SOCKET_TIMEOUT_MSECS %lld\n", (long long) MUNGE_SOCKET_TIMEOUT_MSECS);
  printf("MUNGE_MSG_HDR_SIZE %lld\n", (long long) MUNGE_MSG_HDR_SIZE);
  printf("MUNGE_MSG_MAGIC %lld\n", (long long) MUNGE_MSG_MAGIC);
  printf("MUNGE_MSG_VERSION %lld\n", (long long) MUNGE_MSG_VERSION);
  printf("MUNGE_MSG_ENC_REQ %lld\n", (long long) MUNGE_MSG_ENC_REQ);
  printf("MUNGE_MSG_ENC_RSP %lld\n", (long long) MUNGE_MSG_ENC_RSP);
  printf("MUNGE_MSG_DEC_REQ %lld\n", (long long) MUNGE_MSG_DEC_REQ);
  printf("MUNGE_MSG_DEC_RSP %lld\n", (long long) MUNGE_MSG_DEC_RSP);
  printf("EMUNGE_SUCCESS %lld\n", (long long) EMUNGE_SUCCESS);
  printf("EMUNGE_SNAFU %lld\n", (long long) EMUNGE_SNAFU);
  printf("EMUNGE_BAD_LENGTH %lld\n", (long long) EMUNGE_BAD_LENGTH);
  printf("EMUNGE_SOCKET %lld\n", (long long) EMUNGE_SOCKET);
  printf("RETRY_T_BITS %lld\n", (long long) (8 * sizeof (((m_msg_t) 0)->retry)));
  printf("ADDR_SIZE %lld\n", (long long) sizeof (((m_msg_t) 0)->addr));
  return 0;
}
'''


class GErr(Exception):
    pass


def strip(n):
    while n.get("kind") in ("ImplicitCastExpr", "ParenExpr") and n.get("inner"):
        n = n["inner"][0]
    return n


def kids(n):
    return [c for c in n.get("inner", []) if c.get("kind")]


def stmts(n):
    """statements of a branch: a CompoundStmt's children, or the single statement"""
    if n.get("kind") == "CompoundStmt":
        return kids(n)
    return [n]


def is_null(n):
    while n.get("kind") in ("ImplicitCastExpr", "ParenExpr", "CStyleCastExpr") and n.get("inner"):
        if n.get("castKind") == "NullToPointer":
            return True
        n = n["inner"][0]
    return False


def callee(n):
    n = strip(n)
    if n.get("kind") != "CallExpr":
        return None
    f = strip(n["inner"][0])
    if f.get("kind") == "DeclRefExpr":
        return f["referencedDecl"]["name"]
    return None


def declref(n):
    n = strip(n)
    if n.get("kind") == "DeclRefExpr":
        return n["referencedDecl"]["name"], n["referencedDecl"].get("kind")
    return None, None


def member_of(n):
    """('mreq', 'retry') for mreq->retry"""
    n = strip(n)
    if n.get("kind") == "MemberExpr":
        b, _ = declref(n["inner"][0])
        return b, n.get("name")
    return None, None


class Sym:
    """symbolic state of the loop tail: Lean Int terms over the variables i, e, retry at the start of the tail"""
    def __init__(self, consts, retry_bits):
        self.v = {"i": "i", "e": "e"}
        self.consts = consts
        self.retry_bits = retry_bits
        self.mentions = set()

    def expr(self, n):
        """-> Lean Int term"""
        k = n.get("kind")
        if k in ("ParenExpr",):
            return self.expr(n["inner"][0])
        if k == "ImplicitCastExpr" or k == "CStyleCastExpr":
            ck = n.get("castKind")
            inner = self.expr(n["inner"][0])
            if ck in ("LValueToRValue", "NoOp"):
                return inner
            if ck == "IntegralCast":
                q = (n.get("type", {}).get("desugaredQualType") or n.get("type", {}).get("qualType") or "")
                q = q.replace("const ", "").strip()
                if q.startswith("enum ") or q in ("int", "unsigned int", "long", "unsigned long"):
                    # values handled here (attempt counters, error codes, milliseconds) are far inside these ranges;
                    # the narrowing casts below are the ones that matter
                    return inner
                if q in ("unsigned char", "uint8_t", "m_msg_retry_t"):
                    return "(wrapU8 %s)" % inner
                if q in ("unsigned short", "uint16_t"):
                    return "(wrapU16 %s)" % inner
                raise GErr("integral cast to unsupported type %r" % q)
            raise GErr("unsupported cast kind %s" % ck)
        if k == "IntegerLiteral":
            return "(%s : Int)" % n["value"]
        if k == "DeclRefExpr":
            name, dk = declref(n)
            if dk == "EnumConstantDecl":
                if name not in self.consts:
                    raise GErr("enum constant %s has no probed value" % name)
                return "(%d : Int)" % self.consts[name]
            if name in self.v:
                self.mentions.add(name)
                return self.v[name]
            raise GErr("variable %s is not part of the loop state (i, e)" % name)
        if k == "UnaryOperator" and n.get("opcode") == "-":
            return "(- %s)" % self.expr(n["inner"][0])
        if k == "BinaryOperator" and n.get("opcode") in ("+", "-", "*"):
            a, b = n["inner"]
            return "(%s %s %s)" % (self.expr(a), n["opcode"], self.expr(b))
        raise GErr("unsupported expression %s %s in the loop tail" % (k, n.get("opcode", "")))

    def cond(self, n):
        """-> Lean Bool term"""
        n0 = strip(n)
        k = n0.get("kind")
        if k == "BinaryOperator":
            op = n0["opcode"]
            a, b = n0["inner"]
            if op in ("&&", "||"):
                return "(%s %s %s)" % (self.cond(a), op, self.cond(b))
            if op in ("==", "!=", "<", ">", "<=", ">="):
                lop = {"==": "=", "!=": "≠", "<": "<", ">": ">", "<=": "≤", ">=": "≥"}[op]
                return "decide (%s %s %s)" % (self.expr(a), lop, self.expr(b))
        if k == "UnaryOperator" and n0.get("opcode") == "!":
            return "(!%s)" % self.cond(n0["inner"][0])
        return "decide (%s ≠ 0)" % self.expr(n0)


def only_mentions(n, allowed_vars):
    """True if every DeclRefExpr to a variable (not function / enum constant) in n is in allowed_vars"""
    ok = True
    def walk(x):
        nonlocal ok
        if isinstance(x, dict):
            if x.get("kind") == "DeclRefExpr":
                rd = x.get("referencedDecl", {})
                if rd.get("kind") in ("VarDecl", "ParmVarDecl") and rd.get("name") not in allowed_vars:
                    ok = False
            for v in x.values():
                walk(v)
        elif isinstance(x, list):
            for v in x:
                walk(v)
    walk(n)
    return ok


def mentions_var(n, names):
    found = False
    def walk(x):
        nonlocal found
        if isinstance(x, dict):
            if x.get("kind") == "DeclRefExpr" and x.get("referencedDecl", {}).get("name") in names \
                    and x.get("referencedDecl", {}).get("kind") in ("VarDecl", "ParmVarDecl"):
                found = True
            for v in x.values():
                walk(v)
        elif isinstance(x, list):
            for v in x:
                walk(v)
    walk(n)
    return found


def is_break_only(branch):
    ss = stmts(branch)
    return len(ss) == 1 and ss[0].get("kind") == "BreakStmt"


def third_arg_literal(call):
    args = kids(call)[1:]
    if len(args) < 3:
        raise GErr("call with fewer than 3 arguments")
    return args[2]


def parse_chain(first_if, consts):
    """The else-if chain of one attempt -> (links, send_maxlen_node, recv_maxlen_node, success_exit_seen)"""
    links = []
    extras = {}
    node = first_if
    success = False
    while node is not None:
        if node.get("kind") != "IfStmt":
            raise GErr("attempt chain contains a non-if link (%s)" % node.get("kind"))
        ch = kids(node)
        cond, then = ch[0], ch[1]
        els = ch[2] if len(ch) > 2 else None
        c = strip(cond)
        handled = False
        if c.get("kind") == "BinaryOperator" and c.get("opcode") == "!=":
            lhs, rhs = strip(c["inner"][0]), strip(c["inner"][1])
            rname, rk = declref(rhs)
            if lhs.get("kind") == "BinaryOperator" and lhs.get("opcode") == "=" and rk == "EnumConstantDecl" and \
                    consts.get(rname) == consts.get("EMUNGE_SUCCESS"):
                tgt, _ = declref(lhs["inner"][0])
                call = strip(lhs["inner"][1])
                nm = callee(call)
                if tgt != "e" or nm is None:
                    raise GErr("chain link assigns %s from a non-call" % tgt)
                ss = stmts(then)
                if is_break_only(then):
                    links.append((nm, "break", -1))
                elif all(s.get("kind") == "NullStmt" for s in ss):
                    links.append((nm, "retry", -1))
                else:
                    raise GErr("failure branch of %s is neither `break` nor empty" % nm)
                if nm in ("m_msg_send", "m_msg_recv"):
                    extras[nm] = third_arg_literal(call)
                handled = True
        if not handled and c.get("kind") == "BinaryOperator" and c.get("opcode") == "<":
            nm = callee(c["inner"][0])
            z = strip(c["inner"][1])
            if nm and z.get("kind") == "IntegerLiteral" and z.get("value") == "0":
                ss = stmts(then)
                if is_break_only(then):
                    links.append((nm, "break", -1))
                elif len(ss) == 1 and ss[0].get("kind") == "BinaryOperator" and ss[0].get("opcode") == "=" and \
                        declref(ss[0]["inner"][0])[0] == "e":
                    cn, ck = declref(ss[0]["inner"][1])
                    if ck != "EnumConstantDecl" or cn not in consts:
                        raise GErr("failure branch of %s assigns a non-constant to e" % nm)
                    links.append((nm, "retry", consts[cn]))
                else:
                    raise GErr("failure branch of %s not understood" % nm)
                handled = True
        if not handled and c.get("kind") == "BinaryOperator" and c.get("opcode") == "==":
            a, _ = declref(c["inner"][0])
            b, bk = declref(c["inner"][1])
            if a == "e" and bk == "EnumConstantDecl" and consts.get(b) == consts.get("EMUNGE_SUCCESS") and is_break_only(then):
                success = True
                handled = True
                if els is not None:
                    raise GErr("links after the success exit of the attempt chain")
        if not handled:
            raise GErr("attempt chain link not understood")
        node = els
    return links, extras, success


def analyse(fn, consts, retry_bits):
    body = [c for c in fn.get("inner", []) if c.get("kind") == "CompoundStmt"][0]
    top = kids(body)
    wi = [k for k, s in enumerate(top) if s.get("kind") == "WhileStmt"]
    if len(wi) != 1:
        raise GErr("expected exactly one while loop in %s, found %d" % (FN, len(wi)))
    wi = wi[0]
    loop = top[wi]
    lcond, lbody = kids(loop)[0], kids(loop)[1]
    lc = strip(lcond)
    if not (lc.get("kind") == "IntegerLiteral" and lc.get("value") != "0"):
        raise GErr("loop condition is not a non-zero constant")
    # initial i: the last assignment to i before the loop
    init = None
    for s in top[:wi]:
        if s.get("kind") == "BinaryOperator" and s.get("opcode") == "=" and declref(s["inner"][0])[0] == "i":
            v = strip(s["inner"][1])
            if v.get("kind") != "IntegerLiteral":
                raise GErr("initial value of i is not a literal")
            init = int(v["value"])
    if init is None:
        raise GErr("no initial assignment to i before the loop")
    ls = kids(lbody)
    if not ls or ls[0].get("kind") != "IfStmt":
        raise GErr("loop body does not start with the attempt chain")
    links, extras, success = parse_chain(ls[0], consts)
    if not success:
        raise GErr("attempt chain has no `e == EMUNGE_SUCCESS -> break` exit")
    sym = Sym(consts, retry_bits)
    stops, tail_events = [], []
    retry_of, sleep_ms = None, None
    after_sleep = False
    for s in ls[1:]:
        k = s.get("kind")
        if k == "IfStmt":
            ch = kids(s)
            cond, then = ch[0], ch[1]
            if len(ch) > 2:
                raise GErr("if/else in the loop tail")
            if is_break_only(then):
                if not only_mentions(cond, {"i", "e"}):
                    raise GErr("exit test mentions state other than i and e")
                if after_sleep and mentions_var(cond, {"e"}) and not mentions_var(cond, {"i"}):
                    tail_events.append("sleepCheck")        # failure of the sleep itself: environment, not modelled
                    after_sleep = False
                    continue
                stops.append(sym.cond(cond))
                tail_events.append("stop")
                continue
            # clean-up blocks: may only touch mrsp / mreq->sd
            if only_mentions(s, {"mrsp", "mreq"}) and not _touches_retry(s):
                tail_events.append("cleanup")
                continue
            raise GErr("conditional statement in the loop tail not understood")
        if k == "NullStmt":
            continue
        after_sleep = False
        if k == "BinaryOperator" and s.get("opcode") == "=":
            b, f = member_of(s["inner"][0])
            if b == "mreq" and f == "retry":
                retry_of = sym.expr(s["inner"][1])
                tail_events.append("setRetry")
                continue
            tgt, _ = declref(s["inner"][0])
            if tgt == "e" and callee(s["inner"][1]) == "_m_msg_client_millisleep":
                args = kids(strip(s["inner"][1]))[1:]
                sleep_ms = sym.expr(args[1])
                tail_events.append("sleep")
                after_sleep = True
                continue
            if tgt == "i":
                sym.v["i"] = sym.expr(s["inner"][1])
                tail_events.append("inc")
                continue
            raise GErr("assignment in the loop tail not understood")
        if k == "UnaryOperator" and s.get("opcode") in ("++", "--") and declref(s["inner"][0])[0] == "i":
            sym.v["i"] = "(%s %s 1)" % (sym.v["i"], "+" if s["opcode"] == "++" else "-")
            tail_events.append("inc")
            continue
        if k == "CompoundAssignOperator" and declref(s["inner"][0])[0] == "i" and s.get("opcode") in ("+=", "-="):
            sym.v["i"] = "(%s %s %s)" % (sym.v["i"], s["opcode"][0], sym.expr(s["inner"][1]))
            tail_events.append("inc")
            continue
        raise GErr("statement of kind %s in the loop tail not understood" % k)
    return dict(init=init, links=links, extras=extras, stops=stops, retry_of=retry_of, sleep_ms=sleep_ms,
                next_i=sym.v["i"], tail=tail_events, sym=sym)


def _touches_retry(n):
    hit = False
    def walk(x):
        nonlocal hit
        if isinstance(x, dict):
            if x.get("kind") == "MemberExpr" and x.get("name") == "retry":
                hit = True
            for v in x.values():
                walk(v)
        elif isinstance(x, list):
            for v in x:
                walk(v)
    walk(n)
    return hit


def generate(ctx):
    out = run_probe(ctx, "retry_consts", PROBE)
    ctx.obligation("gen", "retry constants probed (munge_defs.h, m_msg.h)", out is not None)
    if out is None:
        return False
    kv = {}
    for line in out.strip().split("\n"):
        k, v = line.split()
        kv[k] = int(v)
    try:
        fn = ktrans.load_ast(ctx.repo, FILE, FN)
        a = analyse(fn, kv, kv["RETRY_T_BITS"])
        sym = a["sym"]
        send_max = sym.expr(a["extras"]["m_msg_send"]) if "m_msg_send" in a["extras"] else None
        recv_max = sym.expr(a["extras"]["m_msg_recv"]) if "m_msg_recv" in a["extras"] else None
        if send_max is None or recv_max is None:
            raise GErr("m_msg_send / m_msg_recv links not found in the attempt chain")
    except (GErr, ktrans.KError, KeyError, IndexError) as e:
        ctx.obligation("gen", "retry loop of %s (%s) extracted from the AST" % (FN, FILE), False, repr(e))
        return False
    ctx.obligation("gen", "retry loop of %s (%s) extracted from the AST" % (FN, FILE), True)
    names = [l[0] for l in a["links"]]
    ctx.obligation("gen", "attempt chain of %s has the modelled order of calls" % FN, names == EXPECT_CHAIN,
                   "found %s, the Retry model is written for %s" % (names, EXPECT_CHAIN))
    if names != EXPECT_CHAIN:
        return False
    body = "/- GENERATED from <repo>/%s and headers by tools/gen/g_retry.py -- do not edit -/\n" % FILE
    body += "import Munge.C.Int\nset_option linter.unusedVariables false\nnamespace Munge.Gen.Retry\nopen Munge.C\n\n"
    for k, v in kv.items():
        body += "def %s : Int := %d\n" % (k, v)
    body += "\n/-- `i = %d;` before the `while (1)` of `%s` -/\ndef loopInit : Int := %d\n" % (a["init"], FN, a["init"])
    body += "\n/-- the links of one attempt, in source order: (callee, what a failure does, error code the link forces or -1) -/\n"
    body += "def attemptChain : List (String × String × Int) := [%s]\n" % ", ".join(
        '("%s", "%s", %s)' % (n, d, c if c >= 0 else "(-1)") for n, d, c in a["links"])
    body += "\n/-- `maxlen` argument of the client's `m_msg_send` / `m_msg_recv` calls -/\n"
    body += "def sendMaxLen : Int := %s\ndef recvMaxLen : Int := %s\n" % (send_max, recv_max)
    body += "\n/-- the `if (..) break;` tests after a failed attempt, in source order, over the loop state (i, e) -/\n"
    body += "def stopTests : List (Int → Int → Bool) := [%s]\n" % ", ".join("fun i e => %s" % s for s in a["stops"])
    body += "\n/-- value stored to `mreq->retry` before the next attempt (`retry` unchanged if the loop stores nothing) -/\n"
    body += "def retryOf (i e retry : Int) : Int := %s\n" % (a["retry_of"] if a["retry_of"] is not None else "retry")
    body += "\n/-- argument of the back-off sleep, milliseconds -/\ndef sleepMsecs (i e : Int) : Int := %s\n" % (
        a["sleep_ms"] if a["sleep_ms"] is not None else "0")
    body += "\n/-- value of `i` at the start of the next attempt -/\ndef nextI (i e : Int) : Int := %s\n" % a["next_i"]
    body += "\n/-- kinds of the statements of the loop tail, in source order -/\n"
    body += "def loopTail : List String := [%s]\n" % ", ".join('"%s"' % t for t in a["tail"])
    body += "\nend Munge.Gen.Retry\n"
    gen_write("Retry", body)
    return True
