#!/bin/sh
# tools/coverage.sh [checks...]: which lines of /repo's sources do the quick-tier streams actually execute?
# Builds every harness with --coverage (VERIF_COV=1), keeps the work directories, runs gcov over them and prints, per source
# file of munge, executed / executable lines and the functions no stream entered.  Diagnostic only (not a registered check):
# it is how blind spots of the correspondence tie are found before a seeded change finds them.
cd "$(dirname "$0")/.."
CH="${*:-C01 C02 C03 C04 C05 C06 C07 C08 C09 C10 C11 C12 C13 C14 C15 C16 C17 C18 C19 C20}"
rm -rf .work/cov; mkdir -p .work/cov
for c in $CH; do
  VERIF_COV=1 VERIF_KEEP=1 ./check $c > .work/cov/$c.log 2>&1
  echo "$c: $(grep -E 'done:' .work/cov/$c.log | sed 's/.*done: //')"
done
python3 tools/coverage_report.py
for c in $CH; do git checkout -q evidence/$c.json 2>/dev/null; done     # evidence describes normal runs only
