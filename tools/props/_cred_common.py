"""Shared by the credential-pipeline plugins (C01 C02 C03 C04 C06 C08 C09 C10 C13): request builders,
reply parsers, harness build, an independent python reference of the v3 credential format."""
import struct, os
from ..vlib import cbuild

MAGIC, VERSION = 0x00606D4B, 4
T_ENC_REQ, T_ENC_RSP, T_DEC_REQ, T_DEC_RSP, T_AUTH = 2, 3, 4, 5, 6
ANY = 0xFFFFFFFF

COMMON = ["h_cred.c", "src/libcommon/m_msg.c", "src/libcommon/fd.c", "src/libcommon/str.c", "src/munged/cred.c",
          "src/munged/base64.c", "src/munged/replay.c", "src/munged/hash.c", "src/munged/auth_recv.c",
          "src/munged/zip.c", "src/libmunge/strerror.c", "src/libmissing/strlcpy.c", "src/munged/thread.c",
          "src/common/crypto.c"]


def _build(ctx, name, srcs, libs, defines=()):
    exe = cbuild.build(ctx, name, srcs, libs=libs, defines=list(defines))
    if exe is None:
        # most often a refactoring removed or renamed a static function that the harness's kernel-call table names: the failed
        # build is already a failed obligation; build again without that table so that the request streams (whole requests
        # through the real _job_exec) and their property oracles still run and can give the failing input
        exe = cbuild.build(ctx, name + "_nokern", srcs, libs=libs, defines=list(defines) + ["HC_NO_KERN"])
    return exe


def build_real(ctx):
    return _build(ctx, "h_cred_real", COMMON + ["src/common/mac.c", "src/common/md.c", "src/munged/cipher.c"],
                  ["-lcrypto", "-lz", "-lbz2", "-ldl"])


def build_toy(ctx):
    return _build(ctx, "h_cred_toy", COMMON + ["toy_prims.c"], ["-lcrypto", "-ldl"], defines=["HC_TOY"])


def hx(b):
    return b.hex() if b else "-"


def hdr(mtype, retry, length, magic=MAGIC, version=VERSION):
    return struct.pack(">IBBBI", magic, version, mtype, retry, length)


def enc_req(cipher=1, mac=1, zip_=1, realm=b"", ttl=0, auth_uid=ANY, auth_gid=ANY, data=b"", retry=0):
    body = struct.pack(">BBBB", cipher, mac, zip_, len(realm)) + realm + struct.pack(">III", ttl, auth_uid, auth_gid) \
        + struct.pack(">I", len(data)) + data
    return hdr(T_ENC_REQ, retry, len(body)) + body


def dec_req(cred, retry=0):
    body = struct.pack(">I", len(cred)) + cred
    return hdr(T_DEC_REQ, retry, len(body)) + body


class Rsp:
    pass


def parse_rsp(b):
    """Parse the bytes the client end received: header + ENC_RSP or DEC_RSP body.  Returns Rsp or None."""
    r = Rsp()
    r.raw = b
    r.ok = False
    if len(b) < 11:
        r.kind = "none" if not b else "short"
        return r
    magic, ver, typ, retry, ln = struct.unpack(">IBBBI", b[:11])
    body = b[11:]
    r.kind = {T_ENC_RSP: "enc", T_DEC_RSP: "dec"}.get(typ, "other")
    r.trailing = len(body) - ln
    try:
        p = 0
        r.error_num, elen = body[0], body[1]
        p = 2
        r.error_str = body[p:p + elen]; p += elen
        if r.kind == "enc":
            (dl,) = struct.unpack(">I", body[p:p + 4]); p += 4
            r.data = body[p:p + dl]; p += dl
        elif r.kind == "dec":
            r.cipher, r.mac, r.zip, rl = body[p], body[p + 1], body[p + 2], body[p + 3]; p += 4
            r.realm = body[p:p + rl]; p += rl
            (r.ttl,) = struct.unpack(">I", body[p:p + 4]); p += 4
            al = body[p]; p += 1
            r.addr_len = al
            r.addr = body[p:p + al]; p += al
            r.time0, r.time1, r.cred_uid, r.cred_gid, r.auth_uid, r.auth_gid, dl = struct.unpack(">IIIIIII", body[p:p + 28]); p += 28
            r.data_len = dl
            r.data = body[p:p + dl]; p += dl
        r.consumed = p
        r.ok = (p == len(body) == ln)
    except Exception:
        r.ok = False
    return r


def out_fields(line):
    return dict(x.split("=", 1) for x in line.split() if "=" in x)


def rsp_of(line):
    kvs = out_fields(line)
    h = kvs.get("rsp", "-")
    return parse_rsp(b"" if h == "-" else bytes.fromhex(h)), kvs
