"""C14 - the client-daemon message codec is lossless and never trusts a length.

Model: lean/Munge/Model/Wire.lean, generic interpreters over the field-descriptor lists that tools/gen/g_wire.py
reads off `_msg_length/_msg_pack/_msg_unpack` (src/libcommon/m_msg.c) on every run; theorems:
lean/Munge/Props/C14.lean; correspondence: harness/h_wire.c (#includes the real m_msg.c) under ASan/UBSan.

The oracle below is a reference written from the statement and the message layout in m_msg.h: it knows which
fields each message type carries (FORMATS) and decides, from the implementation's output alone, whether a round
trip lost a value, whether an unpack accepted something it must not (or rejected a well-formed message), and
whether the receive gate let an oversized body through.  It shares nothing with the Lean model."""
import json, os
from ..vlib import leanlib, cbuild, judge
from ..gen import g_wire, g_dec, g_msg

LEVEL = "proof"
MAGIC, VERSION, HDR = 0x00606D4B, 4, 11
OKRC = (0, 1, 5, 6)          # EMUNGE_SUCCESS, SNAFU, NO_MEMORY, SOCKET
I, B = "int", "bytes"
FORMATS = {
    1: [(I, "magic", 4), (I, "version", 1), (I, "type", 1), (I, "retry", 1), (I, "pkt_len", 4)],
    2: [(I, "cipher", 1), (I, "mac", 1), (I, "zip", 1), (I, "realm_len", 1), (B, "realm_str", "realm_len", None),
        (I, "ttl", 4), (I, "auth_uid", 4), (I, "auth_gid", 4), (I, "data_len", 4), (B, "data", "data_len", None)],
    3: [(I, "error_num", 1), (I, "error_len", 1), (B, "error_str", "error_len", None),
        (I, "data_len", 4), (B, "data", "data_len", None)],
    4: [(I, "data_len", 4), (B, "data", "data_len", None)],
    5: [(I, "error_num", 1), (I, "error_len", 1), (B, "error_str", "error_len", None),
        (I, "cipher", 1), (I, "mac", 1), (I, "zip", 1), (I, "realm_len", 1), (B, "realm_str", "realm_len", None),
        (I, "ttl", 4), (I, "addr_len", 1), (B, "addr", "addr_len", 4), (I, "time0", 4), (I, "time1", 4),
        (I, "cred_uid", 4), (I, "cred_gid", 4), (I, "auth_uid", 4), (I, "auth_gid", 4),
        (I, "data_len", 4), (B, "data", "data_len", None)],
    6: [(I, "auth_s_len", 4), (B, "auth_s_str", "auth_s_len", None), (I, "auth_c_len", 4), (B, "auth_c_str", "auth_c_len", None)],
}
PTRLEN = {"realm_str": "realm_len", "data": "data_len", "auth_s_str": "auth_s_len", "auth_c_str": "auth_c_len",
          "error_str": "error_len"}
SOURCES = ["h_wire.c", "src/libcommon/fd.c", "src/libcommon/str.c", "src/libmunge/strerror.c", "src/libmissing/strlcpy.c"]
MALLOC_MB = 64               # malloc (n) fails iff n > 64 MiB in harness (ASan option) and model (`wire limit`)
ENV = {"ASAN_OPTIONS": "detect_leaks=0:abort_on_error=0:exitcode=99:allocator_may_return_null=1:max_allocation_size_mb=%d" % MALLOC_MB}
LIMIT = "wire limit %d" % (MALLOC_MB << 20)


def hx(b):
    return bytes(b).hex() if b else "-"


def unhx(s):
    return b"" if s == "-" else bytes.fromhex(s)


# ------------------------------------------------------------------ reference codec (from the statement)
def ref_pack(t, f):
    out = b""
    for d in FORMATS[t]:
        if d[0] == I:
            v = {"magic": MAGIC, "version": VERSION}.get(d[1], f.get(d[1], 0))
            out += int(v).to_bytes(d[2], "big")
        else:
            out += bytes(f.get(d[1], b""))[:f.get(d[2], 0)]
    return out


def ref_unpack(t, b):
    """-> (ok, fields, trace).  trace lists every variable-length field whose length the C code acts on:
    (name, claimed length, destination capacity or None, bytes left in the packet)."""
    f, trace, p = {}, [], 0
    if t not in FORMATS:
        return False, f, trace
    for d in FORMATS[t]:
        if d[0] == I:
            if p + d[2] > len(b):
                return False, f, trace
            f[d[1]] = int.from_bytes(b[p:p + d[2]], "big")
            p += d[2]
        else:
            n = f[d[2]]
            if n == 0:
                continue
            trace.append((d[1], n, d[3], len(b) - p))
            if n >= 2 ** 31 or p + n > len(b) or (d[3] is not None and n > d[3]):
                return False, f, trace
            f[d[1]] = b[p:p + n]
            p += n
    if t == 1 and (f["magic"] != MAGIC or f["version"] != VERSION):
        return False, f, trace
    return True, f, trace


def hazard(t, b):
    """known-defect class an unpack of these bytes runs into (used to group ops into streams and as finding key)"""
    ok, f, trace = ref_unpack(t, b)
    for name, n, cap, left in trace:
        if cap is None and n == 2 ** 31 - 1:
            return "F8-alloc-len-int-overflow"
        if cap is not None and n > cap and left >= n:
            return "F2-addr_len-unbounded"
        if n >= 2 ** 31 or n > left:
            break
    return None


def op_hazard(op):
    w = op.split()
    try:
        if w[1] == "unpack":
            return hazard(int(w[2]), unhx(w[3]))
        if w[1] == "recv":
            s = unhx(w[4])
            ok, h, _ = ref_unpack(1, s[:HDR])
            if ok and len(s) >= HDR:
                ml = int(w[3])
                if (int(w[2]) == 0 or int(w[2]) == h["type"]) and not (ml > 0 and h["pkt_len"] > ml) and len(s) - HDR >= h["pkt_len"]:
                    return hazard(h["type"], s[HDR:HDR + h["pkt_len"]])
    except Exception:
        pass
    return None


# ------------------------------------------------------------------ property oracle
def kvs(out):
    return dict(x.split("=", 1) for x in out.split() if "=" in x)


def fields_of(tokens):
    return dict(x.split("=", 1) for x in tokens)


def check_fields(t, want, kv, what):
    """every field of type t carries the wanted value in the dump `kv`"""
    for d in FORMATS[t]:
        if d[0] == I:
            if d[1] in ("magic", "version"):
                continue
            if int(kv[d[1]]) != int(want.get(d[1], 0)):
                return "%s: field %s is %s, expected %s" % (what, d[1], kv[d[1]], want.get(d[1], 0))
        else:
            n = int(want.get(d[2], 0))
            exp = bytes(want.get(d[1], b""))[:n]
            got = kv[d[1]]
            if d[3] is not None:
                if unhx(got)[:n] != exp:
                    return "%s: field %s is %s, expected %s" % (what, d[1], got, hx(exp))
            elif n == 0:
                if got != "null":
                    return "%s: zero-length field %s is not NULL" % (what, d[1])
            elif got == "null" or unhx(got) != exp:
                return "%s: field %s is %s, expected %s" % (what, d[1], got, hx(exp))
    return None


def wellformed(kv, out):
    if "!nul" in out:
        return "a block made by _alloc is not NUL-terminated after a successful unpack"
    for p, l in PTRLEN.items():
        if p in kv and (kv[p] == "null") != (int(kv[l]) == 0):
            return "after a successful unpack %s=%s but %s=%s" % (p, kv[p][:20], l, kv[l])
    return None


INT_MEMBERS = ["type", "retry", "pkt_len", "cipher", "mac", "zip", "realm_len", "ttl", "addr_len", "time0", "time1", "client_uid",
               "client_gid", "cred_uid", "cred_gid", "auth_uid", "auth_gid", "data_len", "auth_s_len", "auth_c_len"]


def judge_unpack(t, b, rc, kv, out, what, base=None):
    """`base`: values the message held before the call (a fresh message holds zeros)"""
    ok, f, trace = ref_unpack(t, b)
    if rc not in OKRC:
        return "%s returned %d, neither success nor a known error" % (what, rc)
    for k in INT_MEMBERS:           # a member the packet never reached must be untouched
        if k not in f and int(kv[k]) != (base or {}).get(k, 0):
            return "%s changed member %s (now %s) although the packet holds no such field: a write left its destination" % (what, k, kv[k])
    if rc == 0 and not ok:
        for name, n, cap, left in trace:
            if cap is not None and n > cap:
                return "%s accepted a %d-byte %s although its destination holds %d bytes" % (what, n, name, cap)
        return "%s accepted a malformed message" % what
    if rc != 0 and ok:
        if rc == 5 and any(cap is None and n + 1 > (MALLOC_MB << 20) for name, n, cap, left in trace):
            return None          # malloc refused the block
        return "%s rejected a well-formed message (rc=%d)" % (what, rc)
    if rc != 0 and int(kv["error_num"]) == 0:
        return "%s failed without recording an error" % what
    if rc == 0:
        return check_fields(t, f, kv, what) or wellformed(kv, out)
    return None


def oracle(op, out):
    w = op.split()
    if w[1] == "limit":
        return None
    try:
        kv = kvs(out)
        if w[1] == "rt":
            t, want = int(w[2]), fields_of(w[3:])
            want = {k: (unhx(v) if k in PTRLEN or k == "addr" else int(v)) for k, v in want.items()}
            n = int(kv["n"])
            if t not in FORMATS:
                return None if n <= 0 else "a length was computed for unknown message type %d" % t
            exp = ref_pack(t, want)
            lens_ok = all(want.get(d[2], 0) < 2 ** 31 and want.get(d[2], 0) <= len(want.get(d[1], b"")) for d in FORMATS[t] if d[0] == B)
            if not lens_ok or len(exp) >= 2 ** 31:
                return None if (n <= 0 or int(kv.get("rc", 1)) in OKRC) else "unexpected result for an unpackable message"
            if n != len(exp):
                return "computed length %d differs from the %d bytes the fields occupy" % (n, len(exp))
            if int(kv["rc"]) != 0:
                return "pack of a well-formed message failed (rc=%s)" % kv["rc"]
            if len(unhx(kv["out"])) != n:
                return "computed length %d differs from the %d bytes produced" % (n, len(unhx(kv["out"])))
            if int(kv["urc"]) != 0:
                return "unpack of a freshly packed message failed (rc=%s)" % kv["urc"]
            return check_fields(t, want, kv, "round trip") or wellformed(kv, out)
        if w[1] == "unpack":
            return judge_unpack(int(w[2]), unhx(w[3]), int(kv["rc"]), kv, out, "unpack")
        if w[1] == "recv":
            typ, ml, s = int(w[2]), int(w[3]), unhx(w[4])
            rc = int(kv["rc"])
            hok, h, _ = ref_unpack(1, s[:HDR])
            if len(s) < HDR or not hok or (typ != 0 and h["type"] != typ):
                if rc == 0:
                    return "m_msg_recv accepted a message with a bad header"
                return None if kv["pkt"] == "null" else "m_msg_recv allocated a body buffer for a rejected header"
            if ml > 0 and h["pkt_len"] > ml:
                if rc != 3:
                    return "declared body length %d exceeds maxlen %d but m_msg_recv returned %d, not EMUNGE_BAD_LENGTH" % (h["pkt_len"], ml, rc)
                if kv["pkt"] != "null" or int(kv["left"]) != len(s) - HDR:
                    return "oversized body: something was allocated or read before the length gate"
                return None
            if rc == 3:
                return "m_msg_recv returned EMUNGE_BAD_LENGTH although the declared body length %d does not exceed maxlen %d" % (h["pkt_len"], ml)
            body = s[HDR:HDR + h["pkt_len"]]
            if len(body) < h["pkt_len"]:
                return None if rc != 0 else "m_msg_recv accepted an incomplete body"
            if int(kv["left"]) != len(s) - HDR - h["pkt_len"]:
                return "m_msg_recv consumed %d bytes past the declared body" % (len(s) - HDR - h["pkt_len"] - int(kv["left"]))
            if h["pkt_len"] >= 2 ** 31:
                return None
            return judge_unpack(h["type"], body, rc, kv, out, "m_msg_recv",
                                base={"type": h["type"], "retry": h["retry"], "pkt_len": 0 if rc == 0 else h["pkt_len"]})
        if w[1] == "send":
            t, ml = int(w[2]), int(w[3])
            want = {k: (unhx(v) if k in PTRLEN or k == "addr" else int(v)) for k, v in fields_of(w[4:]).items()}
            rc, o = int(kv["rc"]), unhx(kv["out"])
            if t not in FORMATS or t == 1:
                return None if rc != 0 and not o else "m_msg_send sent a message of a type that has no body"
            exp = ref_pack(t, want)
            lens_ok = all(want.get(d[2], 0) < 2 ** 31 for d in FORMATS[t] if d[0] == B)
            if not lens_ok or len(exp) >= 2 ** 31:
                return None if rc != 0 and not o else "m_msg_send sent a message whose length is not representable"
            if ml > 0 and len(exp) > ml:
                return None if rc == 3 and not o else "body of %d bytes exceeds maxlen %d but m_msg_send returned %d / wrote %d bytes" % (len(exp), ml, rc, len(o))
            if rc != 0:
                return "m_msg_send of a well-formed message failed (rc=%d)" % rc
            hok, h, _ = ref_unpack(1, o[:HDR])
            if not hok or h["type"] != t or h["retry"] != want.get("retry", 0) or h["pkt_len"] != len(o) - HDR:
                return "m_msg_send wrote a header that does not describe the body"
            return None if o[HDR:] == exp else "m_msg_send wrote a body that differs from the message's fields"
        if w[1] == "seterr":
            calls = [c.split(":") for c in w[2].split(",")]
            if kv["ret"] != ",".join(["-1"] * len(calls)):
                return "m_msg_set_err did not return -1"
            first = next(((int(e), s) for e, s in calls if int(e) != 0), None)
            if first is None:
                return None if int(kv["error_num"]) == 0 and kv["error_str"] == "null" else "an error appeared from nowhere"
            if int(kv["error_num"]) != first[0]:
                return "error_num is %s, the first error set was %d" % (kv["error_num"], first[0])
            if first[1] != "null" and unhx(kv["error_str"]) != unhx(first[1]).split(b"\0")[0] + b"\0":
                return "error string is not the first one set"
            if int(kv["error_len"]) != len(unhx(kv["error_str"])) % 256:
                return "error_len does not match the string"
        if w[1] == "reset":
            # "Reset sensitive fields in the message that could leak information" (m_msg.c): algorithms NONE, realm
            # and payload gone, ttl default (0), address and times 0, credential/authorised ids back to *_ANY
            for k in ("cipher", "mac", "zip", "realm_len", "ttl", "addr_len", "time0", "time1", "data_len"):
                if int(kv[k]) != 0:
                    return "m_msg_reset left %s=%s" % (k, kv[k])
            for k in ("cred_uid", "cred_gid", "auth_uid", "auth_gid"):
                if int(kv[k]) != 2 ** 32 - 1:
                    return "m_msg_reset left %s=%s instead of *_ANY" % (k, kv[k])
            if kv["realm_str"] != "null" or kv["data"] != "null":
                return "m_msg_reset left the realm or the payload attached"
        return None
    except Exception as e:
        return "unparsable harness output (%r): %s" % (e, out[:120])


def key_of(op, reason):
    return op_hazard(op)


# ------------------------------------------------------------------ op generators
def rnd(r, n):
    return bytes(r.randrange(256) for _ in range(n))


def gen_msg(r, t, big=0):
    """a well-formed message of type t: field dict with consistent lengths"""
    f = {}
    for d in FORMATS[t]:
        if d[0] == I:
            if d[1] in ("magic", "version"):
                continue
            hi = 256 ** d[2]
            f[d[1]] = r.choice([0, 1, hi - 1, hi // 2, hi // 2 - 1, r.randrange(hi), r.randrange(hi)])
    for d in FORMATS[t]:
        if d[0] == B:
            w = [x[2] for x in FORMATS[t] if x[1] == d[2]][0]
            if d[3] is not None:
                n = r.choice([0, 1, d[3] - 1, d[3], d[3]])
            elif w == 1:
                n = r.choice([0, 1, 2, 7, 127, 128, 254, 255, r.randrange(256)])
            else:
                n = r.choice([0, 1, 2, 3, 255, 256, 257, r.randrange(64), r.randrange(64), r.randrange(2000)] + ([big] if big else []))
            f[d[2]] = n
            f[d[1]] = rnd(r, n)
    return f


def fields_line(t, f):
    out = []
    for d in FORMATS[t]:
        if d[1] in ("magic", "version"):
            continue
        if d[0] == I:
            out.append("%s=%d" % (d[1], f[d[1]]))
        elif f[d[2]] > 0 or d[3] is not None:
            v = f[d[1]]
            out.append("%s=%s" % (d[1], hx(v + b"\0" * (d[3] - len(v))) if d[3] is not None else hx(v)))
    return " ".join(out)


def len_fields(t):
    """(offset computation helper) -> list of (length field name, width, data field name)"""
    return [(d[2], [x[2] for x in FORMATS[t] if x[1] == d[2]][0], d[1]) for d in FORMATS[t] if d[0] == B]


def offset_of(t, f, name):
    p = 0
    for d in FORMATS[t]:
        if d[1] == name:
            return p
        p += d[2] if d[0] == I else f[d[2]]
    raise KeyError(name)


def header(t, retry, n, magic=MAGIC, version=VERSION):
    return magic.to_bytes(4, "big") + bytes([version, t, retry]) + (n % 2 ** 32).to_bytes(4, "big")


def gen_ops(ctx):
    r, thorough = ctx.rng, ctx.tier == "thorough"
    k = 15 if thorough else 3
    ops = {"roundtrip": [], "unpack": [], "recv": [], "send": [], "misc": []}
    types = [2, 3, 4, 5, 6]
    # -- round trips: all field values of all 6 types, boundary lengths
    for t in [1] + types:
        for _ in range(60 * k):
            f = gen_msg(r, t)
            ops["roundtrip"].append("wire rt %d %s" % (t, fields_line(t, f)))
            ctx.dist("rt_type_%d" % t)
    for t in types:
        for big in [65535, 65536] + ([1048576 - 64, 1048576] if thorough else []):
            f = gen_msg(r, t, big)
            for d in FORMATS[t]:
                if d[0] == B and d[3] is None and [x[2] for x in FORMATS[t] if x[1] == d[2]][0] == 4:
                    f[d[2]] = big; f[d[1]] = rnd(r, big)
                    break
            ops["roundtrip"].append("wire rt %d %s" % (t, fields_line(t, f)))
            ctx.dist("rt_big")
    # lengths that `int` cannot hold: the length computation must not produce a usable size
    for t in types:
        for lf, w, df in len_fields(t):
            if w == 4:
                for n in (2 ** 31 - 1, 2 ** 31, 2 ** 32 - 1, 2 ** 32 - 4, 2 ** 32 - 9):
                    f = gen_msg(r, t)
                    f[lf] = n
                    ops["roundtrip"].append("wire rt %d %s" % (t, fields_line(t, dict(f, **{df: f[df] or b"x"}))))
                    ctx.dist("rt_length_overflow")
    for t in (0, 7, 9, 255):
        ops["roundtrip"].append("wire rt %d data_len=1 data=41" % t)
    # -- unpack: valid messages, every truncation point, every length class, all type codes, garbage
    u = ops["unpack"]
    for t in [1] + types:
        for i in range(10 * k):
            f = gen_msg(r, t)
            b = ref_pack(t, f)
            u.append("wire unpack %d %s" % (t, hx(b)))
            u.append("wire unpack %d %s" % (t, hx(b + rnd(r, r.randrange(1, 5)))))      # trailing bytes
            ctx.dist("unpack_valid", 2)
            if len(b) <= 120 or i == 0:
                for cut in range(len(b)) if len(b) <= 120 else sorted(r.sample(range(len(b)), 60)):
                    u.append("wire unpack %d %s" % (t, hx(b[:cut])))
                    ctx.dist("unpack_truncation")
    for t in types:
        for _ in range(4 * k):
            f = gen_msg(r, t)
            b = ref_pack(t, f)
            for lf, w, df in len_fields(t):
                off, exact = offset_of(t, f, lf), f[lf]
                cls = [0, exact, exact - 1, exact + 1, 2 ** 31 - 1, 2 ** 31, 2 ** 32 - 1, 2 ** 31 - 2, 65536, (MALLOC_MB << 20) - 1, MALLOC_MB << 20] if w == 4 else \
                      [0, exact, exact - 1, exact + 1, 127, 128, 255, 5, 4, 3]
                for n in cls:
                    if n < 0 or n >= 256 ** w:
                        continue
                    m = b[:off] + n.to_bytes(w, "big") + b[off + w:]
                    tails = [m, m[:off + w], m[:off + w + min(exact, 1)], m + rnd(r, 300) if n <= 300 else m + rnd(r, 8)]
                    for x in tails:
                        u.append("wire unpack %d %s" % (t, hx(x)))
                        ctx.dist("unpack_length_class_%s" % ("exact" if n == exact else "0" if n == 0 else "ge2^31" if n >= 2 ** 31 else "other"))
    for t in range(256):
        f = gen_msg(r, r.choice(types))
        u.append("wire unpack %d %s" % (t, hx(ref_pack(r.choice(types), gen_msg(r, r.choice(types))) if t % 2 else rnd(r, r.randrange(0, 40)))))
        u.append("wire unpack %d -" % t)
        ctx.dist("unpack_all_type_codes", 2)
    for _ in range(1500 * k):
        t = r.choice([1, 2, 3, 4, 5, 5, 5, 6])
        n = r.choice([0, 1, 2, 3, 4, 5, 8, 11, 12, 16, 24, 32, 48, 64]) if r.random() < .7 else r.randrange(300)
        b = bytearray(rnd(r, n))
        for i in range(len(b)):          # bias towards small values so that length fields are often satisfiable
            if r.random() < .5:
                b[i] = r.choice([0, 0, 0, 1, 2, 3, 4, 5, 8, 255])
        u.append("wire unpack %d %s" % (t, hx(bytes(b))))
        ctx.dist("unpack_garbage")
    # smallest members of the two known-defect classes (F2: 5 bytes into the 4-byte addr; F8: length INT_MAX)
    u.append("wire unpack 5 " + "00" * 10 + "05" + "0102030405")
    u.append("wire unpack 5 " + "00" * 10 + "ff" + "ab" * 255)
    u.append("wire unpack 4 7fffffff")
    # header: every byte of magic/version altered, all types
    good = header(4, 1, 16)
    for i in range(HDR):
        for v in (0, 1, 0xff, good[i] ^ 0x80):
            u.append("wire unpack 1 %s" % hx(good[:i] + bytes([v]) + good[i + 1:]))
            ctx.dist("unpack_header_mutation")
    # -- m_msg_recv: header + body streams, the length gate
    rv = ops["recv"]
    for _ in range(40 * k):
        t = r.choice(types)
        body = ref_pack(t, gen_msg(r, t))
        n = len(body)
        for typ, ml, s in [
                (0, 1048576, header(t, 0, n) + body), (t, 0, header(t, r.randrange(6), n) + body),
                (0, max(n, 1), header(t, 0, n) + body), (0, n - 1, header(t, 0, n) + body), (0, n + 1, header(t, 0, n) + body),
                (r.choice(types), 1048576, header(t, 0, n) + body), (0, -1, header(t, 0, n) + body),
                (0, 1048576, header(t, 0, n + 1) + body), (0, 1048576, header(t, 0, max(n - 1, 0)) + body),
                (0, 1048576, header(t, 0, n) + body + rnd(r, 3)), (0, 1048576, header(t, 0, n, magic=MAGIC ^ 1) + body),
                (0, 1048576, header(t, 0, n, version=VERSION + 1) + body), (0, 1048576, (header(t, 0, n) + body)[:r.randrange(0, HDR + 1)]),
                (0, 1048576, header(t, 0, 1048577) + body), (0, 1048576, header(t, 0, 2 ** 32 - 1) + body),
                (0, 1048576, header(t, 0, 2 ** 31) + body), (0, 16, header(t, 0, 17) + rnd(r, 17)),
                (0, 0, header(r.randrange(256), 0, n) + body), (0, 1048576, header(r.choice([0, 1, 7, 200]), 0, n) + body)]:
            rv.append("wire recv %d %d %s" % (typ, ml, hx(s)))
            ctx.dist("recv_case")
    for _ in range(300 * k):
        t = r.choice(types)
        b = bytearray(rnd(r, r.randrange(0, 48)))
        for i in range(len(b)):
            if r.random() < .6:
                b[i] = r.choice([0, 0, 1, 2, 4, 5, 255])
        rv.append("wire recv 0 %d %s" % (r.choice([0, 64, 1048576]), hx(header(t, 0, len(b)) + bytes(b))))
        ctx.dist("recv_garbage_body")
    # -- m_msg_send: length gate on the way out
    for _ in range(40 * k):
        t = r.choice(types)
        f = gen_msg(r, t)
        n = len(ref_pack(t, f))
        for ml in (0, n, n - 1, n + 1, -5, 1048576):
            ops["send"].append("wire send %d %d retry=%d %s" % (t, ml, r.randrange(4), fields_line(t, f)))
            ctx.dist("send_case")
    ops["send"] += ["wire send 4 0 data_len=2147483648 data=00", "wire send 4 0 data_len=4294967295 data=00",
                    "wire send 9 0 data_len=1 data=00", "wire send 6 0 auth_s_len=4294967292 auth_s_str=00 auth_c_len=9 auth_c_str=000000000000000000"]
    # -- m_msg_set_err (first error wins), m_msg_reset
    for _ in range(150 * k):
        calls = []
        for _ in range(r.randrange(1, 5)):
            e = r.choice([0, 0, 1, 3, 5, 6, 15, 17, 255])
            s = r.choice(["null", "-", hx(bytes(r.randrange(1, 256) for _ in range(r.choice([1, 5, 40, 254, 255, 256, 300]))))])
            calls.append("%d:%s" % (e, s))
        ops["misc"].append("wire seterr " + ",".join(calls))
        ctx.dist("seterr_sequence")
    for _ in range(100 * k):
        f = gen_msg(r, 5)
        extra = " realm_is_copy=%d data_is_copy=%d auth_s_len=2 auth_s_str=4100" % (r.randrange(2), r.randrange(2))
        ops["misc"].append("wire reset " + fields_line(5, f) + extra)
        ctx.dist("reset")
    return ops


def split_hazards(ops):
    """ops that run into a known-defect class go to their own streams (a sanitizer abort ends a stream)"""
    out, hz = {}, {}
    for name, lst in ops.items():
        out[name] = []
        for o in lst:
            h = op_hazard(o)
            if h:
                hz.setdefault(h, []).append(o)
            else:
                out[name].append(o)
    return out, hz


def build(ctx):
    return cbuild.build(ctx, "h_wire", SOURCES)


def run(ctx):
    ctx.rule = ("ops for the real m_msg.c under ASan/UBSan (exact-size heap buffers) and for the Lean model: round trips of generated messages of "
                "all 6 types with boundary values and lengths (0, 1, 255, 256, 65535, 65536, lengths >= 2^31); unpack of valid messages, of every "
                "truncation point, of every length field set to each class {0, exact, exact+-1, 2^31-1, 2^31, 2^32-1}, of all 256 type codes, of "
                "biased random bytes; m_msg_recv / m_msg_send around the length gate; m_msg_set_err sequences; m_msg_reset.  distinct = distinct op "
                "lines; non-trivial = op with a non-empty message or byte string")
    ctx.assumptions += [
        "in the harness malloc (n) fails exactly for n > %d MiB (ASan max_allocation_size_mb; keeps 2 GiB requests cheap); the model takes the same predicate, the theorems hold for every malloc behaviour" % MALLOC_MB,
        "gcc/ASan/UBSan detect any out-of-bounds access of the real m_msg.c on the explored inputs (source buffers and message blocks are exact-size heap allocations); a write that overflows one struct member into the next member of the same struct m_msg is detected only where it leaves the object or disagrees with the model",
        "memory leaks are outside this property (streams run with detect_leaks=0); reads from a socket that delivers bytes and then end-of-file stand for all socket behaviour",
        "the reference codec in tools/props/c14.py (field list per message type, written from m_msg.h) is the property oracle",
    ]
    gen_ok = g_wire.generate(ctx)
    if ctx.replay_in:
        return replay(ctx, gen_ok)
    h = build(ctx)
    # m_msg_recv translated: order of checks, length gate before allocation
    if g_msg.generate(ctx):
        leanlib.check_props(ctx, "C14Recv")
    if gen_ok:
        leanlib.check_props(ctx, "C14")
        # the bridge: the credential model's request parser / reply builders (Model/Cred.lean: recvMsg, encRsp, decRsp) ARE the
        # generated m_msg.c descriptor lists (Wire.recv / Wire.send) - so C01-C10's model and this one are one model of the wire
        g_dec.generate(ctx)
        leanlib.check_props(ctx, "WireCred")
        drv = leanlib.driver(ctx)
    else:
        # the descriptor lists could not be read off the source: Munge/Gen/Wire.lean is stale, so neither the theorems
        # nor the model say anything about this tree.  Search for a failing input with the oracle on the code alone.
        ctx.obligation("theorem", "theorems of Props/C14.lean about this tree's field lists", False,
                       "not checked: the generator could not extract the lists (see the gen obligation)")
        drv = env_wrapper(ctx, h)
    if not drv or not h:
        return
    ops, hz = split_hazards(gen_ops(ctx))
    for lst in list(ops.values()) + list(hz.values()):
        for o in lst:
            if not o.endswith(" -"):
                ctx.distinct(o if len(o) < 400 else o[:200] + str(hash(o)))
    for name in ("roundtrip", "unpack", "recv", "send", "misc"):
        for o in ops[name][3:5]:
            ctx.sample(o[:300])
    for name, lst in ops.items():
        judge.run_and_judge(ctx, name, [LIMIT] + lst, [h], [drv], oracle=oracle, env=ENV, key_of=key_of, what="message codec")
    client_side(ctx)
    for key, lst in sorted(hz.items()):
        lst.sort(key=len)            # a sanitizer abort ends the stream: let the shortest input be the one reported
        ctx.dist("hazard_class_" + key, len(lst))
        judge.run_and_judge(ctx, "lengths-" + key, [LIMIT] + lst, [h], [drv], oracle=oracle, env=ENV, key_of=key_of, what="message codec")


def ctx_reuse(ctx, h):
    """One munge_ctx_t used for a sequence of calls, the way applications use libmunge: encodes, decodes, failing decodes,
    munge_ctx_copy, calls with a NULL context, option changes in between.  What a call leaves in the context (error string,
    realm, unpacked reply fields) must never disturb the next one: under ASan (double free / use after free of strings the
    context took over from a reply), and judged per call."""
    r = ctx.rng
    ops, plans = [], []
    for i in range(120 if ctx.tier == "quick" else 1500):
        toks, plan, slots, decoded, used = [], [], [], set(), set()
        valid = True       # munge_decode stores the credential's options in the context (zeroes after a failed decode): an encode that
                           # re-uses such a context may be refused ("Invalid MAC type 0"); only its memory safety is judged then
        if r.random() < .3:
            rl = r.choice([b"", b"realm", b"r" * 200]); toks.append("r" + hx(rl)); plan.append(("r",))
        for _ in range(r.randrange(2, 12)):
            k = r.random()
            null = r.random() < .12
            if k < .3 or not slots:
                d = rnd(r, r.choice([0, 1, 5, 40]))
                if d in used or not d and b"" in used:     # (one scripted PRNG stream per op line: equal payloads would be equal credentials)
                    d = d + bytes([len(used)]) + rnd(r, 3)
                used.add(d)
                if null:
                    toks.append("n"); plan.append(("n",))
                loose = null or not valid
                toks.append("e" + hx(d)); plan.append(("e", d, loose)); slots.append(None if loose else d)
            elif k < .6:
                j = r.randrange(len(slots))
                if slots[j] is None:
                    continue
                if null:
                    toks.append("n"); plan.append(("n",))
                toks.append("d%d" % j); plan.append(("d", slots[j], j in decoded, null))
                if not null:
                    valid = j not in decoded
                    decoded.add(j)
            elif k < .75:
                junk = r.choice([b"MUNGE:AAAA:", b"", b"x", b"MUNGE:" + b"A" * 300 + b":"])
                if junk:
                    toks.append("x" + hx(junk)); plan.append(("x",)); valid = False
            elif k < .85:
                toks.append("c"); plan.append(("c",))
            elif k < .93:
                toks.append("s"); plan.append(("s",))
            else:
                toks.append("t%d" % r.choice([1, 60, 3600])); plan.append(("t",))
        toks.append("s"); plan.append(("s",))
        uid, gid = r.choice([0, 1000, 2 ** 31, 2 ** 32 - 2]), r.randrange(2 ** 32 - 1)
        ops.append("retry ctxseq %s now=1000000 peer=%d:%d rnd=%s mem=-" % (" ".join(toks), uid, gid, rnd(r, 24).hex()))
        plans.append((plan, uid, gid))
    rc, out, err = cbuild.run_lines([h, ctx.work], ["retry reset"] + ops)
    out = out[1:]
    ctx.count(len(ops)); ctx.dist("client_ctx_sequences", len(ops))
    for o in ops:
        ctx.distinct(o)
    bad = None
    for i, ((plan, uid, gid), l) in enumerate(zip(plans, out[:len(ops)])):
        res = l.split(" ")
        if len(res) != len(plan):
            bad = bad or (i, "%d results for %d calls" % (len(res), len(plan)), l); continue
        last_err, prev = None, None
        for p, x in zip(plan, res):
            f = x.split(":")
            if p[0] in ("e", "d") and p[-1]:
                # a NULL context means the default socket path (no daemon listens there in the sandbox: socket error); an encode
                # on a context that holds the options of a failed decode may be refused by the daemon.  Memory safety only.
                if p[0] == "e" and prev != "n":
                    last_err = f[1]
                prev = p[0]
                continue
            if p[0] == "e" and f[:2] != ["e", "0"]:
                bad = bad or (i, "munge_encode on a reused context failed (%s)" % x, l)
            if p[0] == "d":
                if not p[2] and not (f[1] == "0" and unhx(f[2] if f[2] != "NULL" else "-") == p[1] and (int(f[3]), int(f[4])) == (uid, gid)):
                    bad = bad or (i, "munge_decode on a reused context: %s, expected the payload of its encode and %d:%d" % (x[:80], uid, gid), l)
                if p[2] and f[1] != "17":
                    bad = bad or (i, "second decode of a credential on a reused context returned %s, expected REPLAYED" % f[1], l)
            if p[0] == "x" and f[1] == "0":
                bad = bad or (i, "munge_decode accepted garbage", l)
            if p[0] == "c" and f[1] != "1":
                bad = bad or (i, "munge_ctx_copy failed", l)
            if p[0] == "c":
                last_err = None            # the copy starts without an error condition
            if p[0] in ("r", "t") and f[1] != "0":
                bad = bad or (i, "munge_ctx_set failed", l)
            if p[0] in ("r", "t"):
                last_err = None            # munge_ctx_set clears the context's error condition
            if p[0] in ("e", "d", "x"):
                last_err = f[1]
            if p[0] == "s":
                if f[2] != "1":
                    bad = bad or (i, "the context's socket name was lost", l)
                # (the error text itself is not judged: munge_ctx_set / _get / _copy clear the error condition, see ctx.c)
            prev = p[0]
    crashed = rc != 0 or len(out) != len(ops)
    ctx.obligation("oracle", "client side: %d call sequences on one reused munge_ctx_t (encode / decode / failing decode / copy / NULL ctx) under ASan" % len(ops),
                   bad is None and not crashed, (bad[1] if bad else "") + (err[-1500:] if crashed else ""))
    if bad or crashed:
        i = bad[0] if bad else len(out)
        ctx.violation("message codec (libmunge side): " + (bad[1] if bad else "sanitizer report / crash in a sequence of calls on one context"),
                      {"stream": "client-ctx-reuse", "harness": "h_retry_real", "ops": ["retry reset", ops[i]] if i < len(ops) else [], "impl_output": (bad[2] if bad else err[-3000:])},
                      found_input=True)


def client_side(ctx):
    """"... in munged or in libmunge": the REAL munge_encode() / munge_decode() (libmunge encode.c, decode.c, ctx.c,
    m_msg_client.c over m_msg.c) receive replies chosen here - well-formed ones of every type with boundary field values
    (including combinations a real daemon never sends: success with an error string, an error without one), every
    truncation, every length field lying - through the C13 harness (`r<hex>` = the client gets these bytes as the reply).
    Under ASan/UBSan: the call must return; success only for a well-formed reply of the expected type whose error_num is 0,
    and then with exactly the reply's payload."""
    from . import c13
    h = c13.build_toy(ctx)
    if not h:
        return
    r = ctx.rng
    n = 150 if ctx.tier == "quick" else 1500
    replies = []                                           # (kind, want type, reply bytes, fields or None)
    for want, t in ((5, 5), (3, 3)):
        for i in range(n):
            f = gen_msg(r, t)
            if i % 3 == 0:
                f["error_num"] = 0
            if i % 7 == 0:
                f["error_len"] = 0; f["error_str"] = b""
            if t == 5 and i % 2 == 0:
                f["addr_len"] = 4; f["addr"] = rnd(r, 4)
            body = ref_pack(t, f)
            replies.append(("wellformed", want, header(t, r.choice([0, 1, 5]), len(body)) + body, f))
            if i % 5 == 0:                                 # a length field lying / a truncation / a wrong type / trailing bytes
                k = r.randrange(len(body))                 # (strictly shorter)
                replies.append(("truncated", want, header(t, 0, len(body)) + body[:k], None))
                replies.append(("short-declared", want, header(t, 0, k) + body[:k], None))
                for (lf, w, df) in len_fields(t):
                    o = offset_of(t, f, lf)
                    v = r.choice([0, 1, f[lf] + 1, max(0, f[lf] - 1), 256 ** w - 1, 256 ** w // 2])
                    b2 = body[:o] + (v % 256 ** w).to_bytes(w, "big") + body[o + w:]
                    replies.append(("lying-" + lf, want, header(t, 0, len(b2)) + b2, None))
                replies.append(("wrong-type", want, header(r.choice([0, 1, 2, 4, 6, 3 if t == 5 else 5, 255]), 0, len(body)) + body, None))
                replies.append(("trailing", want, header(t, 0, len(body) + 3) + body + b"xyz", None))
    ops, meta = [], []
    cred = "MUNGE:AwQFAAAAx:"
    for kind, want, rep, f in replies:
        sched = ",".join(["r" + hx(rep)] * 5)              # a reply that does not parse makes the client try again: the same reply each time
        if want == 5:
            ops.append("retry dec %s cred=%s now=1000000 peer=1:1 mem=-" % (sched, cred.encode().hex()))
        else:
            ops.append("retry enc %s c=1 m=1 z=1 ttl=0 au=4294967295 ag=4294967295 realm=- data=6869 now=1000000 peer=1:1 rnd=%s mem=-" % (sched, "00" * 24))
        meta.append((kind, want, f))
    rc, out, err = cbuild.run_lines([h, ctx.work], ops)
    ctx.count(len(ops))
    for (kind, want, f), o in zip(meta, ops):
        ctx.dist("client_reply_" + kind); ctx.distinct(o if len(o) < 400 else o[:200] + str(hash(o)))
    bad = None
    for i, ((kind, want, f), l) in enumerate(zip(meta, out[:len(ops)])):
        try:
            kv = dict(x.split("=", 1) for x in l.split() if "=" in x)
            e = int(kv["err"])
            if kind != "wellformed" and kind != "trailing" and not kind.startswith("lying") and e == 0:
                bad = bad or (i, "libmunge returned success for a %s reply" % kind, l)
            if kind == "wellformed":
                if e == 0 and f["error_num"] != 0:               # (the converse is not required: the library may refuse an empty credential etc.)
                    bad = bad or (i, "reply says error_num=%d, libmunge returned success" % f["error_num"], l)
                if e == 0 and want == 5 and (unhx(kv["data"]) if kv["data"] != "NULL" else b"") != f["data"][:f["data_len"]]:
                    bad = bad or (i, "munge_decode returned a payload that is not the reply's", l)
                if e == 0 and want == 5 and (int(kv["uid"]), int(kv["gid"])) != (f["cred_uid"], f["cred_gid"]):
                    bad = bad or (i, "munge_decode returned uid/gid %s:%s, the reply says %d:%d" % (kv["uid"], kv["gid"], f["cred_uid"], f["cred_gid"]), l)
        except Exception as ex:
            bad = bad or (i, "unparsable harness output (%r)" % ex, l[:200])
    hr = c13.build_real(ctx)         # (real HMAC: the toy MAC's 16-byte prefix collides for near-identical credentials)
    if hr:
        ctx_reuse(ctx, hr)
    crashed = rc != 0 or len(out) != len(ops)
    ctx.obligation("oracle", "client side: %d scripted replies through the real libmunge (munge_encode / munge_decode) under ASan/UBSan" % len(ops),
                   bad is None and not crashed, (bad[1] if bad else "") + (err[-1500:] if crashed else ""))
    if crashed:
        i = len(out)
        ctx.violation("message codec (libmunge side): sanitizer report / crash while handling a reply",
                      {"stream": "client-side", "harness": "h_retry_toy", "ops": [ops[i]] if i < len(ops) else [], "reply_kind": meta[i][0] if i < len(meta) else None,
                       "impl_output": err[-3000:]}, found_input=True)
    elif bad:
        ctx.violation("message codec (libmunge side): " + bad[1], {"stream": "client-side", "harness": "h_retry_toy", "ops": [ops[bad[0]]], "impl_output": bad[2][:600]},
                      found_input=True)


def env_wrapper(ctx, h):
    """the harness with the stream environment baked in (stands in for the model when there is no model)"""
    if not h:
        return None
    w = os.path.join(ctx.work, "h_wire_env.sh")
    with open(w, "w") as f:
        f.write("#!/bin/sh\n%s exec %s\n" % (" ".join("%s='%s'" % kv for kv in ENV.items()), h))
    os.chmod(w, 0o755)
    return w


def replay(ctx, gen_ok=True):
    rep = json.load(open(ctx.replay_in))
    h = build(ctx)
    drv = leanlib.driver(ctx) if gen_ok else env_wrapper(ctx, h)
    if not drv or not h:
        return
    ops = [o for o in (rep.get("ops") or []) if o != LIMIT]
    judge.run_and_judge(ctx, "replay", [LIMIT] + ops, [h], [drv], oracle=oracle, env=ENV, key_of=key_of, what="message codec (replay)")
