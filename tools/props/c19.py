"""C19 - base64 armor.  Model: lean/Munge/Model/Base64.lean (tables, constants and length
formulas regenerated from src/munged/base64.c); theorems: lean/Munge/Props/C19.lean;
correspondence: harness/h_b64.c (#includes the real base64.c) under ASan/UBSan."""
import base64, itertools, json, os, re
from ..vlib import leanlib, cbuild, judge
from ..gen import g_base64

LEVEL = "proof"
ALPHA = b"ABCDEFGHIJKLMNOPQRSTUVWXYZabcdefghijklmnopqrstuvwxyz0123456789+/"
SPACE = b"\t\n\x0b\x0c\r "


def hx(b):
    return b.hex() if b else "-"


def unhx(s):
    return b"" if s == "-" else bytes.fromhex(s)


def ref_decode(s):
    """Independent strict decoder written from the property statement. -> (ok, bytes)"""
    t = bytes(c for c in s if c not in SPACE)
    body = t.rstrip(b"=")
    p = len(t) - len(body)
    if p > 2 or any(c not in ALPHA for c in body) or (len(body) + p) % 4 != 0:
        return False, b""
    return True, base64.b64decode(body + b"=" * ((-len(body)) % 4))


def oracle(op, out):
    w = op.split()
    kv = dict(x.split("=", 1) for x in out.split() if "=" in x)
    try:
        if w[1] == "enc":
            x = unhx(w[2])
            exp = base64.b64encode(x)
            if unhx(kv["out"]) != exp:
                return "encoder output is not canonical RFC 4648 base64 (python reference: %s)" % exp.decode()
            if int(kv["w"]) > (len(x) + 2) // 3 * 4 + 1:
                return "encoder wrote %s bytes, more than the documented bound" % kv["w"]
        elif w[1] == "encs":
            x = b"".join(unhx(c) for c in w[2].split(","))
            if unhx(kv["out"]) != base64.b64encode(x):
                return "streaming encoder output depends on the chunking / is not canonical"
        elif w[1] in ("dec", "decs"):
            s = unhx(w[2]) if w[1] == "dec" else b"".join(unhx(c) for c in w[2].split(","))
            ok, val = ref_decode(s)
            rc = int(kv["rc"])
            if ok and rc != 0:
                return "decoder rejected a well-formed string"
            if not ok and rc == 0:
                return "decoder accepted a malformed string (strictness)"
            if ok and unhx(kv["out"]) != val:
                return "decoder returned wrong bytes"
            if "w" in kv and int(kv["w"]) > (len(s) + 3) // 4 * 3 + 1:
                return "decoder wrote %s bytes, more than the documented bound" % kv["w"]
        elif w[1] == "elen":
            n = int(w[2])
            if 0 <= n < 1500000000 and int(out) != (n + 2) // 3 * 4 + 1:
                return "encode length bound differs from ((n+2)/3)*4+1"
        elif w[1] == "dlen":
            n = int(w[2])
            if 0 <= n < 2000000000 and int(out) != (n + 3) // 4 * 3 + 1:
                return "decode length bound differs from ((n+3)/4)*3+1"
    except Exception as e:
        return "unparsable harness output (%r)" % e
    return None


def compositions(n):
    if n == 0:
        yield []
        return
    for k in range(1, n + 1):
        for rest in compositions(n - k):
            yield [k] + rest


def gen_ops(ctx):
    r = ctx.rng
    thorough = ctx.tier == "thorough"
    ops = []
    # exhaustive <= 2 bytes, 3 bytes sampled (thorough: a 1/16 lattice of all 3-byte strings plus random)
    for n in (0, 1, 2):
        for t in itertools.product(range(256), repeat=n):
            ops.append("b64 enc " + hx(bytes(t)))
    n3 = 400000 if thorough else 20000
    for _ in range(n3):
        ops.append("b64 enc " + hx(bytes(r.randrange(256) for _ in range(3))))
    ctx.dist("enc_exhaustive_le2", 65793); ctx.dist("enc_3byte_random", n3)
    # round trip through the decoder, with whitespace sprinkled in
    for _ in range(3000 if not thorough else 60000):
        # (the model's decoder appends to a list: quadratic, so long strings are kept few)
        q = r.random()
        n = r.choice([0, 1, 2, 3, 4, 5, 6, 7, 8, 9, 15, 16, 17, 47, 48, 49, 63, 64, 65]) if q < .6 else \
            r.randrange(0, 300) if q < .985 else r.randrange(0, 4097 if not thorough else 16385)
        x = bytes(r.randrange(256) for _ in range(n))
        ops.append("b64 enc " + hx(x))
        e = bytearray(base64.b64encode(x))
        if r.random() < .5:
            for _ in range(r.randrange(0, 4)):
                e.insert(r.randrange(len(e) + 1), r.choice(SPACE))
        ops.append("b64 dec " + hx(bytes(e)))
        ctx.dist("roundtrip_len_%s" % ("0-9" if n < 10 else "10-99" if n < 100 else "100+"))
    # all partitions of strings of length <= 6 into update calls
    for n in range(0, 7):
        for _ in range(3 if not thorough else 12):
            x = bytes(r.randrange(256) for _ in range(n))
            for comp in compositions(n):
                chunks, i = [], 0
                for k in comp:
                    chunks.append(x[i:i + k]); i += k
                # also interleave empty chunks
                if r.random() < .3:
                    chunks.insert(r.randrange(len(chunks) + 1), b"")
                ops.append("b64 encs " + (",".join(hx(c) for c in chunks) if chunks else "-"))
                ctx.dist("encs_partitions")
    for _ in range(300 if not thorough else 5000):
        n = r.randrange(0, 200)
        x = bytes(r.randrange(256) for _ in range(n))
        cuts = sorted(r.randrange(n + 1) for _ in range(r.randrange(0, 8)))
        chunks = [x[a:b] for a, b in zip([0] + cuts, cuts + [n])]
        ops.append("b64 encs " + ",".join(hx(c) for c in chunks))
        e = base64.b64encode(x)
        cuts = sorted(r.randrange(len(e) + 1) for _ in range(r.randrange(0, 6)))
        ops.append("b64 decs " + ",".join(hx(c) for c in [e[a:b] for a, b in zip([0] + cuts, cuts + [len(e)])]))
        ctx.dist("random_chunked")
    # all strings over the class alphabet {A, /, =, space, \n, !, 0x80} up to length L
    cls = [b"A", b"/", b"=", b" ", b"\n", b"!", b"\x80"]
    L = 5 if not thorough else 7
    for n in range(0, L + 1):
        for t in itertools.product(cls, repeat=n):
            ops.append("b64 dec " + hx(b"".join(t)))
            ctx.dist("dec_class_strings")
    # mutated valid encodings: misplaced / miscounted padding, data after padding, foreign characters
    for _ in range(4000 if not thorough else 80000):
        x = bytes(r.randrange(256) for _ in range(r.randrange(0, 40)))
        e = bytearray(base64.b64encode(x))
        m = r.randrange(6)
        if m == 0 and e:
            e[r.randrange(len(e))] = r.randrange(256)
        elif m == 1:
            e.insert(r.randrange(len(e) + 1), ord("="))
        elif m == 2:
            e += bytes([r.choice(ALPHA)])
        elif m == 3 and e:
            del e[r.randrange(len(e))]
        elif m == 4:
            e += b"=" * r.randrange(1, 4)
        else:
            e.insert(r.randrange(len(e) + 1), r.choice(SPACE))
        op = "b64 dec " + hx(bytes(e))
        if r.random() < .3 and len(e) > 1:
            k = r.randrange(1, len(e))
            op = "b64 decs %s,%s" % (hx(bytes(e[:k])), hx(bytes(e[k:])))
        ops.append(op)
        ctx.dist("dec_mutations_kind_%d" % m)
    for n in [0, 1, 2, 3, 4, 5, 6, 7, 8, 100, 1023, 1024, 1048576, 1048577, 715827881, 1610612730]:
        ops.append("b64 elen %d" % n); ops.append("b64 dlen %d" % n)
    return ops


def run(ctx):
    ctx.rule = ("ops for the real base64.c under ASan/UBSan and for the Lean model: exhaustive encode of all strings of <= 2 bytes, random 3-byte and longer "
                "strings, every partition of strings of <= 6 bytes into update calls, every string over the class alphabet {A,/,=,space,\\n,!,0x80} up to "
                "length 5 (thorough: 7), mutated encodings; distinct = distinct op lines; non-trivial = op whose input is non-empty")
    ctx.assumptions += ["gcc/ASan/UBSan detect any out-of-bounds write of the real base64.c on the explored inputs (destination buffers are allocated at exactly the advertised bound)",
                        "python's base64 module and a 6-line strict decoder written from the statement serve as the property oracle"]
    g_base64.generate(ctx)
    if ctx.replay_in:
        return replay(ctx)
    leanlib.check_props(ctx, "C19")
    drv = leanlib.driver(ctx)
    h = cbuild.build(ctx, "h_b64", ["h_b64.c"])
    if not drv or not h:
        return
    ops = gen_ops(ctx)
    for o in ops:
        if not o.endswith(" -"):
            ctx.distinct(o)
    for o in ops[70000:70003] + ops[-40:-38]:
        ctx.sample(o)
    judge.run_and_judge(ctx, "base64", ops, [h], [drv], oracle=oracle, what="base64 armor")


def replay(ctx):
    rep = json.load(open(ctx.replay_in))
    drv = leanlib.driver(ctx)
    h = cbuild.build(ctx, "h_b64", ["h_b64.c"])
    ops = rep.get("ops") or []
    judge.run_and_judge(ctx, "replay", ops, [h], [drv], oracle=oracle, what="base64 armor (replay)")
