"""Independent reference implementation of the documented MUNGE credential v3 format
(doc/credential_v3_format.txt), in python with hashlib/hmac/zlib/bz2 and the `openssl enc` CLI for the block
ciphers.  It knows only the two subkeys.  Used as an oracle / forger for the real-primitive harness
(support for validating the model and for finding failing inputs; it is not part of any proof)."""
import base64, bz2, hashlib, hmac, struct, subprocess, zlib

MACS = {2: "md5", 3: "sha1", 4: "ripemd160", 5: "sha256", 6: "sha512"}
CIPHERS = {2: ("bf-cbc", 16, 8), 3: ("cast5-cbc", 16, 8), 4: ("aes-128-cbc", 16, 16), 5: ("aes-256-cbc", 32, 16)}


def have_mac(t):
    try:
        hmac.new(b"k", b"m", MACS[t]); return True
    except Exception:
        return False


def mac(t, key, msg):
    return hmac.new(key, msg, MACS[t]).digest()


def _openssl(name, key, iv, data, decrypt):
    cmd = ["openssl", "enc", "-" + name, "-K", key.hex(), "-iv", iv.hex(), "-provider", "legacy", "-provider", "default"]
    if decrypt:
        cmd.append("-d")
    p = subprocess.run(cmd, input=data, capture_output=True)
    if p.returncode != 0:
        return None
    return p.stdout


def subkeys(keyfile_bytes):
    return hashlib.sha1(keyfile_bytes + b"2").digest(), hashlib.sha1(keyfile_bytes + b"1").digest()   # (mac_key, dek_key)


def inner(f):
    return f["salt"] + bytes([len(f["addr"])]) + f["addr"] + struct.pack(">IIIIII", f["time0"], f["ttl"], f["uid"], f["gid"], f["auth_uid"], f["auth_gid"]) \
        + struct.pack(">I", len(f["payload"])) + f["payload"]


def emit(f, mac_key, dek_key, plain_override=None):
    """credential string (bytes, no trailing NUL) for fields f; plain_override replaces the (compressed) inner layer"""
    outer = bytes([3, f["cipher"], f["mac"], f["zip"], len(f["realm"])]) + f["realm"] + f["iv"]
    inn = inner(f)
    if plain_override is not None:
        z = plain_override
    elif f["zip"] == 3:
        z = struct.pack(">II", 0xCACACACA, len(inn)) + zlib.compress(inn)
    elif f["zip"] == 2:
        z = struct.pack(">II", 0xCACACACA, len(inn)) + bz2.compress(inn, 9)
    else:
        z = inn
    tag = mac(f["mac"], mac_key, outer + z)
    if f["cipher"] == 0:
        body = z
    else:
        name, klen, blk = CIPHERS[f["cipher"]]
        dek = mac(f["mac"], dek_key, tag)[:klen]
        body = _openssl(name, dek, f["iv"], z, False)
    return b"MUNGE:" + base64.b64encode(outer + tag + body) + b":"


def parse(cred, mac_key, dek_key):
    """-> dict of fields, or a string describing why the credential does not conform"""
    s = cred.rstrip(b"\0").strip()
    if not s.startswith(b"MUNGE:") or not s.endswith(b":"):
        return "armor"
    try:
        raw = base64.b64decode(s[6:-1], validate=True)
    except Exception:
        return "base64"
    if len(raw) < 5 or raw[0] != 3:
        return "version"
    c, m, z, rl = raw[1], raw[2], raw[3], raw[4]
    if m not in MACS or (c != 0 and c not in CIPHERS) or z not in (0, 2, 3):
        return "types"
    p = 5
    realm = raw[p:p + rl]; p += rl
    ivl = CIPHERS[c][2] if c else 0
    iv = raw[p:p + ivl]; p += ivl
    outer = raw[:p]
    ml = hashlib.new(MACS[m]).digest_size
    tag = raw[p:p + ml]; p += ml
    body = raw[p:]
    if len(tag) != ml:
        return "truncated"
    if c:
        name, klen, blk = CIPHERS[c]
        dek = mac(m, dek_key, tag)[:klen]
        plain = _openssl(name, dek, iv, body, True)
        if plain is None:
            return "padding"
    else:
        plain = body
    if not hmac.compare_digest(mac(m, mac_key, outer + plain), tag):
        return "mac"
    if z:
        if len(plain) < 8 or struct.unpack(">I", plain[:4])[0] != 0xCACACACA:
            return "zip header"
        n = struct.unpack(">I", plain[4:8])[0]
        try:
            inn = zlib.decompress(plain[8:]) if z == 3 else bz2.decompress(plain[8:])
        except Exception:
            return "zip stream"
        if len(inn) != n:
            return "zip length"
    else:
        inn = plain
    try:
        salt = inn[:8]; al = inn[8]; addr = inn[9:9 + al]; q = 9 + al
        t0, ttl, uid, gid, au, ag, dl = struct.unpack(">IIIIIII", inn[q:q + 28]); q += 28
        payload = inn[q:q + dl]
        if len(salt) != 8 or len(addr) != al or len(payload) != dl or q + dl != len(inn):
            return "inner layout"
    except Exception:
        return "inner layout"
    return dict(cipher=c, mac=m, zip=z, realm=realm, iv=iv, salt=salt, addr=addr, time0=t0, ttl=ttl, uid=uid, gid=gid,
                auth_uid=au, auth_gid=ag, payload=payload)
