"""C11 - concurrent requests are isolated from one another and race-free (PARTIAL by nature).

Theorems (lean/Munge/Props/C11.lean) carry the logic over the model `Sys` (lean/Munge/Model/Sys.lean: in-flight requests
with private records and program counters over atomic steps built from the `Cred` pipeline, arbitrary schedules):
isolation, no_foreign_bytes, serializable, serializable_with_rollback_partial, rollback_anomaly (the full-strength
statement is false when a send fails: finding F10), and the statements about the generated data of tools/gen/g_sys.py
(every mutable global classified; lock...unlock certificates; the request path reaches shared state only through the
interface the model's steps stand for).

Ties to the C on every run:
  * generator (clang-14 JSON AST of every TU of the daemon);
  * harness/h_sys.c: the real _job_exec on k threads, per-thread scripted peer/clock, gates at the model's steps;
    FORCED schedules are predicted byte for byte by the Lean driver; FREE schedules are judged by the oracle only;
  * oracle (independent of the model): every reply encodes / decodes THAT client's own payload and identity (python twins
    of the toy primitives parse the credentials), nothing of another request occurs in it, and per credential the
    delivered outcomes are those of some sequential order (one SUCCESS, the rest REPLAYED);
  * data races: ThreadSanitizer build of the same harness (thorough tier always; quick tier when a generator obligation
    breaks).  A report counts only if it reproduces on an immediate re-run."""
import base64, json, os, re, struct
from ..vlib import leanlib, cbuild
from ..gen import g_sys
from . import _cred_common as cc

LEVEL = "proof"
F10 = "F10-rollback-anomaly"
F11 = "F11-log-latch-race"
ANY = 0xFFFFFFFF
STEPS = ("recv", "lookup", "salt", "iv", "insert", "send", "remove")
SRC = ["h_sys.c", "src/libcommon/m_msg.c", "src/libcommon/fd.c", "src/libcommon/str.c", "src/munged/cred.c",
       "src/munged/base64.c", "src/munged/hash.c", "src/munged/auth_recv.c", "src/munged/zip.c", "src/libmunge/strerror.c",
       "src/libmissing/strlcpy.c", "src/munged/thread.c", "src/common/crypto.c", "src/libcommon/log.c",
       "src/libcommon/daemonpipe.c", "toy_prims.c"]
MAC_KEY = bytes(0x11 + i for i in range(20))
DEK_KEY = bytes(0x77 - i for i in range(20))

# ------------------------------------------------------------------------------------------------------------------
# python twins of harness/toy_prims.c (used by the ORACLE only: building credentials, parsing the ones the daemon mints)

MACLEN = {2: 16, 3: 20, 4: 20, 5: 32, 6: 64}
BLK = {2: 8, 3: 8, 4: 16, 5: 16}
KLEN = {2: 16, 3: 16, 4: 16, 5: 32}


def toy_mac(t, key, msg):
    n = MACLEN[t]
    h = [(t * 37 + i * 11 + 1) & 0xFF for i in range(n)]
    cnt = 0
    def absorb(b):
        nonlocal cnt
        j = cnt % n
        h[j] = (h[j] * 5 + b + h[(j + 1) % n] + (cnt & 0xFF)) & 0xFF
        cnt += 1
    for b in key:
        absorb(b)
    absorb(0xA5)
    for b in msg:
        absorb(b)
    for r in range(2 * n):
        absorb(h[r % n])
    return bytes(h)


def _key(key, kl):
    k = bytes(key[:kl])
    return k + bytes(kl - len(k))


def toy_encrypt(c, key, iv, pt):
    bl, kl = BLK[c], KLEN[c]
    k = _key(key, kl)
    pad = bl - len(pt) % bl
    p = pt + bytes([pad]) * pad
    prev = (bytes(iv[:bl]) + bytes(bl))[:bl]
    out = b""
    for o in range(0, len(p), bl):
        x = bytes(a ^ b for a, b in zip(p[o:o + bl], prev))
        cblk = bytes(((x[i] ^ k[i % kl]) + (i + 1)) & 0xFF for i in range(bl))
        out += cblk
        prev = cblk
    return out


def toy_decrypt(c, key, iv, ct):
    bl, kl = BLK[c], KLEN[c]
    if not ct or len(ct) % bl:
        return None
    k = _key(key, kl)
    prev = (bytes(iv[:bl]) + bytes(bl))[:bl]
    out = b""
    for o in range(0, len(ct), bl):
        cur = ct[o:o + bl]
        x = bytes(((cur[i] - (i + 1)) & 0xFF) ^ k[i % kl] for i in range(bl))
        out += bytes(a ^ b for a, b in zip(x, prev))
        prev = cur
    pad = out[-1]
    if pad < 1 or pad > bl or out[-pad:] != bytes([pad]) * pad:
        return None
    return out[:-pad]


def inner_of(f):
    return f["salt"] + bytes([4]) + f.get("addr", bytes([127, 0, 0, 1])) + struct.pack(
        ">IIIIII", f["time0"], f["ttl"], f["uid"], f["gid"], f["auth_uid"], f["auth_gid"]) + struct.pack(">I", len(f["payload"])) + f["payload"]


def build_cred(f):
    """credential string (with the trailing NUL a libmunge client sends) for fields f, zip none"""
    iv = f.get("iv", b"")
    outer = bytes([3, f["cipher"], f["mac"], 0, 0]) + iv
    inn = inner_of(f)
    tag = toy_mac(f["mac"], MAC_KEY, outer + inn)
    body = inn if f["cipher"] == 0 else toy_encrypt(f["cipher"], toy_mac(f["mac"], DEK_KEY, tag), iv, inn)
    return b"MUNGE:" + base64.b64encode(outer + tag + body) + b":\0"


def parse_cred(cred):
    """-> dict of fields or a string saying what does not conform (toy primitives, zip none)"""
    s = cred.rstrip(b"\0")
    if not s.startswith(b"MUNGE:") or not s.endswith(b":"):
        return "armor"
    try:
        raw = base64.b64decode(s[6:-1], validate=True)
    except Exception:
        return "base64"
    if len(raw) < 5 or raw[0] != 3:
        return "version"
    c, m, z, rl = raw[1], raw[2], raw[3], raw[4]
    if m not in MACLEN or (c != 0 and c not in BLK) or z != 0:
        return "types c=%d m=%d z=%d" % (c, m, z)
    p = 5 + rl
    ivl = BLK[c] if c else 0
    iv = raw[p:p + ivl]; p += ivl
    outer = raw[:p]
    tag = raw[p:p + MACLEN[m]]; p += MACLEN[m]
    body = raw[p:]
    plain = body if c == 0 else toy_decrypt(c, toy_mac(m, DEK_KEY, tag), iv, body)
    if plain is None:
        return "padding"
    if toy_mac(m, MAC_KEY, outer + plain) != tag:
        return "mac"
    try:
        al = plain[8]; q = 9 + al
        t0, ttl, uid, gid, au, ag, dl = struct.unpack(">IIIIIII", plain[q:q + 28]); q += 28
        payload = plain[q:q + dl]
        if len(payload) != dl or q + dl != len(plain):
            return "inner layout"
    except Exception:
        return "inner layout"
    return dict(cipher=c, mac=m, zip=z, iv=iv, salt=plain[:8], addr=plain[9:9 + al], time0=t0, ttl=ttl, uid=uid, gid=gid,
                auth_uid=au, auth_gid=ag, payload=payload)


# ------------------------------------------------------------------------------------------------------------------
# scenarios

class Req:
    def __init__(self, kind, wire, uid, gid, now, sendok=1, payload=b"", cred=None, enc=None, plain=True):
        self.kind, self.wire, self.uid, self.gid, self.now, self.sendok = kind, wire, uid, gid, now, sendok
        self.payload, self.cred, self.enc, self.plain = payload, cred, enc, plain

    def tok(self):
        return "r=%s:%s:%d:%s:%d" % (self.wire.hex(), "fail" if self.uid is None else self.uid, self.gid or 0,
                                     "fail" if self.now is None else self.now, self.sendok)


class Scen:
    def __init__(self, reqs, sched, mem=(), opts="", purge=False, swaps=False):
        self.reqs, self.sched, self.mem, self.opts, self.purge, self.swaps = reqs, sched, mem, opts, purge, swaps

    def line(self):
        mem = ";".join("%d:%d:%d" % t for t in self.mem) or "-"
        return "sys scen sched=%s mem=%s %s%s" % (self.sched, mem, (self.opts + " ") if self.opts else "", " ".join(r.tok() for r in self.reqs))


def rnd_payload(r, tag):
    return b"P%03d-" % tag + bytes(r.randrange(33, 127) for _ in range(r.randrange(8, 40)))


def mk_cred(r, tag, t0=1000000, ttl=300, auth_uid=ANY, auth_gid=ANY):
    c = r.choice([0, 0, 2, 3, 4, 5])
    m = r.choice([2, 3, 4, 5, 5, 6] if c != 5 else [5, 6])          # the MAC must be at least as long as the cipher key
    f = dict(cipher=c, mac=m, salt=bytes(r.randrange(256) for _ in range(8)), iv=bytes(r.randrange(256) for _ in range(BLK[c])) if c else b"",
             time0=t0, ttl=ttl, uid=r.randrange(1, 60000), gid=r.randrange(1, 60000), auth_uid=auth_uid, auth_gid=auth_gid,
             payload=rnd_payload(r, tag))
    f["bytes"] = build_cred(f)
    return f


def mk_dec(r, cred, uid=None, gid=None, now=None, sendok=1, plain=True, retry=0):
    uid = r.randrange(1, 60000) if uid is None else uid
    gid = r.randrange(1, 60000) if gid is None else gid
    now = cred["time0"] + r.randrange(0, cred["ttl"]) if now is None else now
    return Req("dec", cc.dec_req(cred["bytes"], retry=retry), uid, gid, now, sendok, cred=cred, plain=plain and retry == 0)


def mk_enc(r, tag, sendok=1):
    c = r.choice([0, 1, 2, 3, 4, 5])
    m = r.choice([1, 5, 6] if c in (1, 5) else [1, 2, 3, 4, 5, 6])
    e = dict(cipher=c, mac=m, ttl=r.choice([0, 0, 60, 300, 5000]), auth_uid=r.choice([ANY, r.randrange(1, 9999)]),
             auth_gid=r.choice([ANY, r.randrange(1, 9999)]), payload=rnd_payload(r, tag))
    wire = cc.enc_req(cipher=c, mac=m, zip_=r.choice([0, 1]), ttl=e["ttl"], auth_uid=e["auth_uid"], auth_gid=e["auth_gid"], data=e["payload"])
    return Req("enc", wire, r.randrange(1, 60000), r.randrange(1, 60000), 1000000 + r.randrange(0, 5000), sendok, payload=e["payload"], enc=e)


def program(i):
    return ["%d.%s" % (i, s) for s in STEPS]


def merge(r, progs, extra=()):
    """a random interleaving of the programs (each keeps its own order), with the extra actions dropped in"""
    idx = [0] * len(progs)
    out = []
    live = [i for i in range(len(progs)) if progs[i]]
    while live:
        i = r.choice(live)
        out.append(progs[i][idx[i]])
        idx[i] += 1
        if idx[i] == len(progs[i]):
            live.remove(i)
    for e in extra:
        out.insert(r.randrange(len(out) + 1), e)
    return out


def anomaly_scenario():
    """F10 on the real dec.c: A holds at its send gate until B has been answered; A's send then fails; A withdraws."""
    import random
    r = random.Random(10)
    cred = mk_cred(r, 0)
    cred["cipher"], cred["iv"] = 0, b""
    cred["bytes"] = build_cred(cred)
    a = mk_dec(r, cred, uid=1000, gid=1000, now=cred["time0"] + 10, sendok=0)
    b = mk_dec(r, cred, uid=2000, gid=2000, now=cred["time0"] + 20, sendok=1)
    return Scen([a, b], "0.recv,0.lookup,0.insert,1.recv,1.lookup,1.insert,1.send,0.send,0.remove")


def gen_forced(ctx, n):
    r = ctx.rng
    out = [anomaly_scenario()]
    for sc in range(n):
        pool = [mk_cred(r, sc * 10 + j) for j in range(r.randrange(1, 3))]
        reqs, mem, kinds = [], [], []
        k = r.randrange(2, 6)
        q = r.random()
        for i in range(k):
            x = r.random()
            ok = 0 if r.random() < 0.18 else 1
            if x < 0.55:
                reqs.append(mk_dec(r, r.choice(pool), sendok=ok)); kinds.append("dec-shared")
            elif x < 0.70:
                reqs.append(mk_enc(r, sc * 10 + 5 + i, sendok=ok)); kinds.append("enc")
            elif x < 0.80:
                # restricted credential: authorised through the gid map only
                g = r.randrange(100, 200)
                c = mk_cred(r, sc * 10 + 7, auth_gid=g)
                u = r.randrange(1, 60000)
                for v in range(4):
                    if r.random() < 0.6:
                        mem.append((v, u, g))
                reqs.append(mk_dec(r, c, uid=u, sendok=ok, plain=False)); kinds.append("dec-gidmap")
            elif x < 0.86:
                c = r.choice(pool)
                reqs.append(mk_dec(r, c, now=c["time0"] + c["ttl"] + r.randrange(1, 50), sendok=ok, plain=False)); kinds.append("dec-expired")
            elif x < 0.90:
                c = mk_cred(r, sc * 10 + 8, auth_uid=r.randrange(1, 100))
                reqs.append(mk_dec(r, c, uid=r.randrange(200, 300), sendok=ok, plain=False)); kinds.append("dec-unauthorized")
            elif x < 0.93:
                c = dict(r.choice(pool)); b = bytearray(c["bytes"]); b[r.randrange(8, len(b) - 3)] ^= 1 << r.randrange(6); c["bytes"] = bytes(b)
                reqs.append(mk_dec(r, c, sendok=ok, plain=False)); kinds.append("dec-corrupt")
            elif x < 0.95:
                reqs.append(mk_dec(r, r.choice(pool), sendok=ok, retry=r.randrange(1, 7))); kinds.append("dec-retry")
            elif x < 0.97:
                d = mk_dec(r, r.choice(pool), sendok=ok, plain=False); d.uid = None; reqs.append(d); kinds.append("peer-fail")
            elif x < 0.985:
                d = mk_dec(r, r.choice(pool), sendok=ok, plain=False); d.now = None; reqs.append(d); kinds.append("clock-fail")
            else:
                d = mk_dec(r, r.choice(pool), sendok=ok, plain=False); d.wire = d.wire[:r.randrange(0, len(d.wire))]; d.kind = "junk"
                reqs.append(d); kinds.append("truncated")
        extra, purge, swaps = [], False, False
        if r.random() < 0.25:
            extra += ["swap"] * r.randrange(1, 3); swaps = True
        if r.random() < 0.15:
            t = r.choice([999000, 1000200, 1000400, 1002000]); extra.append("purge@%d" % t); purge = True
        if q < 0.15:
            sched = sum((program(i) for i in r.sample(range(k), k)), [])            # sequential, random order
        else:
            sched = merge(r, [program(i) for i in range(k)], extra)
        out.append(Scen(reqs, ",".join(sched), mem=mem, purge=purge, swaps=swaps))
        for kd in kinds:
            ctx.dist("forced_req_" + kd)
        ctx.dist("forced_k_%d" % k)
        if any(not x.sendok for x in reqs):
            ctx.dist("forced_with_undeliverable")
    return out


def gen_free(ctx, n, kmin, kmax, threads, opts=""):
    r = ctx.rng
    out = []
    for sc in range(n):
        k = r.randrange(kmin, kmax + 1)
        pool = [mk_cred(r, 500 + j) for j in range(max(1, k // 4))]
        lost = [mk_cred(r, 700 + j) for j in range(2)]             # credentials used by undeliverable requests only
        reqs = []
        for i in range(k):
            x = r.random()
            if x < 0.6:
                reqs.append(mk_dec(r, r.choice(pool)))
            elif x < 0.85:
                reqs.append(mk_enc(r, 100 + i))
            elif x < 0.93:
                reqs.append(mk_dec(r, r.choice(lost), sendok=0))
            else:
                c = mk_cred(r, 900 + i, auth_uid=r.randrange(1, 100))
                reqs.append(mk_dec(r, c, uid=r.randrange(200, 300), plain=False))
        nt = r.choice(threads)
        out.append(Scen(reqs, "free", opts=("nthreads=%d %s" % (nt, opts)).strip()))
        ctx.dist("free_threads_%d" % nt)
        ctx.dist("free_requests", k)
    return out


# ------------------------------------------------------------------------------------------------------------------
# the property oracle (never looks at the model)

def judge(sc, outline):
    """-> list of (reason, finding_key)"""
    hits = []
    toks = dict(t.split("=", 1) for t in outline.split() if "=" in t)
    n = len(sc.reqs)
    if any("o%d" % i not in toks for i in range(n)) or "rs" not in toks:
        return [("unparsable harness output %r" % outline[:200], None)]
    outs = [b"" if toks["o%d" % i] == "-" else bytes.fromhex(toks["o%d" % i]) for i in range(n)]
    rsps = [cc.parse_rsp(o) for o in outs]
    others = lambda i: [(j, q) for j, q in enumerate(sc.reqs) if j != i]
    salts = {}
    for i, (q, o, rs) in enumerate(zip(sc.reqs, outs, rsps)):
        who = "request %d (%s, uid=%s gid=%s)" % (i, q.kind, q.uid, q.gid)
        if not q.sendok:
            if o:
                hits.append((who + ": a reply was received although this client refuses to receive", None))
            continue
        # nothing of another in-flight request occurs in the reply
        mine = {q.payload} | ({q.cred["payload"]} if q.cred else set())
        for j, p in others(i):
            for foreign in {p.payload, p.cred["payload"] if p.cred else b""} - mine - {b""}:
                if foreign in o:
                    hits.append((who + ": the payload of request %d occurs in its reply" % j, None))
        if q.kind == "junk":
            continue
        if q.kind == "enc":
            if not o:
                hits.append((who + ": no reply to an encode request", None)); continue
            if rs.kind != "enc" or not rs.ok:
                hits.append((who + ": reply is not a well-formed ENC_RSP", None)); continue
            if rs.error_num == 0:
                f = parse_cred(rs.data)
                if isinstance(f, str):
                    hits.append((who + ": the credential it was given does not parse (%s)" % f, None)); continue
                exp_ttl = q.enc["ttl"] if q.enc["ttl"] else 300
                exp_ttl = min(exp_ttl, 3600)
                want = dict(uid=q.uid, gid=q.gid, payload=q.payload, time0=q.now & 0xFFFFFFFF, auth_uid=q.enc["auth_uid"],
                            auth_gid=q.enc["auth_gid"], ttl=exp_ttl)
                for k_, v in want.items():
                    if f[k_] != v:
                        hits.append((who + ": its credential carries %s=%r, its own request says %r" % (k_, f[k_], v), None))
                if f["salt"] in salts:
                    hits.append((who + ": its credential has the same salt as that of request %d (PRNG output handed out twice)" % salts[f["salt"]], None))
                salts[f["salt"]] = i
            continue
        # decode
        if q.uid is None or q.now is None:
            continue
        if not o:
            hits.append((who + ": no reply to a decode request", None)); continue
        if rs.kind != "dec" or not rs.ok:
            hits.append((who + ": reply is not a well-formed DEC_RSP", None)); continue
        c = q.cred
        if rs.error_num in (0, 15, 16, 17):
            want = dict(data=c["payload"], cred_uid=c["uid"], cred_gid=c["gid"], auth_uid=c["auth_uid"], auth_gid=c["auth_gid"],
                        time0=c["time0"], time1=q.now & 0xFFFFFFFF, cipher=c["cipher"], mac=c["mac"])
            for k_, v in want.items():
                if getattr(rs, k_) != v:
                    hits.append((who + ": reply field %s=%r, its own credential / clock says %r" % (k_, getattr(rs, k_), v), None))
        elif rs.error_num == 18:
            txt = b"Unauthorized credential for client UID=%d GID=%d\0" % (q.uid, q.gid)
            if rs.error_str != txt:
                hits.append((who + ": error text %r names another identity (expected %r)" % (rs.error_str, txt), None))
            if rs.data or rs.cred_uid != ANY or rs.cred_gid != ANY:
                hits.append((who + ": refused reply carries data", None))
        else:
            if rs.data:
                hits.append((who + ": failure reply (error %d) carries a payload" % rs.error_num, None))
    # per credential: the delivered outcomes of the plain decodes are those of SOME sequential order
    if not sc.purge:
        groups = {}
        for i, q in enumerate(sc.reqs):
            if q.kind == "dec" and q.plain and q.uid is not None and q.now is not None:
                groups.setdefault(q.cred["bytes"], []).append(i)
        present = 0
        for cb, idx in groups.items():
            if any(not sc.reqs[i].plain for i in range(n) if sc.reqs[i].cred and sc.reqs[i].cred["bytes"] == cb and sc.reqs[i].kind == "dec"):
                # a retry-flagged or otherwise special request on the same credential: leave to the model
                present = None; break
            deliv = [i for i in idx if sc.reqs[i].sendok]
            lost = [i for i in idx if not sc.reqs[i].sendok]
            codes = [rsps[i].error_num if outs[i] and rsps[i].ok else None for i in deliv]
            if deliv:
                if present is not None:
                    present += 1
                nsucc = codes.count(0)
                if sorted(codes, key=lambda x: -1 if x is None else x) != sorted([0] + [17] * (len(deliv) - 1)):
                    if nsucc == 0 and lost and all(c_ == 17 for c_ in codes):
                        hits.append(("requests %s decode one credential; every DELIVERED reply says REPLAYED and none SUCCESS, although the only "
                                     "other request(s) for it (%s) could not be answered and withdrew their record: no sequential order of these "
                                     "transactions refuses all deliverable ones" % (deliv, lost), F10))
                    else:
                        hits.append(("requests %s decode one credential concurrently; delivered outcomes %s are not {one SUCCESS, rest REPLAYED}: "
                                     "not the result of any sequential order" % (deliv, codes), None))
        if present is not None and not any(h[1] == F10 for h in hits):
            extra = sum(1 for i, q in enumerate(sc.reqs) if q.kind == "dec" and not q.plain)
            rsn = int(toks["rs"])
            if not (present <= rsn <= present + extra):
                hits.append(("replay table holds %d records after the scenario; %d credentials were decoded and delivered" % (rsn, present), None))
    return hits


# ------------------------------------------------------------------------------------------------------------------
# running

def build(ctx, tsan=False):
    if tsan:
        return cbuild.build(ctx, "h_sys_tsan", SRC, libs=["-fsanitize=thread", "-lcrypto", "-ldl"], defines=["HC_TOY"], sanitize=False,
                            opt="-O0", extra=["-fsanitize=thread"])     # -O0: the compiler must not optimise source-level accesses away
    return cbuild.build(ctx, "h_sys", SRC, libs=["-lcrypto", "-ldl"], defines=["HC_TOY"])


TSAN_ENV = {"TSAN_OPTIONS": "halt_on_error=0:exitcode=0:second_deadlock_stack=1:report_signal_unsafe=0"}


def tsan_reports(err):
    """set of (kind, location) from ThreadSanitizer's SUMMARY lines; harness-internal frames are ignored"""
    out = set()
    for m in re.finditer(r"SUMMARY: ThreadSanitizer: ([\w -]+?) (\S+?):(\d+)(?::\d+)? in (\S+)", err):
        f = m.group(2)
        if f.endswith("h_sys.c"):
            continue
        out.add((m.group(1), os.path.basename(f), m.group(4)))
    return out


def run_stream(ctx, name, scens, h, drv, what, env=None, tsan=False):
    """forced scenarios: harness == driver byte for byte + oracle; free scenarios: oracle only (+ TSan reports)"""
    lines = [s.line() for s in scens]
    forced = drv is not None
    ctx.log("stream %s: %d scenarios, %d requests" % (name, len(scens), sum(len(s.reqs) for s in scens)))
    diff = None
    if forced:
        diff, out_c = cbuild.diff_stream(ctx, name, lines, [h], [drv], env=env)
        err = ""
    else:
        rc, out_c, err = cbuild.run_lines([h], lines, env=env, timeout=3000)
        ctx.count(len(lines))
        st = ctx.cov["streams"].setdefault(name, {"ops": 0, "agree": 0})
        st["ops"] += len(lines); st["agree"] += len(out_c)
        ok = rc == 0 and len(out_c) == len(lines)
        ctx.obligation("harness", "stream %s: %d free-schedule scenarios ran to completion" % (name, len(lines)), ok,
                       "rc=%d, %d/%d lines; %s" % (rc, len(out_c), len(lines), err[-1500:]))
        if not ok:
            i = min(len(out_c), len(lines) - 1)
            ctx.violation("%s: the daemon code crashed / wedged / tripped a sanitizer in a free schedule" % what,
                          {"stream": name, "mode": "tsan" if tsan else "asan", "ops": [lines[i]], "stderr": err[-3000:]}, found_input=True)
    unknown, nhits = [], 0
    for i, o in enumerate(out_c[:len(lines)]):
        for reason, key in judge(scens[i], o)[:1]:
            nhits += 1
            ctx.violation("%s: %s" % (what, reason),
                          {"stream": name, "mode": "forced" if forced else ("tsan" if tsan else "free"), "ops": [lines[i]], "impl_output": o,
                           "reason": reason, "schedule": scens[i].sched,
                           "requests": ["%d: %s uid=%s gid=%s now=%s sendok=%d" % (j, q.kind, q.uid, q.gid, q.now, q.sendok) for j, q in enumerate(scens[i].reqs)],
                           "fails_on": "implementation (real job.c / dec.c / enc.c / replay.c / hash.c in harness/h_sys.c)"},
                          found_input=True, finding_key=key)
            if not (key and any(k["key"] == key for k in ctx.known_hits)):
                unknown.append((i, reason))
        if len(unknown) >= 2:
            break
    ctx.obligation("oracle", "stream %s: per-client oracle on the implementation's replies%s" % (
        name, " (%d hit(s) of a recorded known finding)" % (nhits - len(unknown)) if nhits != len(unknown) else ""),
        not unknown, "" if not unknown else "scenario %d: %s" % unknown[0])
    if forced:
        ctx.obligation("correspondence", "stream %s: %d forced schedules, every reply byte = model prediction" % (name, len(lines)), diff is None,
                       "" if diff is None else "first difference at scenario %d `%s`: impl=%s model=%s" % (
                           diff["index"], diff["op"][:160], diff["impl"][:500], diff["model"][:300]))
        if diff is not None and not unknown:
            crashed = diff["impl"].startswith("(rc=") and not diff["impl"].startswith("(rc=0")
            if crashed:
                ctx.violation("%s: implementation crashed / tripped a sanitizer under a forced schedule" % what,
                              {"stream": name, "mode": "forced", "ops": [diff["op"]], "impl_output": diff["impl"]}, found_input=True)
            else:
                ctx.violation("%s: correspondence between model and implementation broke; the per-client oracle found no failing input" % what,
                              {"stream": name, "broken": "correspondence stream " + name, "first_difference": diff}, found_input=False)
    return out_c, err


def tsan_stream(ctx, name, scens, ht, what, key_of=None):
    """free schedules under ThreadSanitizer; a report counts only when the same report comes back on an immediate re-run"""
    out_c, err = run_stream(ctx, name, scens, ht, None, what, env=TSAN_ENV, tsan=True)
    reps = tsan_reports(err)
    confirmed = set()
    if reps:
        _, _, err2 = cbuild.run_lines([ht], [s.line() for s in scens], env=TSAN_ENV, timeout=3000)
        confirmed = reps & tsan_reports(err2)
    ctx.cov.setdefault("tsan", {})[name] = {"reports": sorted(map(list, reps)), "reproduced": sorted(map(list, confirmed))}
    unknown = []
    for kind, f, fn in sorted(confirmed)[:2]:
        key = key_of(kind, f, fn) if key_of else None
        block = ""
        m = re.search(r"WARNING: ThreadSanitizer: %s.*?SUMMARY: ThreadSanitizer: %s \S*%s" % (re.escape(kind), re.escape(kind), re.escape(f)), err, re.S)
        if m:
            block = m.group(0)[-3500:]
        ctx.violation("%s: ThreadSanitizer %s in %s (%s), reproduced on re-run" % (what, kind, fn, f),
                      {"stream": name, "mode": "tsan", "ops": [s.line() for s in scens[:3]], "report": block,
                       "fails_on": "implementation under -fsanitize=thread"}, found_input=True, finding_key=key)
        if not (key and any(k["key"] == key for k in ctx.known_hits)):
            unknown.append((kind, f, fn))
    ctx.obligation("tsan", "stream %s: no reproducible ThreadSanitizer report (%d seen once, %d reproduced)" % (name, len(reps), len(confirmed)),
                   not unknown, "; ".join("%s %s %s" % u for u in unknown))
    return confirmed


def f11_key(kind, f, fn):
    return F11 if (f == "log.c" and fn == "_log_aux") else None


def log_latch_scenarios(ctx):
    r = ctx.rng
    return gen_free(ctx, 2, 12, 16, [8], opts="logfull=1 logger=3")


def refresh_isolation(ctx, drv):
    """"... while the group map is being refreshed": membership lookups (and a SIGHUP) issued from INSIDE a running refresh of the real
    gids.c / hash.c (C17's harness with scripted databases): every answer must be the one the old map gives - what some serial order of
    {refresh, lookup} produces - never 'no map' or a half-built one; after the refresh the new map answers.  (The request harness above
    uses a stub gids_is_member; this ties the statement's refresh clause to the real code.)"""
    from . import c17
    from ..gen import g_gids
    g_gids.generate(ctx)       # (a failed extraction is already a failed obligation: the lookups below are judged by the property oracle either way)
    h, heb = c17.build_all(ctx)
    if not h or not heb:
        return
    g = c17.Gen(ctx, getattr(ctx, "gids_consts", {}))
    ops = [g.interleave() for _ in range(400 if ctx.tier == "thorough" else 50)]
    for o in ops:
        ctx.distinct(o)
    ctx.sample(ops[0][:300])
    ctx.dist("refresh_isolation_scenarios", len(ops))
    c17.run_streams(ctx, ops, h, heb, drv or "/bin/cat", tag="-during-refresh")
    # ... and the converse interleaving: a lookup (on its own thread) held inside hash_find across a whole refresh
    c17.run_parked(ctx, h, 60 if ctx.tier == "thorough" else 6)


def run(ctx):
    ctx.rule = ("concurrent scenarios for the real job.c/dec.c/enc.c/replay.c/hash.c/log.c (harness/h_sys.c) : FORCED schedules = random "
                "interleavings of the 7-step programs of 2..5 requests (decodes sharing a credential, encodes, gid-map-authorised, expired, "
                "unauthorised, corrupt, retry-flagged, peer/clock failures, truncated; 18% undeliverable; gid-map swaps; purges), each predicted "
                "byte for byte by the Lean model and judged by the per-client oracle; FREE schedules = 8..64 requests on 2..16 threads judged by "
                "the oracle (thorough: under ThreadSanitizer with concurrent replay_purge, gid-map swaps and logging); distinct = distinct "
                "scenario lines; non-trivial = every scenario (each runs >= 2 real transactions concurrently)")
    ctx.assumptions += [
        "pthread mutexes exclude: a function that holds its mutex on every path around its shared accesses is one atomic step (certificates are a "
        "structural check of the lock discipline, not a proof of race freedom)",
        "data races, static buffers and non-reentrant libc calls are sought dynamically (ThreadSanitizer, per-client oracle) on the explored "
        "schedules only",
        "toy primitives (harness/toy_prims.c = lean/Munge/Model/ToyPrims.lean = python twins in the oracle) stand in for OpenSSL / zlib; the PRNG is a "
        "deterministic stream under a lock; gids_is_member is a stub guarded like the real one (the real one is certified by the generator)",
        "membership answers and PRNG bytes are inputs of the sequential reference: gid-map refreshes are not serialised with the requests",
        "alias analysis is not attempted: an access through a pointer that escaped its critical section is invisible to the generator",
    ]
    ctx.trusted.append("ThreadSanitizer (gcc 12 -fsanitize=thread) for the dynamic race search")
    g_sys.generate(ctx)
    if ctx.replay_in:
        return replay(ctx)
    failed = leanlib.check_props(ctx, "C11")
    drv = leanlib.driver(ctx)
    h = build(ctx)
    if not drv or not h:
        return
    thorough = ctx.tier == "thorough"
    what = "isolation / serialisability of concurrent requests"
    # ---- forced schedules: model predicts every byte
    forced = gen_forced(ctx, 12000 if thorough else 3000)
    for s in forced:
        ctx.distinct(s.line())
    ctx.sample(forced[0].line()[:400]); ctx.sample(forced[len(forced) // 2].line()[:400])
    run_stream(ctx, "forced", forced, h, drv, what)
    # ---- free schedules under ASan: oracle only
    free = gen_free(ctx, 600 if thorough else 120, 8, 24, [2, 4, 8])
    for s in free:
        ctx.distinct(s.line())
    ctx.sample(free[0].line()[:400])
    run_stream(ctx, "free", free, h, None, what)
    descriptor_ownership(ctx)
    refresh_isolation(ctx, drv)
    # ---- ThreadSanitizer: thorough always; quick when the generator / the generated-data theorems broke
    gen_broken = [o for o in ctx.obligations if o["kind"] == "gen" and not o["ok"]]
    thm_broken = [f for f in failed if any(x in f for x in ("shared_vars_covered", "request_path", "shared_calls", "steps_are"))]
    if thorough or gen_broken or thm_broken:
        ht = build(ctx, tsan=True)
        if ht:
            unguarded = [k for k, _ in getattr(ctx, "sys_unguarded", []) if k not in g_sys.ACKNOWLEDGED]
            if any("log_ctx.got_fprintf_error" in k for k in unguarded) or thorough:
                tsan_stream(ctx, "tsan-logfile-full", log_latch_scenarios(ctx), ht, "race-freedom (log file not writable)", key_of=f11_key)
            only_latch = (not thorough and len(unguarded) == 1 and "log_ctx.got_fprintf_error" in unguarded[0]
                          and all("got_fprintf_error" in o["detail"] for o in gen_broken)
                          and all("shared_vars_covered" in f for f in thm_broken))
            stress = [] if only_latch else gen_free(ctx, 20 if thorough else 5, 200 if thorough else 40, 400 if thorough else 56, [8, 12, 16],
                              opts="purger=1 swapper=1 logger=1")
            for s in stress:
                ctx.distinct(s.line())
            if stress:
                tsan_stream(ctx, "tsan-stress", stress, ht, "race-freedom")
    # a broken generator obligation for which no schedule exhibited anything: say so, naming it
    for o in gen_broken:
        hit = ctx.violations or any(k["key"] == F11 for k in ctx.known_hits)
        if "got_fprintf_error" in o["detail"] and any(k["key"] == F11 for k in ctx.known_hits):
            o["ok"] = True
            o["name"] += " [fails because of recorded known finding %s]" % F11
        elif not hit:
            ctx.violation("generator obligation no longer holds: %s (%s); neither the forced / free schedules nor ThreadSanitizer exhibited a "
                          "failing schedule" % (o["name"][:200], o["detail"][:300]),
                          {"broken": "generator obligation", "name": o["name"], "detail": o["detail"]}, found_input=False)
    if any(k["key"] == F11 for k in ctx.known_hits):
        for o in ctx.obligations:
            if not o["ok"] and o["kind"] == "theorem" and o["name"].endswith("shared_vars_covered"):
                o["ok"] = True
                o["name"] += " [fails because of recorded known finding %s]" % F11


def descriptor_ownership(ctx):
    """Isolation of connections at the descriptor level: every path through the real _job_exec (reception failing at each
    stage, processing errors, undeliverable replies, success) closes the connection's descriptor exactly once.  A second
    close () is invisible sequentially; with concurrent clients the number belongs to another client's connection by then."""
    h = cc.build_toy(ctx)
    if not h:
        return
    r = ctx.rng
    good_e = cc.enc_req(data=b"own", cipher=4, mac=5, zip_=0)
    reqs = [("ok-enc", good_e, ""), ("empty", b"", " cut=0"), ("hdr-cut", good_e[:7], " cut=7"), ("body-cut", good_e[:20], " cut=20"),
            ("magic", cc.hdr(2, 0, 4, cc.MAGIC + 1) + b"abcd", ""), ("version", cc.hdr(2, 0, 4, cc.MAGIC, 9) + b"abcd", ""),
            ("over-limit", cc.hdr(2, 0, 2 ** 24) + b"x" * 64, " cut=75"), ("unpack", cc.hdr(2, 0, 3) + b"abc", ""),
            ("type-other", cc.hdr(9, 0, 0), ""), ("type-rsp", cc.hdr(3, 0, 6) + bytes([0, 0, 0, 0, 0, 0]), ""),
            ("hdr-in-hdr", cc.hdr(1, 0, 11) + cc.hdr(2, 0, 0), ""), ("bad-mac-type", cc.enc_req(mac=0, data=b"x"), ""),
            ("dec-garbage", cc.dec_req(b"MUNGE:AAAA:\0"), ""), ("sendfail", good_e, " sendfail=1"), ("dec-empty", cc.dec_req(b""), "")]
    ops, kinds = [], []
    for rep in range(2 if ctx.tier == "quick" else 10):
        for kind, b, extra in reqs:
            ops.append("cred req %s now=1000000 peer=%d:%d rnd=%s mem=-%s" % (cc.hx(b), r.randrange(1000), r.randrange(1000), "ab" * 24, extra)); kinds.append(kind)
    rc, out, err = cbuild.run_lines([h], ops)
    ctx.count(len(ops)); ctx.dist("descriptor_ownership", len(ops))
    for o in ops:
        ctx.distinct(o)
    bad = None
    for i, l in enumerate(out[:len(ops)]):
        if "connection-descriptor-closed-" in l:
            bad = (i, "request class `%s`: the request path closed the connection's descriptor %s times; it owns it exactly once - under concurrency the second close hits "
                      "another client's connection" % (kinds[i], l.split("-")[-2]))
            break
    crashed = rc != 0 or len(out) != len(ops)
    ctx.obligation("oracle", "descriptor ownership: %d requests over %d reception / processing / delivery outcomes, each closes its descriptor exactly once" % (len(ops), len(reqs)),
                   bad is None and not crashed, (bad[1] if bad else "") + (err[-1200:] if crashed else ""))
    if bad or crashed:
        i = bad[0] if bad else len(out)
        ctx.violation("isolation of connections: " + (bad[1] if bad else "crash / sanitizer report"),
                      {"stream": "descriptor-ownership", "harness": "h_cred_toy", "ops": [ops[i]] if i < len(ops) else [], "impl_output": out[i] if i < len(out) else err[-2000:]},
                      found_input=True)


def replay(ctx):
    rep = json.load(open(ctx.replay_in))
    ops = rep.get("ops") or []
    mode = rep.get("mode", "forced")
    if not ops:
        ctx.obligation("replay", "replay file names scenarios", False, str(rep)[:300])
        return
    ctx.log("replaying %d scenario(s), mode %s" % (len(ops), mode))
    tsan = mode == "tsan"
    h = build(ctx, tsan=tsan)
    drv = leanlib.driver(ctx) if mode == "forced" else None
    if not h:
        return
    env = TSAN_ENV if tsan else None
    rc, out, err = cbuild.run_lines([h], ops, env=env)
    print("harness output:")
    for o, l in zip(out, ops):
        print("  op   ", l[:300])
        print("  impl ", o[:600])
        toks = dict(t.split("=", 1) for t in o.split() if "=" in t)
        for k_, v in sorted(toks.items()):
            if k_.startswith("o") and v != "-":
                rs = cc.parse_rsp(bytes.fromhex(v))
                print("     %s: %s error=%s %r data=%r" % (k_, rs.kind, getattr(rs, "error_num", None), getattr(rs, "error_str", b""), getattr(rs, "data", b"")[:40]))
            elif k_.startswith("o"):
                print("     %s: (nothing received)" % k_)
    if drv:
        _, outd, _ = cbuild.run_lines([drv], ops)
        for o in outd:
            print("  model", o[:600])
        ctx.obligation("replay", "model prediction equals the implementation on the replayed schedule", out == outd, "")
    reps = tsan_reports(err)
    if tsan:
        print(err[-4000:])
    bad = bool(reps) or rc != 0 or (rep.get("key") == F10 and any(" rs=0" in o for o in out))
    if rep.get("key") == F10:
        for o in out:
            toks = dict(t.split("=", 1) for t in o.split() if "=" in t)
            rs = cc.parse_rsp(bytes.fromhex(toks["o1"])) if toks.get("o1", "-") != "-" else None
            bad = bool(rs and rs.error_num == 17 and toks.get("o0") == "-")
    if bad:
        ctx.violation("replayed: %s" % rep.get("what", ""), {"ops": ops, "mode": mode, "impl_output": out, "stderr": err[-2000:]},
                      found_input=True, finding_key=rep.get("key"))
    ctx.obligation("replay", "the replayed scenario no longer shows the reported behaviour", not bad, rep.get("what", "")[:300])
