"""C20 - keys: exact-size, private, never overwritten; HKDF per RFC 5869; whole-file keying.

Model lean/Munge/Model/Hkdf.lean over lean/Munge/Gen/Hkdf.lean (regenerated from src/common/hkdf.c,
src/mungekey/{conf,key}.c, src/munged/conf.c); theorems lean/Munge/Props/C20.lean; correspondence
harness/h_hkdf.c built four ways (hkdf+mungekey | create_subkeys) x (toy MAC/digest | real OpenSSL), plus the real
mungekey binary rebuilt from the working tree.  Oracles: an RFC 5869 reference in python over hmac/hashlib (or
over a python copy of the toy checksum), hashlib.sha1 of the whole key file, os.stat results."""
import sys
if __name__ == "__main__":          # line-protocol runners around real binaries (used as "harness" commands)
    import os, subprocess

    def run_mungekey(exe, d):
        """`python3 c20.py --mungekey <exe> <dir>`: one mungekey run per op line under the given umask"""
        path = os.path.join(d, "binkey")
        env = dict(os.environ, ASAN_OPTIONS="detect_leaks=1:exitcode=99", UBSAN_OPTIONS="halt_on_error=1:exitcode=98")
        for line in sys.stdin:
            w = line.split()
            try:
                force, um, pre, bits = w[2], int(w[3], 8), w[4], w[5]
                if os.path.lexists(path):
                    os.unlink(path)
                prec = None
                if pre != "none":
                    m, h = pre.split(":")
                    prec = b"" if h == "-" else bytes.fromhex(h)
                    with open(path, "wb") as f:
                        f.write(prec)
                    os.chmod(path, int(m, 8))
                cmd = [exe, "--keyfile", path] + (["--bits", bits] if bits != "-" else []) + (["--force"] if force == "1" else [])
                old = os.umask(um)
                try:
                    p = subprocess.run(cmd, stdout=subprocess.PIPE, stderr=subprocess.PIPE, timeout=60, env=env)
                finally:
                    os.umask(old)
                if p.returncode not in (0, 1):
                    print("crash rc=%d %s" % (p.returncode, p.stderr.decode("utf-8", "replace")[-600:].replace("\n", " | ")))
                elif not os.path.lexists(path):
                    print("ok=%d exists=0" % (1 if p.returncode == 0 else 0))
                else:
                    st = os.lstat(path)
                    c = open(path, "rb").read() if os.access(path, os.R_OK) else b""
                    print("ok=%d exists=1 size=%d mode=%04o same=%d" % (1 if p.returncode == 0 else 0, st.st_size, st.st_mode & 0o7777,
                                                                     1 if prec is not None and c == prec else 0))
            except Exception as e:
                print("runner-error %r" % (e,))
            sys.stdout.flush()

    def run_e2e(munged, client, d):
        """`python3 c20.py --e2e <munged> <client> <dir>`: op `hkdf e2e <len> <off> <xor>` starts daemon A on a <len>-byte key
        and daemon B on the same key with byte <off> xor-ed by <xor>; a credential minted by A is presented to B.
        Daemons are killed by pid."""
        import hashlib, time
        procs = {}
        env = dict(os.environ, ASAN_OPTIONS="detect_leaks=0:exitcode=99")
        def stop(x):
            p = procs.pop(x, None)
            if p is not None:
                p.terminate()
                try:
                    p.wait(10)
                except subprocess.TimeoutExpired:
                    p.kill(); p.wait()
        def start(x, key):
            stop(x)
            dd = os.path.join(d, "e2e_" + x)
            os.makedirs(dd, exist_ok=True)
            for f in ("sock", "sock.lock", "pid"):
                if os.path.lexists(os.path.join(dd, f)):
                    os.unlink(os.path.join(dd, f))
            kp = os.path.join(dd, "key")
            fd = os.open(kp, os.O_WRONLY | os.O_CREAT | os.O_TRUNC, 0o600)
            os.write(fd, key); os.close(fd)
            procs[x] = subprocess.Popen([munged, "-F", "-S", os.path.join(dd, "sock"), "--key-file=" + kp, "--pid-file=" + os.path.join(dd, "pid"),
                                         "--seed-file=" + os.path.join(dd, "seed"), "--num-threads=2"],
                                        stdout=subprocess.DEVNULL, stderr=open(os.path.join(dd, "err"), "wb"), env=env)
            t0 = time.time()
            while not os.path.exists(os.path.join(dd, "sock")):
                if procs[x].poll() is not None or time.time() - t0 > 20:
                    return None
                time.sleep(0.02)
            return os.path.join(dd, "sock")
        cur_len, sa = None, None
        try:
            for line in sys.stdin:
                w = line.split()
                try:
                    n, off, x = int(w[2]), int(w[3]), int(w[4])
                    key = hashlib.shake_256(b"c20-key-%d" % n).digest(n)
                    if cur_len != n or sa is None:
                        sa = start("a", key); cur_len = n
                    k2 = bytearray(key)
                    if n:
                        k2[off] ^= x
                    sb = start("b", bytes(k2))
                    if sa is None or sb is None:
                        print("daemon-refused a=%s b=%s" % ("up" if sa else "down", "up" if sb else "down"))
                    else:
                        p = subprocess.run([client], input=("hkdf e2e %s %s\n" % (sa, sb)).encode(), stdout=subprocess.PIPE, stderr=subprocess.PIPE, timeout=60)
                        print(p.stdout.decode().strip() or "crash rc=%d %s" % (p.returncode, p.stderr.decode("utf-8", "replace")[-400:].replace("\n", " | ")))
                except Exception as e:
                    print("runner-error %r" % (e,))
                sys.stdout.flush()
        finally:
            stop("a"); stop("b")

    if sys.argv[1] == "--mungekey":
        run_mungekey(sys.argv[2], sys.argv[3])
    elif sys.argv[1] == "--e2e":
        run_e2e(sys.argv[2], sys.argv[3], sys.argv[4])
    sys.exit(0)

import glob, hashlib, hmac, json, os, threading
from ..vlib import leanlib, cbuild, judge
from ..vlib.core import VERIF
from ..gen import g_hkdf, g_key

LEVEL = "proof"
M64 = (1 << 64) - 1
SANX = ["-fsanitize=address,undefined", "-fno-sanitize=shift", "-fno-sanitize-recover=all", "-fno-omit-frame-pointer"]
KEY_SRC = ["h_hkdf.c", "src/common/hkdf.c", "src/libcommon/fd.c", "src/libcommon/str.c", "src/libmunge/enum.c",
           "src/libcommon/license.c", "src/libcommon/version.c"]
REAL_SRC = ["src/common/mac.c", "src/common/md.c", "src/common/crypto.c"]
BIN_SRC = ["src/mungekey/mungekey.c", "src/mungekey/conf.c", "src/mungekey/key.c"] + \
          ["src/common/%s.c" % x for x in "crypto entropy hkdf mac md rotate xsignal".split()] + \
          ["src/libcommon/%s.c" % x for x in "fd license log str version daemonpipe".split()] + \
          ["src/libmunge/enum.c", "src/libmissing/strlcpy.c", "src/libmissing/strlcat.c"]
REAL_MD = {2: "md5", 3: "sha1", 4: "ripemd160", 5: "sha256", 6: "sha512"}


def hx(b):
    return b.hex() if b else "-"


def unhx(s):
    return b"" if s == "-" else bytes.fromhex(s)

# ------------------------------------------------------------------------------------------ references (oracle side)

def toy_mix(h, b):
    return (((h ^ (h >> 31)) ^ b) * 1099511628211) & M64


def toy_absorb(h, bs):
    for b in bs:
        h = toy_mix(h, b)
    return h


def toy_squeeze(h, n):
    out = bytearray()
    for _ in range(n):
        h = toy_mix(h, 0xa5)
        out.append((h >> 40) & 255)
    return bytes(out)


TOY_SEED = 14695981039346656037


def toy_mac(n):
    def f(key, msg):
        h = toy_mix(toy_mix(toy_absorb(TOY_SEED, key), 0x80), len(key) & 255)
        return toy_squeeze(toy_absorb(h, msg), n)
    return f


def toy_md(alg):
    return lambda x: toy_squeeze(toy_absorb(toy_mix(TOY_SEED, alg & 255), x), 16 + alg)


def real_mac(name):
    return lambda key, msg: hmac.new(key, msg, name).digest()


def ref_hkdf(hm, hashlen, salt, ikm, info, L):
    """RFC 5869 section 2, straight from the text."""
    if salt is None:
        salt = bytes(hashlen)
    prk = hm(salt, ikm)
    n = -(-L // hashlen)
    t, okm = b"", b""
    for i in range(1, n + 1):
        t = hm(prk, t + info + bytes([i & 255]))
        okm += t
    return okm[:L]


def md_available(name):
    try:
        hmac.new(b"k", b"m", name).digest()
        return True
    except Exception:
        return False

# RFC 5869 appendix A: (hash, IKM, salt, info, L, OKM)
RFC_VECTORS = [
    ("sha256", "0b" * 22, "000102030405060708090a0b0c", "f0f1f2f3f4f5f6f7f8f9", 42,
     "3cb25f25faacd57a90434f64d0362f2a2d2d0a90cf1a5a4c5db02d56ecc4c5bf34007208d5b887185865"),
    ("sha256", bytes(range(0x00, 0x50)).hex(), bytes(range(0x60, 0xb0)).hex(), bytes(range(0xb0, 0x100)).hex(), 82,
     "b11e398dc80327a1c8e7f78c596a49344f012eda2d4efad8a050cc4c19afa97c59045a99cac7827271cb41c65e590e09da3275600c2f09b8367793a9aca3db71cc30c58179ec3e87c14c01d5c1f3434f1d87"),
    ("sha256", "0b" * 22, "-", "-", 42,
     "8da4e775a563c18f715f802a063c5a31b8a11f5c5ee1879ec3454e5f3c738d2d9d201395faa4b61a96c8"),
    ("sha1", "0b" * 11, "000102030405060708090a0b0c", "f0f1f2f3f4f5f6f7f8f9", 42,
     "085a01ea1b10f36933068b56efa5ad81a4f14b822f5b091568a9cdd4f155fda2c22e422478d305f3f896"),
    ("sha1", bytes(range(0x00, 0x50)).hex(), bytes(range(0x60, 0xb0)).hex(), bytes(range(0xb0, 0x100)).hex(), 82,
     "0bd770a74d1160f7c9f12cd5912a06ebff6adcae899d92191fe4305673ba2ffe8fa3f1a4e5ad79f3f334b3b202b2173c486ea37ce3d397ed034c7f9dfeb15c5e927336d0441f4c4300e2cff0d0900b52d3b4"),
    ("sha1", "0b" * 22, "-", "-", 42,
     "0ac1af7002b3d761d1e55298da9d0506b9ae52057220a306e07b6b87e8df21d0ea00033de03984d34918"),
    ("sha1", "0c" * 22, "N", "-", 42,
     "2c91117204d745f3500d636a62f64f0ab3bae548aa53d423b0d1f27ebba6f5e5673a081d70cce7acfc48"),
]

# ------------------------------------------------------------------------------------------ the property oracle

class Oracle:
    """Decides from an op line and the implementation's output line alone whether C20's statement is violated."""
    def __init__(self, consts):
        self.c = consts
        self.kat = {}          # op line -> expected okm (RFC 5869 appendix A)

    def mac_of(self, variant, md):
        if variant == "toy":
            return toy_mac(md), md
        name = REAL_MD.get(md)
        if name is None or not md_available(name):
            return None, None
        return real_mac(name), hashlib.new(name).digest_size

    def __call__(self, op, out):
        try:
            return self.judge(op, out)
        except Exception as e:
            return "unparsable harness output (%r)" % (e,)

    def judge(self, op, out):
        w = op.split()
        kv = dict(x.split("=", 1) for x in out.split() if "=" in x)
        kind = w[1]
        if out.startswith("crash") or out.startswith("runner-error") or out.startswith("harness-error") or out == "bad-op":
            return "abnormal outcome: %s" % out[:300]
        if kind in ("toy", "real"):
            md = int(w[2]); salt = None if w[3] == "N" else unhx(w[3]); ikm = unhx(w[4])
            info = b"" if w[5] in ("N", "-") else unhx(w[5]); L = int(w[6])
            hm, hl = self.mac_of(kind, md)
            if hm is None:
                return None
            if kv.get("rc") != "0":
                return "hkdf failed (rc=%s) on valid arguments" % kv.get("rc")
            n = int(kv["n"]); okm = unhx(kv["okm"])
            if n > L or len(okm) != n:
                return "hkdf reports %d bytes for a %d-byte destination" % (n, L)
            if L <= 255 * hl:
                exp = ref_hkdf(hm, hl, salt, ikm, info, L)
                if n != L:
                    return "hkdf produced %d bytes, %d requested (L <= 255*HashLen)" % (n, L)
                if okm != exp:
                    d = next(i for i in range(L) if okm[i] != exp[i])
                    return "hkdf output differs from RFC 5869 (first difference at octet %d = block %d)" % (d, d // hl + 1)
                if op in self.kat and okm.hex() != self.kat[op]:
                    return "hkdf output differs from the RFC 5869 appendix A test vector"
            return None
        if kind == "bits":
            return self.bits(w[2], kv, out)
        if kind in ("mk", "bin"):
            return self.mk(w, kv, out)
        if kind in ("sub", "subf", "subpair"):
            return self.sub(w, kv, out)
        if kind == "e2e":
            n, off, x = int(w[2]), int(w[3]), int(w[4])
            if n < 32:
                return None if out.startswith("daemon-refused a=down") else "munged started on a %d-byte key file" % n
            if out.startswith("daemon-refused"):
                return "munged refused a %d-byte key file (%s)" % (n, out)
            if kv.get("enc") != "0":
                return "encode failed (%s)" % out
            if x == 0 and kv.get("dec") != "0":
                return "two daemons with byte-identical %d-byte key files do not accept each other's credentials (%s)" % (n, out)
            if x != 0 and kv.get("dec") == "0":
                return "two daemons whose %d-byte key files differ in byte %d accept each other's credentials" % (n, off)
            return None
        return None

    def want_bytes(self, b):
        """the statement: 256..8192 bits, rounded up to whole bytes; anything else refused; default as probed"""
        if b == "-":
            return self.c["KEY_LEN_DFL_BYTES"]
        l = int(b)
        return -(-l // 8) if 256 <= l <= 8192 else None

    def bits(self, b, kv, out):
        want = self.want_bytes(b)
        if want is None:
            return None if out == "refused" else "--bits %s is outside 256..8192 but was accepted (%s)" % (b, out)
        if out == "refused":
            return "--bits %s is within 256..8192 but was refused" % b
        if int(kv["bytes"]) != want:
            return "--bits %s gives %s bytes, expected %d (rounded up to whole bytes)" % (b, kv["bytes"], want)
        if not (32 <= int(kv["bytes"]) <= 1024):
            return "key length %s bytes outside 32..1024" % kv["bytes"]
        return None

    def mk(self, w, kv, out):
        kind, force, um, pre, bits = w[1], w[2] == "1", int(w[3], 8), w[4], w[5]
        prem, prec = (None, None) if pre == "none" else (int(pre.split(":")[0], 8), unhx(pre.split(":")[1]))
        want = self.want_bytes(bits)
        ok = kv.get("ok") == "1"
        exists = kv.get("exists") == "1"
        def unchanged():
            if prec is None:
                return None if not exists else "a file was left behind although mungekey failed"
            if not exists:
                return "the existing key file was removed"
            same = (unhx(kv["content"]) == prec) if "content" in kv else kv.get("same") == "1"
            if not same or int(kv["size"]) != len(prec):
                return "the existing key file was overwritten without --force"
            if int(kv["mode"], 8) != prem:
                return "the mode of the existing key file was changed without --force"
            return None
        if want is None:
            if ok:
                return "--bits %s accepted (outside 256..8192)" % bits
            return unchanged()
        if kind == "mk" and w[6].startswith("F") and not (prec is not None and not force):
            which = "the kernel entropy read" if w[6][1] == "1" else "the salt read"
            if ok:
                return "mungekey reported success although %s failed (a key not derived from kernel entropy)" % which
            if exists and int(kv.get("size", "0")) != 0:
                return "mungekey wrote %s bytes to the key file although %s failed" % (kv.get("size"), which)
            return None
        if prec is not None and not force:
            if ok:
                r = unchanged()
                return "mungekey succeeded on an existing file without --force" + (": " + r if r else "")
            return unchanged()
        if not ok:
            return "mungekey failed to create the key (%s)" % out[:120]
        if not exists:
            return "mungekey reported success but there is no key file"
        if int(kv["size"]) != want:
            return "key file has %s bytes, requested %d" % (kv["size"], want)
        mode = int(kv["mode"], 8)
        if mode & 0o077:
            return "key file mode %04o grants permissions to group/others (umask %04o)" % (mode, um)
        if prec is not None and (kv.get("same") == "1" or ("content" in kv and unhx(kv["content"]) == prec)):
            return "--force did not replace the key"
        if kind == "mk" and "content" in kv:
            variant = w[8]
            md = self.c["DEFAULT_MAC"]
            hm, hl = self.mac_of(variant, md)
            if hm is not None:
                ikm = toy_squeeze(int(w[6]) & M64, self.c["ENTROPY_BYTES"])
                salt = (unhx(w[7]) + bytes(4))[:4]
                info = b"MUNGEKEY:%s:%d:" % (self.c["DEFAULT_MAC_NAME"].encode(), want * 8)
                if unhx(kv["content"]) != ref_hkdf(hm, hl, salt, ikm, info, want):
                    return "key bytes are not RFC 5869 HKDF(%s) of the entropy read with info %r" % (self.c["DEFAULT_MAC_NAME"], info)
        return None

    def sub_expect(self, variant, f, fatal):
        H = toy_md(self.c["MAC_SHA1"]) if variant == "toy" else (lambda x: hashlib.sha1(x).digest())
        if fatal or len(f) < 32:
            return None
        return H(f + b"1"), H(f + b"2")

    def sub(self, w, kv, out):
        kind, variant = w[1], w[-1]
        if kind == "subpair":
            f = unhx(w[2]); off = int(w[3]); x = int(w[4])
            g = bytearray(f); g[off] ^= x
            ea, eb = self.sub_expect(variant, f, False), self.sub_expect(variant, bytes(g), False)
            a = (unhx(kv["a:dek_key"]), unhx(kv["a:mac_key"])) if "a:dek_key" in kv else None
            b = (unhx(kv["b:dek_key"]), unhx(kv["b:mac_key"])) if "b:dek_key" in kv else None
            if ea is not None and a is not None and b is not None:
                if x != 0 and (a[0] == b[0] or a[1] == b[1]):
                    return "key files differing in byte %d of %d yield an identical subkey" % (off, len(f))
                if x == 0 and a != b:
                    return "identical key files yield different subkeys"
            for got, exp in ((a, ea), (b, eb)):
                r = self.cmp_sub(got, exp, len(f))
                if r:
                    return r
            return None
        if kind == "subf":
            f, fatal = unhx(w[2]), False
        else:
            f, fatal = b"", False
            if w[2] != "-":
                for ev in w[2].split(","):
                    if ev[0] == "d":
                        f += unhx(ev[1:])
                    elif ev[0] == "z":
                        break
                    elif ev[0] == "e" and int(ev[1:]) != self.c["EINTR"]:
                        fatal = True
                        break
        got = (unhx(kv["dek_key"]), unhx(kv["mac_key"])) if "dek_key" in kv else None
        return self.cmp_sub(got, self.sub_expect(variant, f, fatal), len(f), fatal)

    def cmp_sub(self, got, exp, n, fatal=False):
        if exp is None:
            if got is not None:
                return "a key file of %d bytes was accepted (minimum 32)" % n if not fatal else "subkeys were computed although reading the key file failed"
            return None
        if got is None:
            return "a key file of %d bytes was refused" % n
        if got[0] != exp[0]:
            return "cipher subkey is not H(whole %d-byte file || \"1\")" % n
        if got[1] != exp[1]:
            return "MAC subkey is not H(whole %d-byte file || \"2\")" % n
        return None

# ------------------------------------------------------------------------------------------ op generators

def rb(r, n):
    return bytes(r.randrange(256) for _ in range(n))


def gen_hkdf(ctx, variant, mds, sizes):
    r = ctx.rng
    thorough = ctx.tier == "thorough"
    ops = []
    def op(md, salt, ikm, info, L):
        ops.append("hkdf %s %d %s %s %s %d" % (variant, md, "N" if salt is None else hx(salt), hx(ikm),
                                                "N" if info is None else hx(info), L))
    def rnd_salt(hl):
        q = r.random()
        return None if q < .3 else b"" if q < .4 else rb(r, hl) if q < .7 else rb(r, r.randrange(1, 80))
    def rnd_info():
        q = r.random()
        return None if q < .2 else b"" if q < .35 else rb(r, r.randrange(1, 40)) if q < .9 else rb(r, r.randrange(40, 300))
    for md in mds:
        hl = sizes[md]
        cap = 255 * hl
        Ls = set()
        if hl <= 2 or (thorough and hl <= 5):
            Ls |= set(range(0, cap + 2 * hl + 3))
        else:
            ks = list(range(0, 6)) + [126, 127, 128, 129, 253, 254, 255, 256, 257] if not thorough else list(range(0, 259))
            if hl <= 5:
                ks = list(range(0, 259))
            for k in ks:
                for d in (-1, 0, 1):
                    if k * hl + d >= 0:
                        Ls.add(k * hl + d)
            Ls |= {cap + hl, cap + 1000}
        for L in sorted(Ls):
            op(md, rnd_salt(hl), rb(r, r.choice([0, 1, 16, 22, 32, 80])), rnd_info(), L)
            ctx.dist("%s_hkdf_hashlen_%d" % (variant, hl))
        # every salt/info combination at a few lengths
        for salt in (None, b"", rb(r, hl)):
            for info in (None, b"", rb(r, 10)):
                for L in (1, hl, hl + 1, 3 * hl):
                    op(md, salt, rb(r, 22), info, L)
        for _ in range(60 if not thorough else 600):
            op(md, rnd_salt(hl), rb(r, r.randrange(0, 100)), rnd_info(), r.randrange(0, min(cap, 40 * hl) + 1))
            ctx.dist("%s_hkdf_random" % variant)
    return ops


def gen_bits(ctx):
    vals = list(range(-40, 8400)) if ctx.tier == "thorough" else list(range(200, 8260)) + list(range(-10, 20))
    vals += [2 ** 31 - 1, 2 ** 31, -2 ** 31, -2 ** 31 - 1, 2 ** 32 + 256, 2 ** 32 + 8192, 2 ** 63 - 1, -2 ** 63, 65536, 10 ** 9]
    ops = ["hkdf bits -"] + ["hkdf bits %d" % v for v in vals]
    ctx.dist("bits_values", len(ops))
    return ops


def gen_mk(ctx, kind, n_random, variant=None, efail=False):
    """(force, umask, pre-existing file, --bits) sweeps: every umask 0000..0777 once, then random combinations"""
    r = ctx.rng
    ops = []
    good = [256, 257, 263, 264, 265, 511, 512, 1024, 2048, 4095, 4096, 8185, 8191, 8192]
    bad = [0, 1, 8, 128, 255, 8193, 8200, 16384, -256]
    def op(force, um, pre, bits):
        pres = "none" if pre is None else "%04o:%s" % (pre[0], hx(pre[1]))
        if kind == "mk":
            ops.append("hkdf mk %d %04o %s %s %d %s %s" % (force, um, pres, bits, r.randrange(1 << 62), hx(rb(r, 4)), variant))
        else:
            ops.append("hkdf bin %d %04o %s %s" % (force, um, pres, bits))
        ctx.dist("%s_%s_%s_%s" % (kind, "force" if force else "noforce", "existing" if pre else "fresh",
                                 "default" if bits == "-" else "goodbits" if 256 <= int(bits) <= 8192 else "badbits"))
    def rnd_pre():
        return (r.choice([0o600, 0o644, 0o400, 0o666, 0o777, 0o000]), rb(r, r.choice([0, 1, 32, 128, 129, 1500])))
    ums = list(range(512)) if kind == "mk" or ctx.tier == "thorough" else [0, 0o002, 0o007, 0o020, 0o022, 0o027, 0o070, 0o077, 0o177, 0o200, 0o277, 0o400, 0o577, 0o700, 0o777] + \
        [r.randrange(512) for _ in range(25)]
    for i, um in enumerate(ums):
        q = i % 4
        op(1 if q == 3 else 0, um, rnd_pre() if q == 3 else None, r.choice(good + ["-"]) if q else good[i % len(good)])
    for _ in range(n_random):
        q = r.random()
        bits = r.choice(good) if q < .6 else "-" if q < .7 else r.choice(bad) if q < .85 else r.randrange(256, 8193)
        pre = rnd_pre() if r.random() < .6 else None
        op(1 if r.random() < .45 else 0, r.randrange(512), pre, bits)
    if efail and kind == "mk":
        # a machine without an entropy source (the kernel entropy read, or the salt read, reports failure): no key may come out
        for i in range(24):
            w = ops[r.randrange(len(ops))].split()
            if w[5] != "-" and not (256 <= int(w[5]) <= 8192):
                w[5] = "-"
            w[6] = "F%d:%s" % (1 + i % 2, w[6])
            ops.append(" ".join(w))
            ctx.dist("mk_entropy_failure")
    return ops


def chunkings(r, f, maxc):
    """a random read chunking of f: non-empty chunks of at most maxc bytes, sprinkled with EINTRs"""
    evs, i = [], 0
    while i < len(f):
        if r.random() < .08:
            evs.append("i")
        k = min(len(f) - i, r.choice([1, 2, 7, 31, 32, 33, 500, maxc - 1, maxc, maxc]) if r.random() < .7 else r.randrange(1, maxc + 1))
        evs.append("d" + f[i:i + k].hex())
        i += k
    return evs


def gen_sub(ctx, variant, readbuf):
    r = ctx.rng
    thorough = ctx.tier == "thorough"
    ops = []
    def script(evs):
        ops.append("hkdf sub %s %s" % (",".join(evs) if evs else "-", variant))
    # every length around the minimum, three chunkings each
    for n in list(range(0, 72)) + [127, 128, 129, readbuf - 1, readbuf, readbuf + 1, 2 * readbuf - 1, 2 * readbuf, 2 * readbuf + 1, 3000, 8191, 8192, 8193]:
        f = rb(r, n)
        script(chunkings(r, f, readbuf) + ["z"])
        script(chunkings(r, f, readbuf) + (["z"] if r.random() < .5 else []))
        script((["d" + f.hex()] if 0 < n <= readbuf else chunkings(r, f, readbuf)) + ["z"])
        ops.append("hkdf subf %s %s" % (hx(f), variant))
        ctx.dist("sub_len_%s" % ("lt32" if n < 32 else "32-1024" if n <= 1024 else "gt1024"), 4)
    # all single-byte chunkings of a 40-byte file, a fatal read error at every position
    f = rb(r, 40)
    script(["d%02x" % b for b in f] + ["z"])
    for k in range(0, 41, 1 if thorough else 5):
        script(["d" + f[:k].hex()] * (1 if k else 0) + ["e5"] + (["d" + f[k:].hex()] if k < 40 else []) + ["z"])
        script(["d" + f[:k].hex()] * (1 if k else 0) + ["i", "i"] + (["d" + f[k:].hex()] if k < 40 else []) + ["z"])
        ctx.dist("sub_read_errors", 2)
    # data after an early end-of-file must not count
    script(["d" + rb(r, 20).hex(), "z", "d" + rb(r, 40).hex(), "z"])
    # random
    for _ in range(150 if not thorough else 2500):
        n = r.choice([31, 32, 33, 64, 128, 1024, 1025, 4096]) if r.random() < .5 else r.randrange(0, 6000)
        script(chunkings(r, rb(r, n), readbuf) + ["z"])
        ctx.dist("sub_random")
    # pairs of files differing in one byte (or not at all) at sampled offsets up to 8 KiB, incl. first and last byte
    for n in [32, 33, 128, 1024, 1025, 2048, 8192]:
        f = rb(r, n)
        offs = {0, n - 1, n // 2, min(n - 1, readbuf - 1), min(n - 1, readbuf)} | {r.randrange(n) for _ in range(6 if not thorough else 60)}
        for off in sorted(offs):
            ops.append("hkdf subpair %s %d %d %s" % (hx(f), off, 1 << r.randrange(8), variant))
            ctx.dist("subpair_single_byte")
        ops.append("hkdf subpair %s %d 0 %s" % (hx(f), n - 1, variant))
    return ops

# ------------------------------------------------------------------------------------------ running

def oracle_stream(ctx, name, lines, cmd, oracle, env=None, what=""):
    """A stream judged by the property oracle alone (real-crypto variants; or any stream when the model driver
    could not be built)."""
    if not lines:
        return True
    rc, out, err = cbuild.run_lines(cmd, lines, env=env)
    ctx.count(len(lines))
    st = ctx.cov["streams"].setdefault(name, {"ops": 0, "agree": 0})
    st["ops"] += len(lines)
    bad = None
    for i, o in enumerate(out[:len(lines)]):
        r = oracle(lines[i], o)
        if r:
            bad = (i, r, o)
            break
    st["agree"] += bad[0] if bad else min(len(out), len(lines))
    crashed = rc != 0 or len(out) < len(lines)
    ctx.obligation("oracle", "stream %s: %d ops, property oracle on implementation outputs" % (name, len(lines)), bad is None and not crashed,
                   "" if bad is None and not crashed else ("op `%s` -> %s (%s)" % (lines[bad[0]][:200], bad[2][:200], bad[1]) if bad
                                                          else "rc=%d after %d/%d lines: %s" % (rc, len(out), len(lines), err[-1500:])))
    if bad:
        i, r, o = bad
        ctx.violation("%s: %s" % (what or name, r), {"stream": name, "ops": [lines[i]], "impl_output": o, "reason": r}, found_input=True)
        return False
    if crashed:
        i = min(len(out), len(lines) - 1)
        san = "sanitizer/crash" if ("Sanitizer" in err or "runtime error" in err) else "abnormal exit"
        ctx.violation("%s: implementation %s on input" % (what or name, san),
                      {"stream": name, "ops": [lines[i]], "impl_output": "(rc=%d) %s" % (rc, err[-3000:])}, found_input=True)
        return False
    return True


def stream(ctx, name, lines, h, drv, oracle, env=None, what="", model=True):
    if h is None:
        return
    for o in lines:
        ctx.distinct(o)
    if drv and model:
        judge.run_and_judge(ctx, name, lines, h if isinstance(h, list) else [h], [drv], oracle=oracle, env=env, what=what)
    else:
        oracle_stream(ctx, name, lines, h if isinstance(h, list) else [h], oracle, env=env, what=what)


MISSING = ["src/libmissing/strlcpy.c", "src/libmissing/strlcat.c"]


def repo_glob(ctx, pat, excl=()):
    return sorted("src/" + os.path.relpath(p, os.path.join(ctx.repo, "src")) for p in glob.glob(os.path.join(ctx.repo, "src", pat))
                  if not p.endswith("_test.c") and os.path.basename(p) not in excl)


def gen_e2e(ctx):
    """two real daemons: byte-identical keys, and keys differing in one byte at sampled offsets incl. first / last byte of 8 KiB"""
    r = ctx.rng
    ops = []
    for n in (8192, 1024, 32):
        ops.append("hkdf e2e %d 0 0" % n)
        for off in sorted({0, n - 1, n // 2, min(n - 1, 1023), min(n - 1, 1024)} | {r.randrange(n) for _ in range(3)}):
            ops.append("hkdf e2e %d %d %d" % (n, off, 1 << r.randrange(8)))
        ctx.dist("e2e_keylen_%d" % n, len(ops))
    ops.append("hkdf e2e 31 0 0")
    return ops


def build_all(ctx, want):
    """the five executables, built concurrently from the working tree"""
    res = {}
    gc = dict(extra=["-ffunction-sections", "-fdata-sections"])
    jobs = {
        "kt": lambda: cbuild.build(ctx, "h_hkdf_key_toy", KEY_SRC, defines=["HX_TOY", "HX_PART_KEY"]),
        "kr": lambda: cbuild.build(ctx, "h_hkdf_key_real", KEY_SRC + REAL_SRC, defines=["HX_REAL", "HX_PART_KEY"], libs=["-lcrypto"]),
        "st": lambda: cbuild.build(ctx, "h_hkdf_sub_toy", ["h_hkdf.c", "src/libcommon/fd.c"], defines=["HX_TOY", "HX_PART_SUB"], libs=["-Wl,--gc-sections"], **gc),
        "sr": lambda: cbuild.build(ctx, "h_hkdf_sub_real", ["h_hkdf.c", "src/libcommon/fd.c", "src/common/md.c", "src/common/crypto.c"],
                                   defines=["HX_REAL", "HX_PART_SUB"], libs=["-Wl,--gc-sections", "-lcrypto"], **gc),
        "bin": lambda: cbuild.build(ctx, "mungekey", BIN_SRC, libs=SANX + ["-lcrypto"], sanitize=False, extra=SANX),
        "munged": lambda: cbuild.build(ctx, "munged", repo_glob(ctx, "munged/*.c") + repo_glob(ctx, "common/*.c", ("hkdf.c",)) +
                                       repo_glob(ctx, "libcommon/*.c") + repo_glob(ctx, "libmunge/*.c") + MISSING,
                                       libs=SANX + ["-lbz2", "-lz", "-lcrypto"], sanitize=False, extra=SANX),
        "e2e": lambda: cbuild.build(ctx, "h_hkdf_e2e", ["h_hkdf.c"] + repo_glob(ctx, "libmunge/*.c") + repo_glob(ctx, "libcommon/*.c") + MISSING,
                                    defines=["HX_PART_E2E"]),
    }
    ths = []
    for k in want:
        t = threading.Thread(target=lambda k=k: res.__setitem__(k, jobs[k]()))
        t.start(); ths.append(t)
    for t in ths:
        t.join()
    return res


STREAMS = {  # stream name -> (executable key, uses the model driver?)
    "hkdf-toy": ("kt", True), "hkdf-real": ("kr", False), "bits": ("kt", True), "mk-toy": ("kt", True), "mk-real": ("kr", False),
    "sub-toy": ("st", True), "sub-real": ("sr", False), "mungekey-binary": ("bin", True), "two-daemons": ("e2e", False),
}


def run(ctx):
    ctx.rule = ("op lines for the real hkdf.c / mungekey conf.c+key.c / munged create_subkeys under ASan+UBSan and for the Lean model: HKDF for every output "
                "length 0..255*HashLen+2 at HashLen 1 and 2 and around every multiple of HashLen up to the cap for the other digests (toy MAC byte-exact "
                "against the model; real HMAC md5/sha1/ripemd160/sha256/sha512 against a python RFC 5869 reference incl. the RFC's appendix A vectors), every "
                "--bits value 200..8260, all 512 umasks x key sizes x --force x pre-existing file through create_key with deterministic entropy, the rebuilt "
                "mungekey binary under a umask x bits sweep, create_subkeys over scripted read() chunkings (EINTR, errors, early EOF) for every file length "
                "0..71 and around 1 KiB / 2 KiB / 8 KiB and single-byte-difference file pairs; distinct = distinct op lines")
    ctx.assumptions += [
        "HMAC and the message digests are parameters of the model: the theorems hold for every mac with |mac k m| = HashLen and every streaming digest with "
        "update (update s a) b = update s (a ++ b); OpenSSL's implementations are tied by the python reference only",
        "two key files yield different subkeys only under the named collision-freeness hypothesis of `same_key_iff` (a hypothesis of the theorem, not an axiom)",
        "POSIX semantics of open(O_CREAT|O_EXCL), unlink and the creation mask are as written into `Mungekey.posixOpen` (validated against the kernel by the "
        "create_key and mungekey-binary streams)",
        "option syntax (strtol) is not modelled: --bits values are decimal integers within long",
        "the key directory checks of _conf_open_keyfile belong to C16 and are stubbed as `secure` in the create_subkeys harness",
        "key files are shorter than 2 GiB (n_total is an int)",
    ]
    g_hkdf.generate(ctx)
    consts = getattr(ctx, "c20_consts", None)
    if consts is None:
        return
    oracle = Oracle(consts)
    ctx.cov["generated"] = {k: (v if not isinstance(v, dict) else {a: (b if isinstance(b, (int, str, bool)) else repr(b)) for a, b in v.items()})
                            for k, v in getattr(ctx, "c20_items", {}).items()}
    if ctx.replay_in:
        return replay(ctx, oracle)
    # _create_key_secret of mungekey, translated: no entropy / any failing step => no key; success => every step, in order
    if g_key.generate(ctx):
        leanlib.check_props(ctx, "C20Key")
    leanlib.check_props(ctx, "C20")
    drv = leanlib.driver(ctx)
    thorough = ctx.tier == "thorough"
    ex = build_all(ctx, ["kt", "kr", "st", "sr", "bin"] + (["munged", "e2e"] if thorough else []))
    env = {"HX_DIR": ctx.work}
    readbuf = ctx.c20_items["subkeys"]["readBuf"]
    toy_sizes = {m: m for m in range(1, 256)}
    real_sizes = {m: s for m, s in enumerate(consts["MAC_SIZES"]) if s > 0 and m in REAL_MD and md_available(REAL_MD[m])}
    ctx.cov["real_digests"] = {REAL_MD[m]: s for m, s in real_sizes.items()}
    # HKDF
    ops = gen_hkdf(ctx, "toy", [1, 2, 3, 5, 16, 20, 32, 64] + ([4, 7, 48] if thorough else []), toy_sizes)
    stream(ctx, "hkdf-toy", ops, ex.get("kt"), drv, oracle, env, "HKDF (real hkdf.c over the toy MAC)")
    ctx.sample(ops[300]); ctx.sample(ops[-1])
    ops = []
    for name, ikm, salt, info, L, okm in RFC_VECTORS:
        md = [m for m, n in REAL_MD.items() if n == name][0]
        line = "hkdf real %d %s %s %s %d" % (md, salt, ikm, info, L)
        oracle.kat[line] = okm
        ops.append(line)
    ops += gen_hkdf(ctx, "real", sorted(real_sizes), real_sizes)
    stream(ctx, "hkdf-real", ops, ex.get("kr"), None, oracle, env, "HKDF (real hkdf.c over OpenSSL HMAC)", model=False)
    ctx.sample(ops[0])
    # --bits
    ops = gen_bits(ctx)
    stream(ctx, "bits", ops, ex.get("kt"), drv, oracle, env, "mungekey --bits")
    ctx.sample(ops[70])
    # create_key in process
    ops = gen_mk(ctx, "mk", 400 if not thorough else 6000, "toy")
    stream(ctx, "mk-toy", ops, ex.get("kt"), drv, oracle, env, "mungekey create_key (toy MAC)")
    ctx.sample(ops[3])
    ops = gen_mk(ctx, "mk", 150 if not thorough else 3000, "real", efail=True)
    stream(ctx, "mk-real", ops, ex.get("kr"), None, oracle, env, "mungekey create_key (OpenSSL)", model=False)
    # create_subkeys
    ops = gen_sub(ctx, "toy", readbuf)
    stream(ctx, "sub-toy", ops, ex.get("st"), drv, oracle, env, "munged create_subkeys (toy digest)")
    ctx.sample(ops[130])
    ops = gen_sub(ctx, "real", readbuf)
    stream(ctx, "sub-real", ops, ex.get("sr"), None, oracle, env, "munged create_subkeys (OpenSSL)", model=False)
    # the real binary
    if ex.get("bin"):
        ops = gen_mk(ctx, "bin", 60 if not thorough else 1500)
        stream(ctx, "mungekey-binary", ops, [sys.executable, os.path.abspath(__file__), "--mungekey", ex["bin"], ctx.work], drv, oracle, env,
               "mungekey binary")
        ctx.sample(ops[5])
    # thorough: two real daemons end to end
    if thorough and ex.get("munged") and ex.get("e2e"):
        ops = gen_e2e(ctx)
        stream(ctx, "two-daemons", ops, [sys.executable, os.path.abspath(__file__), "--e2e", ex["munged"], ex["e2e"], ctx.work], None, oracle, env,
               "two munged daemons (encode at one, decode at the other)", model=False)
        ctx.sample(ops[1])


def replay(ctx, oracle):
    rep = json.load(open(ctx.replay_in))
    ops = rep.get("ops") or []
    name = rep.get("stream") or ""
    if not ops or name not in STREAMS:
        ctx.log("replay file names no op stream (%r): re-running the whole check" % name)
        ctx.replay_in = None
        return run(ctx)
    key, model = STREAMS[name]
    drv = leanlib.driver(ctx) if model else None
    ex = build_all(ctx, [key] + (["munged"] if key == "e2e" else []))
    h = ex.get(key)
    if key == "bin" and h:
        h = [sys.executable, os.path.abspath(__file__), "--mungekey", h, ctx.work]
    if key == "e2e" and h and ex.get("munged"):
        h = [sys.executable, os.path.abspath(__file__), "--e2e", ex["munged"], h, ctx.work]
    for line in ops:
        if line.startswith("hkdf real"):
            for name_, ikm, salt, info, L, okm in RFC_VECTORS:
                md = [m for m, n in REAL_MD.items() if n == name_][0]
                oracle.kat["hkdf real %d %s %s %s %d" % (md, salt, ikm, info, L)] = okm
    stream(ctx, name, ops, h, drv, oracle, {"HX_DIR": ctx.work}, "replay of " + name, model=model)
