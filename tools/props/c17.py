"""C17 - supplementary-group answers equal the group and user databases.

Model: lean/Munge/Model/Gids.lean over lean/Munge/Gen/Gids.lean (regenerated from src/munged/gids.c, xgetgr.c, xgetpw.c
by tools/gen/g_gids.py); theorems: lean/Munge/Props/C17.lean; correspondence: harness/h_gids.c (#includes the real
gids.c; real hash.c, xgetgr.c, xgetpw.c; scripted getgrent_r/getpwnam_r/stat/time/gettimeofday and timer queue),
built twice: as configured ("gnu") and with -DHAVE_GETGRENT_R_ERANGE_BROKEN=1 ("eb", the AIX/SunOS code path in which
xgetgrent hands ERANGE to _gids_map_create and the restart logic there is live).

Scenario line:   gids <gnu|eb> <step> ...          (one output token per step)
  C:<interval>:<dostat>      gids_create                                   -> C[<timer events>] | C-
  E:<now>:<mtime|x>          clock, mtime of the group file (x: stat fails) -> E
  D:<groups>:<passwd>        databases                                      -> D
       groups  = scan|scan|...        (the i-th setgrent of an update reads scan i; the last one repeats); "-" = none
       scan    = item;item;...        item = g<gid>=<name>,<name>[@need][!eintr]  |  e<errno>
       passwd  = name=resp/resp/...;...   resp = <uid>[@need] | e<rv>    (one resp per getpwnam_r call, last repeats)
       "~" is the empty name; names not listed do not exist
  T                          fire the oldest pending timer                  -> T<setgrent calls>.<last gr buflen>.<last pw buflen>[events]{L answers} | T-
  H                          gids_update (SIGHUP)                           -> H[events]
  Q:<uid>.<gid>,...          gids_is_member                                  -> Q<bits>
  L:<k>:<uid>.<gid>,...      lookups from inside the next update, just before the k-th group entry is delivered -> L
  U:<k>                      gids_update from inside the next update, same point                               -> U
  G:<k>                      the k-th gettimeofday of the next update fails                                    -> G
"""
import json, os, re
from ..vlib import leanlib, cbuild, judge
from ..gen import g_gids

LEVEL = "proof"
SENT = 4294967295
ENOENT, ESRCH, EINTR, EIO, EACCES, ENOMEM, ERANGE, EMFILE, ENFILE = 2, 3, 4, 5, 13, 12, 34, 24, 23
SRCS = ["h_gids.c", "src/munged/hash.c", "src/common/xgetgr.c", "src/common/xgetpw.c"]


# ------------------------------------------------------------------ parsing (shared by oracle and generator tests)

def parse_groups(s):
    if s == "-":
        return []
    scans = []
    for sc in s.split("|"):
        items = []
        if sc != "":
            for it in sc.split(";"):
                if it.startswith("e"):
                    items.append(("err", int(it[1:])))
                    continue
                eintr = need = 0
                if "!" in it:
                    it, e = it.split("!"); eintr = int(e)
                if "@" in it:
                    it, n = it.split("@"); need = int(n)
                g, ms = it.split("=")
                mem = [("" if m == "~" else m) for m in ms.split(",")] if ms != "" else []
                items.append(("ent", int(g[1:]), mem, need, eintr))
        scans.append(items)
    return scans


def parse_passwd(s):
    d = {}
    if s == "-":
        return d
    for e in s.split(";"):
        n, rs = e.split("=")
        out = []
        for r in rs.split("/"):
            if r.startswith("e"):
                out.append(("rc", int(r[1:])))
            else:
                u, _, need = r.partition("@")
                out.append(("uid", int(u), int(need or 0)))
        d["" if n == "~" else n] = out
    return d


def parse_pairs(s):
    return [tuple(int(x) for x in p.split(".")) for p in s.split(",")]


# ------------------------------------------------------------------ the property oracle (independent of the Lean model)

def name_truth(resps):
    """-> (uid or None, exact?)  what the user database says about a name, from the scripted getpwnam_r answers.
    exact = every answer is the uid itself or a must-retry code (EINTR / ERANGE): then the daemon has to know it."""
    uids = {r[1] for r in resps if r[0] == "uid"}
    if not uids:
        return None, True
    u = sorted(uids)[0]
    exact = len(uids) == 1 and all(r[0] == "uid" or r[1] in (EINTR, ERANGE) for r in resps)
    return u, exact


def spec_membership(entries, pw):
    """must = pairs that have to be answered yes; may = pairs that may be answered yes (lookup errors fail closed)"""
    must, may = set(), set()
    for gid, mem in entries:
        for n in mem:
            if n == "" or n not in pw:
                continue                      # the empty name cannot be looked up; unknown user
            u, exact = name_truth(pw[n])
            if u is None or u == SENT:        # (uid_t) -1 is the "no such user" value everywhere in munge
                continue
            may.add((u, gid))
            if exact:
                must.add((u, gid))
    return must, may


def read_scan(scan, variant):
    """-> (entries delivered before the end, hard error?, needs another pass?)"""
    ents = []
    for it in scan:
        if it[0] == "err":
            if it[1] in (ENOENT, 0):
                return ents, False, False
            if it[1] == EINTR:
                continue
            if it[1] == ERANGE:
                if variant == "gnu":
                    continue                  # xgetgrent grows its buffer and asks again
                return ents, False, True      # the caller has to start over
            return ents, True, False
        ents.append(it)
    return ents, False, False


class Oracle:
    def __call__(self, op, out):
        try:
            return self.check(op, out)
        except Exception as e:          # malformed output is a finding about the harness, say so
            return "unparsable harness output (%r)" % (e,)

    def check(self, op, out):
        w = op.split()
        if out.startswith("abnormal"):
            return "the implementation crashed or a sanitizer fired: " + out[:300]
        if "fatal=" in out:
            return "the implementation took a fatal-error path (log_errno/log_err): " + out[-40:]
        toks = out.split()
        steps = w[2:]
        if len(toks) != len(steps):
            return "one output token per step expected, got %d for %d" % (len(toks), len(steps))
        variant = w[1]
        alive = False
        interval = 0; dostat = 0
        now = 0; mtime = 0; statfail = False
        scans = []; pw = {}
        must, may = set(), set()          # what the loaded map has to / may contain
        t_last = 0                        # `now` of the last successful load (never loaded: the epoch)
        expect_timer = False
        gtod = 0
        armedL = None
        for st, tk in zip(steps, toks):
            k = st[0]
            if k == "C":
                _, i, d = st.split(":")
                interval, dostat = int(i), int(d)
                alive = interval >= 0
                if alive != tk.startswith("C["):
                    return "gids_create: mapping %s expected for interval %d" % ("enabled" if alive else "disabled", interval)
                expect_timer = alive
            elif k == "E":
                _, n, m = st.split(":")
                now = int(n); statfail = (m == "x"); mtime = 0 if statfail else int(m)
            elif k == "D":
                _, g, p = st.split(":")
                scans = parse_groups(g); pw = parse_passwd(p)
            elif k == "G":
                gtod = int(st[2:])
            elif k == "L":
                _, kk, qs = st.split(":")
                armedL = (int(kk), parse_pairs(qs))
            elif k == "U":
                pass
            elif k == "H":
                if alive:
                    expect_timer = True
            elif k == "Q":
                qs = parse_pairs(st[2:])
                bits = tk[1:]
                if len(bits) != len(qs):
                    return "Q: %d answers for %d queries" % (len(bits), len(qs))
                for (u, g), b in zip(qs, bits):
                    r = self.judge_pair(u, g, b == "1", must, may, alive)
                    if r:
                        return r
            elif k == "T":
                if tk == "T-":
                    if expect_timer:
                        return "no refresh was pending although one was due (start-up, SIGHUP or periodic re-arm)"
                    continue
                m = re.match(r"T(\d+)\.(\d+)\.(\d+)\[([^\]]*)\](?:\{([01-]*)\})?$", tk)
                if not m:
                    return "unparsable T token " + tk
                inits, grlen = int(m.group(1)), int(m.group(2))
                old_must, old_may = must, may
                scanned = inits > 0
                # what this refresh had to do
                newer = (dostat == 0) or statfail or mtime > t_last
                if newer and not scanned and gtod != 1:
                    return ("refresh skipped the scan although the group file is newer than the last load "
                            "(mtime %d, last load %s, stat %s)" % (mtime, t_last, "failed" if statfail else "ok"))
                loaded = False
                if scanned:
                    sc = scans[min(inits, len(scans)) - 1] if scans else []
                    ents, hard, again = read_scan(sc, variant)
                    toobig = [e for e in ents if e[3] > grlen]
                    if hard or gtod == 2:
                        loaded = False
                    elif toobig or again:
                        if variant == "gnu" or inits < 8:
                            return "refresh gave up on a group entry that needs a larger buffer after %d scans (buffer %d)" % (inits, grlen)
                        loaded = False
                    else:
                        loaded = True
                        must, may = spec_membership([(e[1], e[2]) for e in ents], pw)
                        t_last = now
                self.last_refresh = (old_must, old_may, must, may, loaded)
                # lookups made from inside the refresh: the old map or the new map, as a whole
                if armedL is not None:
                    res = m.group(5)
                    if res is None:
                        return "armed lookups missing from the T token"
                    if res != "-":
                        qs = armedL[1]
                        if len(res) != len(qs):
                            return "L: %d answers for %d queries" % (len(res), len(qs))
                        def fits(mu, ma):
                            return all((b == "1") <= ((u, g) in ma) and ((u, g) in mu) <= (b == "1") for (u, g), b in zip(qs, res))
                        if not (fits(old_must, old_may) or fits(must, may)):
                            return ("a lookup concurrent with the refresh saw neither the old nor the new map in full: "
                                    "answers %s for %s" % (res, armedL[1][:8]))
                armedL = None; gtod = 0
                expect_timer = interval > 0
            else:
                return "unknown step " + st
        return None

    @staticmethod
    def judge_pair(u, g, ans, must, may, alive):
        if not alive:
            return "mapping disabled but uid %d was reported a member of gid %d" % (u, g) if ans else None
        if ans and (u, g) not in may:
            return "uid %d reported a member of gid %d, but no entry of the loaded group database with that gid lists a user with that uid" % (u, g)
        if not ans and (u, g) in must:
            return "uid %d not reported a member of gid %d, although the loaded group database lists a user with that uid under that gid" % (u, g)
        return None


# ------------------------------------------------------------------ generation

def enc_groups(scans):
    def item(it):
        if it[0] == "err":
            return "e%d" % it[1]
        _, gid, mem, need, eintr = it
        s = "g%d=%s" % (gid, ",".join(("~" if m == "" else m) for m in mem))
        if need:
            s += "@%d" % need
        if eintr:
            s += "!%d" % eintr
        return s
    if not scans:
        return "-"
    return "|".join(";".join(item(i) for i in sc) for sc in scans)


def enc_passwd(pw):
    def resp(r):
        if r[0] == "rc":
            return "e%d" % r[1]
        return "%d@%d" % (r[1], r[2]) if r[2] else "%d" % r[1]
    if not pw:
        return "-"
    return ";".join("%s=%s" % ("~" if n == "" else n, "/".join(resp(r) for r in rs)) for n, rs in pw.items())


class Gen:
    def __init__(self, ctx, consts):
        self.r = ctx.rng
        self.ctx = ctx
        self.c = consts
        self.names = ["u%d" % i for i in range(40)] + list(consts.get("NAMECOLL", []))[:6] + ["root", "daemon", "x_y", "a", "b"]

    def uid_pool(self):
        r = self.r
        base = r.choice([0, 1, 1000, 65534, 2 ** 31 - 1, 2 ** 31, SENT - 3])
        hs = self.c.get("GID_HASH_SIZE", 2053)
        pool = [base, base + 1, base + 2, base + hs, base + 2 * hs, (base + 7 * hs)]
        # uids in ONE hash slot that are >= 2^31 apart (directory-mapped uids next to ordinary ones): the order on uids must stay
        # a total order there, or a chain stops being sorted and a user's head is duplicated
        k = (2 ** 31) // hs + 1
        pool += [base + k * hs, base + 2 * k * hs - hs, base + (k + 3) * hs]
        return [u % (SENT + 1) for u in pool] + [SENT, 0]

    def gid_pool(self):
        base = self.r.choice([0, 1, 10, 100, 65534, 2 ** 31, SENT - 2])
        return [(base + d) % (SENT + 1) for d in (0, 1, 2, 3, 5, 8)] + [SENT, 0]

    def passwd(self, names, errs=0.0, needs=0.0):
        r = self.r
        pool = self.uid_pool()
        pw = {}
        for n in names:
            q = r.random()
            if q < .12:
                continue                                   # unknown user
            u = r.choice(pool)
            need = 0
            if r.random() < needs:
                need = r.choice([1023, 1024, 1025, 2047, 2048, 2049, 5000, 70000])
            rs = [("uid", u, need)]
            if r.random() < errs:
                e = r.choice([EIO, EMFILE, ENFILE, EACCES, ENOMEM, ESRCH, ENOENT, 0, EINTR, EINTR, ERANGE])
                k = r.randrange(1, 3)
                if r.random() < .5:
                    rs = [("rc", e)] * k + rs              # transient
                elif e not in (EINTR, ERANGE):
                    rs = [("rc", e)]                       # permanent
            pw[n] = rs
        return pw

    def groups(self, names, n_ent=None, needs=0.0, eintr=0.0, dup=0.3):
        r = self.r
        gids = self.gid_pool()
        n_ent = r.randrange(0, 7) if n_ent is None else n_ent
        ents = []
        for _ in range(n_ent):
            gid = r.choice(gids)
            k = r.choice([0, 0, 1, 1, 2, 3, 5, 8])
            mem = [r.choice(names) for _ in range(k)]
            if mem and r.random() < dup:
                mem.append(mem[0])
            if r.random() < .04:
                mem.insert(r.randrange(len(mem) + 1), "")
            need = 0
            if r.random() < needs:
                need = r.choice([1, 1023, 1024, 1025, 2047, 2048, 2049, 4097, 10000, 100000])
            ei = r.randrange(1, 4) if r.random() < eintr else 0
            ents.append(("ent", gid, mem, need, ei))
        if ents and r.random() < dup:
            e = r.choice(ents)
            ents.insert(r.randrange(len(ents) + 1), ("ent", e[1], [r.choice(names)], 0, 0))     # duplicate gid entry
        return ents

    def queries(self, scans, pw, extra=(), cap=40):
        r = self.r
        uids = {rs_[1] for rs in pw.values() for rs_ in rs if rs_[0] == "uid"}
        gids = {it[1] for sc in scans for it in sc if it[0] == "ent"}
        us = set()
        for u in uids:
            us |= {u, (u + 1) % (SENT + 1), (u - 1) % (SENT + 1)}
        gs = set()
        for g in gids:
            gs |= {g, (g + 1) % (SENT + 1), (g - 1) % (SENT + 1)}
        us |= {0, SENT}; gs |= {0, SENT}
        pairs = [(u, g) for u in sorted(us) for g in sorted(gs)]
        # every true pair first (they are the rare ones), then a sample of the rest
        true = set()
        for sc in scans:
            for it in sc:
                if it[0] == "ent":
                    for n in it[2]:
                        for rs_ in pw.get(n, []):
                            if rs_[0] == "uid":
                                true.add((rs_[1], it[1]))
        true = sorted(true)
        r.shuffle(true)
        rest = [p for p in pairs if p not in set(true)]
        r.shuffle(rest)
        qs = list(extra) + true[:cap // 2]
        qs += rest[:max(0, cap - len(qs))]
        r.shuffle(qs)
        return qs or [(0, 0)]

    @staticmethod
    def q(qs):
        return "Q:" + ",".join("%d.%d" % p for p in qs)

    # ---- scenario families
    def basic(self):
        r = self.r
        names = r.sample(self.names, r.randrange(1, 9))
        pw = self.passwd(names)
        sc = self.groups(names)
        self.ctx.dist("basic")
        return "gids %s C:%d:%d E:100:50 D:%s:%s T %s" % (
            r.choice(["gnu", "eb"]), r.choice([0, 1, 60]), r.choice([0, 1]), enc_groups([sc]), enc_passwd(pw), self.q(self.queries([sc], pw)))

    def refresh(self):
        """several rounds of edit / clock / trigger / query"""
        r = self.r
        names = r.sample(self.names, r.randrange(2, 8))
        dostat = r.choice([1, 1, 1, 0])
        interval = r.choice([60, 60, 1, 0])
        steps = ["C:%d:%d" % (interval, dostat)]
        now = 1000
        last = None
        for rnd in range(r.randrange(2, 6)):
            pw = self.passwd(names)
            sc = self.groups(names)
            now += r.choice([0, 1, 5, 100])
            kind = r.choice(["older", "equal", "newer", "newer", "statfail", "future"])
            base = last if last is not None else now
            mt = {"older": base - r.choice([1, 50]), "equal": base, "newer": base + r.choice([1, 2, 90]), "future": now + 1000}.get(kind, 0)
            steps.append("E:%d:%s" % (now, "x" if kind == "statfail" else mt))
            steps.append("D:%s:%s" % (enc_groups([sc]), enc_passwd(pw)))
            if r.random() < .3:
                steps.append("H")
            if r.random() < .12:
                steps.append("G:1")
            steps.append("T")
            if r.random() < .15:
                steps.append("T")
            steps.append(self.q(self.queries([sc], pw, cap=24)))
            last = now
            self.ctx.dist("refresh_round_" + kind)
        return "gids %s %s" % (r.choice(["gnu", "eb"]), " ".join(steps))

    def buffers(self, variant):
        r = self.r
        names = r.sample(self.names, r.randrange(2, 7))
        pw = self.passwd(names, errs=0.15, needs=.5)
        steps = ["C:%d:0" % r.choice([0, 60])]
        if variant == "gnu":
            sc = self.groups(names, needs=.6, eintr=.3)
            if sc and r.random() < .3:
                sc.insert(r.randrange(len(sc) + 1), ("err", r.choice([EINTR, ERANGE])))
            steps += ["D:%s:%s" % (enc_groups([sc]), enc_passwd(pw)), "T", self.q(self.queries([sc], pw, cap=24))]
            # second update: the statics keep the grown sizes
            sc2 = self.groups(names, needs=.6)
            steps += ["D:%s:%s" % (enc_groups([sc2]), enc_passwd(pw)), "T", self.q(self.queries([sc2], pw, cap=16))]
            self.ctx.dist("buffers_gnu")
        else:
            # every restart sees a (possibly) different database
            nsc = r.randrange(1, 5)
            scans = [self.groups(names, needs=.5, eintr=.2, n_ent=r.randrange(1, 5)) for _ in range(nsc)]
            if nsc >= 2 and r.random() < .3:
                s0 = scans[0]
                s0.insert(r.randrange(len(s0) + 1), ("err", ERANGE))
            # the last scan must be readable with what the earlier ones grew the buffer to, or at least eventually
            steps += ["D:%s:%s" % (enc_groups(scans), enc_passwd(pw)), "T", self.q(self.queries(scans, pw, cap=30))]
            if r.random() < .5:
                steps += ["T" if steps[0] != "C:0:0" else "H", "T", self.q(self.queries(scans, pw, cap=12))]
            self.ctx.dist("buffers_eb")
        return "gids %s %s" % (variant, " ".join(steps))

    def failing(self, variant):
        r = self.r
        names = r.sample(self.names, r.randrange(2, 6))
        pw = self.passwd(names)
        good = self.groups(names, n_ent=r.randrange(1, 5))
        bad = self.groups(names, n_ent=r.randrange(1, 5))
        mode = r.choice(["errno", "errno", "gtod"] + (["maxinits"] if variant == "eb" else []))
        steps = ["C:60:0", "D:%s:%s" % (enc_groups([good]), enc_passwd(pw)), "T", self.q(self.queries([good], pw, cap=16))]
        if mode == "errno":
            bad.insert(r.randrange(len(bad) + 1), ("err", r.choice([EIO, ENOMEM, EACCES, EMFILE, 99])))
            steps += ["D:%s:%s" % (enc_groups([bad]), enc_passwd(pw)), "T"]
        elif mode == "gtod":
            steps += ["D:%s:%s" % (enc_groups([bad]), enc_passwd(pw)), "G:1", "T"]
        else:
            big = ("ent", r.choice(self.gid_pool()), [r.choice(names)], 1 << 26, 0)
            bad.insert(r.randrange(len(bad) + 1), big)
            steps += ["D:%s:%s" % (enc_groups([bad]), enc_passwd(pw)), "T"]
        steps.append(self.q(self.queries([good, bad], pw, cap=24)))
        # and it recovers
        steps += ["D:%s:%s" % (enc_groups([good]), enc_passwd(pw)), "T", self.q(self.queries([good, bad], pw, cap=12))]
        self.ctx.dist("failing_" + mode)
        return "gids %s %s" % (variant, " ".join(steps))

    def interleave(self):
        r = self.r
        names = r.sample(self.names, r.randrange(2, 6))
        pw = self.passwd(names)
        old = self.groups(names, n_ent=r.randrange(1, 5))
        new = self.groups(names, n_ent=r.randrange(2, 7))
        qs = self.queries([old, new], pw, cap=16)
        k = r.randrange(1, len(new) + 2)
        steps = ["C:60:1", "E:100:50", "D:%s:%s" % (enc_groups([old]), enc_passwd(pw)), "T",
                 "E:200:150", "D:%s:%s" % (enc_groups([new]), enc_passwd(pw)),
                 "L:%d:%s" % (k, ",".join("%d.%d" % p for p in qs))]
        if r.random() < .4:
            steps.append("U:%d" % r.randrange(1, len(new) + 2))
        if r.random() < .2:
            steps[4] = "E:200:x"
        steps += ["T", self.q(qs), "T", "T", self.q(qs[:6])]
        self.ctx.dist("interleave")
        return "gids %s %s" % (r.choice(["gnu", "eb"]), " ".join(steps))

    def errors(self):
        r = self.r
        names = r.sample(self.names, r.randrange(2, 7))
        pw = self.passwd(names, errs=.6)
        sc = self.groups(names, n_ent=r.randrange(2, 7), dup=.6)
        self.ctx.dist("passwd_errors")
        return "gids %s C:0:0 D:%s:%s T %s" % (r.choice(["gnu", "eb"]), enc_groups([sc]), enc_passwd(pw), self.q(self.queries([sc], pw)))

    def large(self, n):
        r = self.r
        names = ["m%d" % i for i in range(n)]
        base = r.choice([1000, 2 ** 31 - 50])
        hs = self.c.get("GID_HASH_SIZE", 2053)
        pw = {nm: [("uid", (base + (i % 7) * hs + i // 7) % SENT, 0)] for i, nm in enumerate(names) if i % 11 != 3}
        need = 8 * (n + 1) + sum(len(x) + 1 for x in names) + 4
        sc = [("ent", 77, names, need, 0), ("ent", 78, [], 0, 0), ("ent", 76, names[::3], 0, 0), ("ent", 77, names[:5], 0, 0)]
        qs = [(pw[nm][0][1], g) for nm in r.sample(sorted(pw), min(12, len(pw))) for g in (76, 77, 78)]
        self.ctx.dist("large_group_%d" % n)
        return "gids %s C:0:0 D:%s:%s T %s" % (r.choice(["gnu", "eb"]), enc_groups([sc]), enc_passwd(pw), self.q(qs))

    def disabled(self):
        self.ctx.dist("disabled")
        return "gids gnu C:-1:1 D:g5=a:a=7 T Q:7.5,0.0 H T Q:7.5"


FIXED = [
    # duplicates, sentinel, unknown users, empty group, lookup error, empty name
    "gids gnu C:60:1 E:100:50 D:g50=a,b,zz;g40=a,s,x,~;g50=a;g60=;g45=b,a:a=1000;b=1001;s=4294967295;x=e5 T Q:1000.45,1000.46,4294967295.40,1001.50,1001.40,1000.40,1000.60,0.0 T E:200:50 T E:300:250 D:g7=a:a=1000 T Q:1000.45,1000.7 H T",
    # mtime equal to the last load is not newer; one second later is
    "gids gnu C:60:1 E:100:100 D:g1=a:a=5 T Q:5.1 D:g2=a:a=5 T Q:5.1,5.2 E:100:101 T Q:5.1,5.2",
    # stat failure: load anyway, keep loading until SIGHUP re-enables the check
    "gids gnu C:60:1 E:100:x D:g1=a:a=5 T Q:5.1 D:g2=a:a=5 E:200:50 T Q:5.1,5.2 H D:g3=a:a=5 T Q:5.2,5.3 E:300:250 T Q:5.2,5.3",
    # failed refresh keeps the old map and the old load time
    "gids gnu C:60:1 E:100:50 D:g1=a:a=5 T Q:5.1 E:200:150 D:g2=a;e5;g1=a:a=5 T Q:5.1,5.2 D:g2=a:a=5 T Q:5.1,5.2",
    "gids gnu C:60:1 E:100:50 D:g1=a:a=5 T Q:5.1 E:200:150 D:g2=a:a=5 G:1 T Q:5.1,5.2 T Q:5.1,5.2",
    # restarts: every scan differs, only the last one counts
    "gids eb C:60:1 E:100:50 D:g50=a@3000;g60=b|g51=a;g61=b@9000|g52=a,b:a=1000;b=1001 T Q:1000.50,1000.51,1000.52,1001.60,1001.61,1001.52",
    "gids eb C:60:0 D:g1=a;g2=a@67108864:a=5 T Q:5.1,5.2 D:g3=a:a=5 T Q:5.1,5.3",
    # lookups and a SIGHUP from inside a refresh
    "gids gnu C:60:1 E:100:50 D:g50=a:a=1000 T D:g50=b;g51=a;g52=a:a=1000;b=1001 L:2:1000.50,1000.51,1001.50,1000.52 U:3 E:200:x T Q:1000.50,1000.51,1001.50 T T",
    # transient lookup error, negative caching
    "gids gnu C:0:0 D:g50=a,b@3000!2;e4;g51=b,a:a=1000@5000/e5;b=e13/1001 T Q:1000.50,1001.50,1001.51,1000.51 T",
    "gids gnu C:-1:1 D:g5=a:a=7 T Q:7.5 H T",
]


def gen_ops(ctx, consts):
    g = Gen(ctx, consts)
    r = ctx.rng
    th = ctx.tier == "thorough"
    ops = list(FIXED)
    n = 1.4 if not th else 16
    for _ in range(int(260 * n)):
        ops.append(g.basic())
    for _ in range(int(200 * n)):
        ops.append(g.refresh())
    for _ in range(int(110 * n)):
        ops.append(g.buffers("gnu"))
    for _ in range(int(150 * n)):
        ops.append(g.buffers("eb"))
    for _ in range(int(70 * n)):
        ops.append(g.failing(r.choice(["gnu", "eb"])))
    for _ in range(int(130 * n)):
        ops.append(g.interleave())
    for _ in range(int(120 * n)):
        ops.append(g.errors())
    for sz in ([300, 1500] if not th else [300, 1500, 1500, 4000, 8000]):
        ops.append(g.large(sz))
    ops.append(g.disabled())
    return ops


GTOD2_KEY = "gids-map-create-frees-buffers-twice-when-second-gettimeofday-fails"
GTOD2_OP = "gids gnu C:60:0 D:g1=a:a=5 T Q:5.1 D:g2=a:a=5 G:2 T Q:5.1,5.2"


def build_all(ctx):
    wrap = ["-Wl,--wrap=hash_find"]          # "L:0:..." scenarios park a lookup inside hash_find (see h_gids.c)
    h = cbuild.build(ctx, "h_gids", SRCS, libs=wrap)
    heb = cbuild.build(ctx, "h_gids_eb", SRCS, defines=["HAVE_GETGRENT_R_ERANGE_BROKEN=1"], libs=wrap)
    return h, heb


def run_parked(ctx, h, n):
    """Lookups on a second thread, parked inside hash_find while a complete refresh runs (a forced schedule; implementation only,
    judged by the property oracle: the answers are the old map's or the new map's, and nothing touches a destroyed map)."""
    g = Gen(ctx, getattr(ctx, "gids_consts", {}))
    ops = []
    for _ in range(n):
        w = g.interleave().split()
        w[1] = "gnu"
        w = [x for x in w if not x.startswith("U:")]
        w = [("L:0:" + x.split(":", 2)[2]) if x.startswith("L:") else x for x in w]
        ops.append(" ".join(w))
    rc, out, err = cbuild.run_lines([h], ops)
    ctx.count(len(ops)); ctx.dist("parked_lookup_scenarios", len(ops))
    bad = None
    for o, l in zip(ops, out):
        ctx.distinct(o)
        why = Oracle()(o, l)
        if why and bad is None:
            bad = (o, l, why)
    if bad is None and (rc != 0 or len(out) != len(ops)):
        bad = (ops[len(out)] if len(out) < len(ops) else "(end)", err[-1500:], "harness ended abnormally")
    ctx.obligation("oracle", "%d scenarios with a lookup parked inside hash_find across a whole refresh" % len(ops), bad is None, bad[2] if bad else "")
    if bad:
        ctx.violation("supplementary groups (lookup held across a refresh): " + bad[2], {"stream": "gids-parked", "ops": [bad[0]], "impl_output": bad[1][:2000]},
                      found_input=True)


def run_streams(ctx, ops, h, heb, drv, tag=""):
    gnu = [o for o in ops if o.split()[1] == "gnu"]
    eb = [o for o in ops if o.split()[1] == "eb"]
    ok = True
    if gnu:
        ok = judge.run_and_judge(ctx, "gids-gnu" + tag, gnu, [h], [drv], oracle=Oracle(), what="supplementary groups (as configured)") and ok
    if eb:
        ok = judge.run_and_judge(ctx, "gids-eb" + tag, eb, [heb], [drv], oracle=Oracle(),
                                 what="supplementary groups (xgetgrent hands ERANGE to the caller)") and ok
    return ok


def run(ctx):
    ctx.rule = ("scenario lines for the real gids.c/hash.c/xgetgr.c/xgetpw.c under ASan/UBSan/LSan (one forked process per scenario) and for the "
                "Lean model: create, scripted group/passwd databases (duplicate gids and uids, unknown users, uid -1, empty names, empty and "
                "large groups, uids colliding in the gid hash, names colliding in the uid hash, buffer needs around 1024*2^k, EINTR, lookup "
                "errors, several differing scans), clock/mtime older/equal/newer/stat failure, timer firing, SIGHUP, failing builds, lookups "
                "and SIGHUP from inside a running refresh; queries over the databases' (uid,gid) pairs and their neighbours; "
                "distinct = distinct scenario lines; non-trivial = every line (each loads at least one database)")
    ctx.assumptions += [
        "uid (uid_t)-1 is never a real user: UID_SENTINEL is munge's 'no such user' value and a passwd entry carrying it is treated as missing",
        "the property oracle recomputes membership in python straight from the scripted databases; which pass of the group database a "
        "restarting reader finally used, and whether a refresh scanned at all when the file was not newer, is read off the harness's own "
        "counters of setgrent calls (both are allowed by the statement)",
        "a user-database answer other than success/not-found (EIO, EMFILE, ENFILE) may hide a membership for that build (fails closed); it must never add one",
        "each function carrying an atomicity certificate really excludes other threads while it holds gids->mutex (pthread semantics); "
        "ghost_hash is touched by the single refresh thread only, as the Notes in gids.c say",
        "glibc getgrent_r/getpwnam_r/stat/time behave like the scripted replacements (ERANGE leaves the stream position unchanged)",
    ]
    ok = g_gids.generate(ctx)
    consts = getattr(ctx, "gids_consts", {})
    if ctx.replay_in:
        return replay(ctx)
    if ok:
        leanlib.check_props(ctx, "C17")
    else:
        ctx.obligation("theorem", "Props/C17.lean re-checked against the regenerated Gen.Gids", False, "generator failed; theorems not re-checked")
    drv = leanlib.driver(ctx)
    h, heb = build_all(ctx)
    if not h or not heb:
        return
    if not drv:
        # still run the property oracle on the real code
        drv_cmd = ["/bin/cat"]
    ops = gen_ops(ctx, consts)
    for o in ops:
        ctx.distinct(o)
    for o in ops[:3] + ops[len(FIXED) + 5:len(FIXED) + 7]:
        ctx.sample(o[:400])
    run_streams(ctx, ops, h, heb, drv or "/bin/cat")
    run_parked(ctx, h, 12 if ctx.tier == "quick" else 120)
    # a latent defect found while building this check (use-after-free / double free in _gids_map_create when the *second*
    # gettimeofday of a build fails): exercised only once it is recorded in known_findings.json or when asked for
    known = any(k.get("property") == "C17" and k.get("key") == GTOD2_KEY for k in ctx.known.get("findings", []))
    if known or os.environ.get("VERIF_C17_GTOD2"):
        rc, out, err = cbuild.run_lines([h], [GTOD2_OP])
        ctx.count(1)
        res = Oracle()(GTOD2_OP, out[0] if out else "abnormal (no output)")
        if res and known:
            ctx.violation("failed refresh must keep the old map: " + res, {"ops": [GTOD2_OP], "impl_output": out[:1]},
                          found_input=True, finding_key=GTOD2_KEY)          # reported as KNOWN-FINDING
        else:
            ctx.obligation("oracle", "late gettimeofday failure inside _gids_map_create keeps the old map", res is None, res or "")
            if res:
                ctx.violation("failed refresh must keep the old map: " + res, {"ops": [GTOD2_OP], "impl_output": out[:1]},
                              found_input=True, finding_key=GTOD2_KEY)


def replay(ctx):
    rep = json.load(open(ctx.replay_in))
    drv = leanlib.driver(ctx)
    h, heb = build_all(ctx)
    ops = rep.get("ops") or []
    if not ops and rep.get("first_difference"):
        ops = [rep["first_difference"]["op"]]
    if h and heb:
        run_streams(ctx, ops, h, heb, drv or "/bin/cat", tag="-replay")
