"""C03 - credential identity is the kernel-attested identity.  Theorems: Props/C03.lean (no wire field sets an identity; the inner
layer carries exactly the peer's uid/gid at the documented offset; non-interference of request contents; decode authorises the
peer).  Tie: real enc.c/dec.c/auth_recv.c through _job_exec with getsockopt(SO_PEERCRED) interposed to return arbitrary 32-bit
pairs; credentials parsed by the independent v3 reference (real build) and compared byte-for-byte with the model (toy build);
crafted raw ENC_REQs carrying UID/GID-looking fields."""
import json, struct
from ..vlib import leanlib, cbuild, judge
from ..gen import g_dec, g_stages
from . import _cred_common as cc
from . import _cred_checks as K
from . import _v3ref as R

LEVEL = "proof"
IDS = [0, 1, 1000, 65534, 65535, 65536, 2 ** 31 - 1, 2 ** 31, 2 ** 32 - 2, 2 ** 32 - 1]


def crafted(r, uid, gid):
    """ENC_REQ bodies that try to smuggle an identity: uid/gid-looking payloads, trailing fields, identity in ttl/auth"""
    other_u, other_g = (uid + 1) % 2 ** 32, (gid + 7) % 2 ** 32
    pl = [struct.pack(">II", other_u, other_g), struct.pack(">IIII", 0, 0, other_u, other_g), b"uid=0 gid=0", struct.pack("<II", 0, 0)]
    reqs = []
    for p in pl:
        reqs.append(cc.enc_req(cipher=r.choice([0, 4]), mac=5, zip_=0, data=p))
        # trailing bytes after the declared body fields (header length covers them)
        body = cc.enc_req(cipher=0, mac=5, zip_=0, data=p)[11:] + struct.pack(">IIII", other_u, other_g, 0, 0)
        reqs.append(cc.hdr(2, 0, len(body)) + body)
    reqs.append(("restricted", other_u, other_g, cc.enc_req(cipher=0, mac=5, zip_=0, ttl=other_u % 3600 + 1, auth_uid=other_u, auth_gid=other_g, data=b"x")))
    return reqs


def run(ctx):
    ctx.rule = ("client identities (euid, egid) over {0,1,1000,65534,65535,65536,2^31-1,2^31,2^32-2,2^32-1}^2 plus seeded random pairs, each with ordinary and crafted ENC_REQs "
                "(uid/gid-looking payloads, trailing fields, identities in ttl/restriction fields); the credential's uid/gid are read back by the independent v3 reference and by a decode; "
                "restricted credentials decoded under each peer identity. distinct = distinct op lines")
    ctx.assumptions += ["SO_PEERCRED itself (the kernel's attestation) is trusted; getsockopt is interposed, the real auth_recv.c runs",
                        "a per-connection identity mix-up between concurrent requests is C11's isolation, not this check"]
    g_dec.generate(ctx)
    if ctx.replay_in:
        rep = json.load(open(ctx.replay_in))
        drv = leanlib.driver(ctx); h = cc.build_toy(ctx)
        judge.run_and_judge(ctx, "replay", rep.get("ops") or [], [h], [drv], what="identity (replay)")
        return
    # enc_authenticate / dec_authenticate translated: client_uid / client_gid are exactly what auth_recv (the kernel query) stored
    if g_stages.generate(ctx):
        leanlib.check_props(ctx, "C02Stages")
    leanlib.check_props(ctx, "C03")
    drv = leanlib.driver(ctx)
    htoy = cc.build_toy(ctx)
    hreal = cc.build_real(ctx)
    r = ctx.rng
    pairs = [(u, g) for u in IDS for g in IDS]
    pairs += [(r.randrange(2 ** 32), r.randrange(2 ** 32)) for _ in range(100 if ctx.tier == "quick" else 1000)]
    # (real-bench: the daemon's --benchmark mode switches off replay detection and timers, nothing else: identity still attested)
    for variant, h, extra in (("toy", htoy, ""), ("real", hreal, ""), ("real-bench", hreal, " bench=1")):
        if not h or (variant == "toy" and not drv):      # (already a failed obligation; the other variant still runs)
            continue
        ops, want = ["cred conf mackey=%s dekkey=%s%s" % (K.MK.hex(), K.DK.hex(), extra)], [None]
        for (u, g) in pairs:
            reqs = [cc.enc_req(cipher=r.choice([0, 4, 2]), mac=r.choice([3, 5]), zip_=0, data=b"id-test")]
            if r.random() < .25 or (u, g) in [(0, 0), (2 ** 32 - 2, 2 ** 32 - 2)]:
                reqs += crafted(r, u, g)
            if r.random() < .2 or (u, g) in [(1, 1), (2 ** 31, 2 ** 31)]:
                # the header's retry byte is client-controlled too: whatever it says (in range, at the limit, beyond it), a
                # credential that comes back - with or without an error code - records the attested identity
                reqs += [cc.enc_req(cipher=0, mac=5, zip_=0, data=b"id-retry", retry=k) for k in (1, 5, 6, r.choice([7, 100, 255]))]
            for q in reqs:
                dpeer = (31337, 31338)
                if isinstance(q, tuple):
                    dpeer = (q[1], q[2]); q = q[3]
                ops.append("cred req %s now=1000000 peer=%d:%d rnd=%s mem=-" % (cc.hx(q), u, g, bytes(r.randrange(256) for _ in range(24)).hex()))
                want.append((u, g, dpeer))
        ops.append("cred req %s now=1000000 peer=fail rnd=00" % cc.hx(cc.enc_req(data=b"x"))); want.append("nopeer")
        rc, out, err = cbuild.run_lines([h], ops)
        # second pass: decode everything that was minted, as some other client, and compare the identity it reports
        ops2, want2 = list(ops), list(want)
        for w, l in zip(want, out):
            if isinstance(w, tuple):
                rsp, _ = cc.rsp_of(l)
                if rsp.ok and rsp.kind == "enc" and rsp.error_num == 0:
                    ops2.append("cred req %s now=1000001 peer=%d:%d mem=-" % (cc.hx(cc.dec_req(rsp.data)), w[2][0], w[2][1]))
                    want2.append(("dec", w[0], w[1]))
        st = {"i": 0}

        def oracle(op, outl, want2=want2, st=st, variant=variant):
            i = st["i"]; st["i"] += 1
            w = want2[i] if i < len(want2) else None
            if w is None:
                return None
            rsp, kv = cc.rsp_of(outl)
            if w == "nopeer":
                if rsp.ok and rsp.error_num == 0:
                    return "a credential was issued although the kernel identity query failed"
                return None
            if w[0] == "dec":
                if not (rsp.ok and rsp.kind == "dec" and rsp.error_num == 0):
                    return "decode of a freshly minted credential failed (%s)" % (rsp.error_num if rsp.ok else "no reply")
                if (rsp.cred_uid, rsp.cred_gid) != (w[1], w[2]):
                    return "credential identity %d:%d differs from the kernel-attested %d:%d" % (rsp.cred_uid, rsp.cred_gid, w[1], w[2])
                return None
            if not (rsp.ok and rsp.kind == "enc"):
                return "no well-formed encode reply"
            if rsp.error_num != 0 and rsp.data:
                f = R.parse(rsp.data, K.MK, K.DK) if variant.startswith("real") else None
                who = "" if not isinstance(f, dict) else " recording identity %d:%d (kernel attested %d:%d)" % (f["uid"], f["gid"], w[0], w[1])
                return "an encode request that was refused (error %d) was nevertheless answered with a credential%s" % (rsp.error_num, who)
            if rsp.error_num == 0 and variant.startswith("real"):
                f = R.parse(rsp.data, K.MK, K.DK)
                if isinstance(f, str):
                    return "credential does not parse under the v3 reference (%s)" % f
                if (f["uid"], f["gid"]) != (w[0], w[1]):
                    return "credential carries identity %d:%d, kernel attested %d:%d" % (f["uid"], f["gid"], w[0], w[1])
            return None
        for o in ops2:
            ctx.distinct(o)
        ctx.dist(variant + "_encodes", len(ops) - 2); ctx.dist(variant + "_decodes", len(ops2) - len(ops))
        ctx.sample({"stream": "identity-" + variant, "op": ops2[5][:170]})
        if variant == "toy":
            judge.run_and_judge(ctx, "identity-toy", ops2, [h], [drv], oracle=oracle, what="credential identity")
        else:
            rc, out, err = cbuild.run_lines([h], ops2)
            ctx.count(len(ops2))
            bad = None
            for i, l in enumerate(out[:len(ops2)]):
                why = oracle(ops2[i], l)
                if why:
                    bad = (i, why, l); break
            crashed = rc != 0 or len(out) != len(ops2)
            ctx.obligation("oracle", "stream identity-%s: %d ops, v3 reference + decode agree with the attested identity" % (variant, len(ops2)),
                           bad is None and not crashed, (bad[1] if bad else "") + (err[-1500:] if crashed else ""))
            if bad or crashed:
                i = bad[0] if bad else len(out)
                ctx.violation("credential identity (real primitives): " + (bad[1] if bad else "sanitizer/crash"),
                              {"stream": "identity-" + variant, "ops": [ops2[0], ops2[i] if i < len(ops2) else "(end)"], "impl_output": (bad[2] if bad else err[-2000:])},
                              found_input=True)
    # "... and the decoder is told exactly that identity": what munge_decode() hands to the application (real libmunge
    # decode.c / ctx.c on the reply), identities up to 2^32-2 - the client-level stream of C01, judged here for uid/gid
    if drv:
        from . import c01
        c01.client_level(ctx, drv)
