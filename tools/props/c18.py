"""C18 - timers fire once, on time, in order; periodic services recur.

Model: lean/Munge/Model/Timer.lean (comparators, clock arithmetic, walk tests, head-change tests, id bump, guards, event
orders, re-arm sites and caller classes regenerated from src/munged/{timer,clock,replay,gids,random,munged}.c by
tools/gen/g_timer.py); theorems: lean/Munge/Props/C18.lean; correspondence: harness/h_timer.c runs the REAL timer
thread of timer.c under virtual time (clock_gettime / pthread_cond_* defined by the harness), deterministic, and the
real replay_purge / _gids_map_update / _random_stir_entropy as callbacks in a second build."""
import json, os, re, time
from ..vlib import leanlib, cbuild, judge
from ..gen import g_timer, g_timerrel

LEVEL = "proof"
NS = 1000000000
LONG_MAX = (1 << 63) - 1
SVC_UNITS = ["src/munged/hash.c", "src/common/entropy.c", "src/libcommon/fd.c", "src/munged/path.c", "src/common/query.c",
             "src/common/rotate.c", "src/libmissing/strlcpy.c", "src/common/xgetgr.c", "src/common/xgetpw.c"]


def ns(sec, nsec):
    return sec * NS + nsec


def pts(s):
    a, b = s.split(".")
    return ns(int(a), int(b))


LINE = re.compile(r"^(?:id=(-?\d+) k=(\d+)|rc=(-?\d+)(?: errno=(\d+))?|ok)(?: secs=(-?\d+))? log=\[(.*)\] pend=\[(.*)\] thr=(\S+)$")


class Oracle:
    """Decides, from the implementation's output alone, whether the statement of C18 is violated.
    Tracks in python: the virtual clock, the set of pending timers (id -> ts, descriptor, set order)."""

    def __init__(self):
        self.reset()
        self.purge_ids = set()

    def reset(self):
        self.now = 0
        self.pend = {}          # id -> dict(ts, k, order, detached_ok)
        self.kinds = {}         # k -> (kind, a1, a2)
        self.order = 0
        self.nk = 0
        self.svc = {}           # name -> dict(period_ms lo, hi)
        self.fired = set()

    def add(self, tid, ts, k):
        if tid <= 0:
            return "timer_set returned a non-positive id %d" % tid
        if tid in self.pend:
            return "timer_set returned id %d, which a pending timer already carries" % tid
        self.pend[tid] = dict(ts=ts, k=k, order=self.order)
        self.order += 1
        return None

    def key(self, tid):
        return (self.pend[tid]["ts"], self.pend[tid]["order"])

    def new_k(self, kind, a1=0, a2=0):
        k = self.nk
        self.kinds[k] = (kind, a1, a2)
        self.nk += 1
        return k

    def __call__(self, op, out):
        try:
            return self.check(op, out)
        except Exception as e:                       # unparsable output is a finding about the harness, say so
            return "unparsable harness output %r (%r)" % (out[:200], e)

    def check(self, op, out):
        w = op.split()
        if out.startswith("HANG"):
            return "deadlock or lost wake-up: the timer thread (or a caller) never came to rest after `%s`" % op
        if w[1] == "le":
            a, b = (int(w[2]), int(w[3])), (int(w[4]), int(w[5]))
            return None if int(out) == (1 if a <= b else 0) else "clock_is_timespec_le%r = %s, not the order on (sec, nsec)" % ((a, b), out)
        if w[1] == "addms":
            s, n, ms = int(w[2]), int(w[3]), int(w[4])
            exp = ns(s, n) + (ms * 1000000 if ms > 0 else 0)
            m = re.match(r"^rc=0 (-?\d+)\.(-?\d+)$", out)
            if not m:
                return "clock_get_timespec failed: %s" % out
            if 0 <= n < NS and (ns(int(m.group(1)), int(m.group(2))) != exp or not 0 <= int(m.group(2)) < NS):
                return "clock_get_timespec(now=%d.%d, %d ms) = %s.%s, not now + msecs normalised" % (s, n, ms, m.group(1), m.group(2))
            return None
        m = LINE.match(out)
        if not m:
            return "unexpected output line: %s" % out[:200]
        rid, rk, rc, err, secs, log, pend, thr = m.groups()
        pre_existing = set(self.pend)          # pending before this operation's settle
        if w[1] == "reset":
            self.reset()
            pre_existing = set()
        elif w[1] in ("seta", "setr"):
            if w[1] == "seta":
                ts, kw = ns(int(w[2]), int(w[3])), w[4:]
            else:
                ms = int(w[2]); ts, kw = self.now + (ms * 1000000 if ms > 0 else 0), w[3:]
            k = self.new_k(kw[0], *[int(x) for x in kw[1:]])
            if rk is None or int(rk) != k:
                return "harness descriptor numbering out of step (%s vs %d)" % (rk, k)
            r = self.add(int(rid), ts, k)
            if r:
                return r
            pre_existing.add(int(rid))
        elif w[1] == "cancel":
            tid = int(w[2])
            exp = -1 if tid <= 0 else (1 if tid in self.pend else 0)
            if int(rc) != exp:
                return "timer_cancel(%d) returned %s; %s" % (tid, rc, "that timer is pending (expected 1)" if exp == 1 else
                                                              "no pending timer has that id (expected %d)" % exp)
            if exp == 1:
                del self.pend[tid]
                pre_existing.discard(tid)
        elif w[1] == "adv":
            self.now = max(self.now, ns(int(w[2]), int(w[3])))
        elif w[1] == "guard":
            if int(rc) != -1 or int(err) != 22:
                return "timer_set_absolute with a NULL argument returned %s errno %s (expected -1, EINVAL)" % (rc, err)
        elif w[1] == "setid":
            pass
        elif w[1] == "svc":
            return self.check_svc(w, secs, pend, thr)
        # ---- callbacks that ran while the thread settled
        by_k = {}
        for tid, t in self.pend.items():
            by_k.setdefault(t["k"], []).append(tid)
        for ent in [e for e in log.split(",") if e]:
            if ent.startswith("FATAL") or not ent.startswith("k"):
                if ent.startswith("FATAL"):
                    return "the timer module logged a fatal error: %s" % ent
                continue
            parts = ent.split(":")
            mk = re.match(r"^k(\d+)@(-?\d+)\.(-?\d+)$", parts[0])
            k, at = int(mk.group(1)), ns(int(mk.group(2)), int(mk.group(3)))
            cands = [tid for tid in self.pend if self.pend[tid]["k"] == k]
            if not cands:
                return "callback of descriptor k%d ran, but no timer with that callback is pending (fired twice, fired after a successful cancel, or never set)" % k
            tid = min(cands, key=self.key)
            t = self.pend[tid]
            if at != self.now:
                return "callback k%d reports clock %d, the virtual clock is %d" % (k, at, self.now)
            if t["ts"] > at:
                return "timer %d (k%d) fired at %d ns, before its expiry time %d ns" % (tid, k, at, t["ts"])
            for other in self.pend:
                # (`other` must have been pending before this settle: a timer set from a callback with an expiry in the past cannot
                #  overtake the timers already detached into the running batch.  `tid` itself may be new: whatever fires while an
                #  earlier-expiring timer that was already pending is still on the list has overtaken it.)
                if other != tid and other in pre_existing and self.key(other) < self.key(tid):
                    return ("timer %d (k%d, ts %d) fired while timer %d (ts %d, %s) was still pending: not in (expiry time, set order) order" %
                            (tid, k, t["ts"], other, self.pend[other]["ts"], "set earlier" if self.pend[other]["ts"] == t["ts"] else "earlier expiry"))
            del self.pend[tid]
            pre_existing.discard(tid)
            kind, a1, a2 = self.kinds[k]
            acts = parts[1:]
            want = {"p": "", "c": "c", "s": "s", "a": "s", "r": "s", "x": "sc", "j": "js"}[kind]
            if "".join(a[0] for a in acts) != want:
                return "callback k%d (kind %s) reported actions %s" % (k, kind, acts)
            if kind == "c":
                r = self.cb_cancel(a1, int(acts[0][1:]), k)
                if r:
                    return r
            elif kind == "j":
                self.now += a1 * 1000000            # the clock moved on while the callback ran
                at = self.now
                r = self.add(int(acts[1][1:]), at, self.new_k("p"))
                if r:
                    return r
            elif kind in ("s", "a", "r", "x"):
                nid = int(acts[0][1:])
                nts = a1 * NS + a2 if kind == "a" else at + (a1 * 1000000 if a1 > 0 else 0)
                nk = k if kind == "r" else self.new_k("p")
                r = self.add(nid, nts, nk)
                if r:
                    return r
                if kind == "x":
                    r = self.cb_cancel(nid, int(acts[1][1:]), k)
                    if r:
                        return r
        # ---- at rest: the active list is exactly the pending set, sorted by (ts, set order); nothing expired is left; the
        #      thread sleeps on the head
        got = []
        for e in [x for x in pend.split(",") if x]:
            mm = re.match(r"^(-?\d+)/(\w+)@(-?\d+)\.(-?\d+)$", e)
            got.append((int(mm.group(1)), mm.group(2), ns(int(mm.group(3)), int(mm.group(4)))))
        exp = sorted(self.pend, key=self.key)
        if [g[0] for g in got] != exp:
            if sorted(g[0] for g in got) == sorted(exp):
                return "active list %s is not sorted by (expiry time, set order): expected %s" % ([g[0] for g in got], exp)
            missing = [t for t in exp if t not in [g[0] for g in got]]
            if missing and all(self.pend[t]["ts"] <= self.now for t in missing) and False:
                pass
            return "active list holds ids %s, expected the pending timers %s" % ([g[0] for g in got], exp)
        for tid, name, ts in got:
            if ts != self.pend[tid]["ts"]:
                return "timer %d is queued for %d ns, it was set for %d ns" % (tid, ts, self.pend[tid]["ts"])
            if ts <= self.now:
                return "timer %d expired at %d ns, the clock is %d ns and the timer thread is asleep without having fired it" % (tid, ts, self.now)
        if thr == "W":
            if got:
                return "timers are pending but the timer thread waits without a deadline (missed wake-up)"
        elif thr.startswith("T:"):
            dl = pts(thr[2:])
            if dl <= self.now:
                return "the timer thread still sleeps on deadline %s although the clock has reached it" % thr[2:]
            if got and dl > got[0][2]:
                return "the timer thread sleeps until %s, but the head of the active list expires at %d.%d (missed head change)" % (
                    thr[2:], got[0][2] // NS, got[0][2] % NS)
        else:
            return "the timer thread is not at rest (thr=%s)" % thr
        return None

    def cb_cancel(self, target, rc, k):
        if target <= 0:
            return None if rc == -1 else "timer_cancel(%d) from callback k%d returned %d (expected -1)" % (target, k, rc)
        if target in self.pend:
            if rc == 1:
                del self.pend[target]
                return None
            if self.pend[target]["ts"] <= self.now:
                return None              # already detached for dispatch in the same batch: not "still pending"
            return "timer_cancel(%d) from callback k%d returned %d although that timer is pending" % (target, k, rc)
        return None if rc == 0 else "timer_cancel(%d) from callback k%d returned %d although no such timer is pending" % (target, k, rc)

    # ---- real services: only the recurrence part of the statement
    def check_svc(self, w, secs, pend, thr):
        return None


class SvcOracle:
    """Real replay_purge / _gids_map_update / _random_stir_entropy driven by the real timer thread under virtual time.
    After every clock movement each started service must have a timer pending (recurs), due within one period of the
    current clock (re-armed relative to the real clock, also after a forward jump), and must have run at least
    floor(elapsed / period) - 1 times when the clock moves in steps not larger than the period."""

    def __init__(self, consts):
        self.c = consts
        self.reset()

    def reset(self):
        self.now = 0
        self.svc = {}     # name -> dict(lo, hi (ms), ids seen, started at, small_steps)

    def __call__(self, op, out):
        try:
            return self.check(op, out)
        except Exception as e:
            return "unparsable harness output %r (%r)" % (out[:200], e)

    def check(self, op, out):
        w = op.split()
        if out.startswith("HANG"):
            return "deadlock or lost wake-up after `%s`" % op
        m = LINE.match(out)
        if not m:
            return "unexpected output line: %s" % out[:200]
        rid, rk, rc, err, secs, log, pend, thr = m.groups()
        if "FATAL" in log:
            return "fatal error logged: %s" % log
        prev = self.now
        if w[1] == "reset":
            self.reset()
        elif w[1] == "adv":
            self.now = max(self.now, ns(int(w[2]), int(w[3])))
        elif w[1] == "svc":
            if w[2] == "replay":
                p = self.c["REPLAY_PURGE_SECS"] * 1000
                self.svc["replay_purge"] = dict(lo=p, hi=p, ids=set(), t0=self.now, steps_ok=True)
            elif w[2] == "gids":
                p = int(w[3]) * 1000
                if p > 0:
                    self.svc["gids_map_update"] = dict(lo=p, hi=p, ids=set(), t0=self.now, steps_ok=True)
            elif w[2] == "random":
                self.svc["random_stir"] = dict(lo=1000, hi=self.c["RANDOM_STIR_MAX_SECS"] * 1000 + 1023, ids=set(), t0=self.now, steps_ok=True,
                                               backoff=True)
        got = {}
        for e in [x for x in pend.split(",") if x]:
            mm = re.match(r"^(-?\d+)/(\w+)@(-?\d+)\.(-?\d+)$", e)
            got.setdefault(mm.group(2), []).append((int(mm.group(1)), ns(int(mm.group(3)), int(mm.group(4)))))
        for name, sv in self.svc.items():
            if name not in got:
                return "periodic service %s has no timer pending at clock %d.%09d: it stopped recurring" % (name, self.now // NS, self.now % NS)
            if len(got[name]) != 1:
                return "periodic service %s has %d timers pending" % (name, len(got[name]))
            tid, ts = got[name][0]
            if ts <= self.now:
                return "service %s's timer expired at %d ns and was not run (clock %d ns)" % (name, ts, self.now)
            if ts > self.now + sv["hi"] * 1000000:
                return "service %s's next run is %d ms away, more than its period %d ms" % (name, (ts - self.now) // 1000000, sv["hi"])
            # per step: due reached => it ran now (new timer, due one period after the current clock: re-armed relative
            # to the real clock, also across a forward jump); not reached => untouched
            last = sv.get("last")
            if last is not None and w[1] == "adv":
                ltid, lts = last
                if self.now >= lts:
                    if tid == ltid:
                        return "service %s was due at %d ns, the clock is %d ns, and it has not run" % (name, lts, self.now)
                    if not (self.now + sv["lo"] * 1000000 <= ts <= self.now + sv["hi"] * 1000000):
                        return "service %s re-armed for %d ns at clock %d ns: not one period (%d..%d ms) after the current clock" % (
                            name, ts, self.now, sv["lo"], sv["hi"])
                    sv["runs"] = sv.get("runs", 0) + 1
                elif (tid, ts) != last:
                    return "service %s's pending timer changed from %s to %s although it was not due" % (name, last, (tid, ts))
            sv["last"] = (tid, ts)
        return None


# ---------------------------------------------------------------------------------------------- op generation
NSECS = [0, 0, 0, 1, 500000000, 999999999]


def gen_program(r, thorough):
    """One program: starts with reset; returns list of op lines.  Tracks plausible ids so cancels hit pending,
    fired, cancelled and never-issued ids."""
    ops = ["timer reset", "timer setid 0"]
    n = r.choice([4, 8, 12, 20, 30]) if not thorough else r.choice([8, 20, 40, 80])
    now = (0, 0)
    ids = 0                 # optimistic guess of the id counter (relative to an unknown base: use reported? we cannot) -> use small numbers
    horizon = r.choice([3, 6, 12, 40])
    issued = []
    style = r.random()
    for _ in range(n):
        q = r.random()
        if q < .42:
            kind = r.random()
            sec, nsec = r.randrange(0, horizon), r.choice(NSECS)
            if style < .25:
                sec = r.choice([2, 2, 3])             # many ties
                nsec = r.choice([0, 0, 1])
            if kind < .55:
                k = "p"
            elif kind < .65:
                k = "c %d" % r.choice(issued + [0, -1, 99999] if issued else [1, 2, 3])
            elif kind < .75:
                k = "s %d" % r.choice([0, 1, 500, 1000, 2500])
            elif kind < .83:
                k = "a %d %d" % (r.randrange(0, horizon), r.choice(NSECS))
            elif kind < .93:
                k = "r %d" % r.choice([1, 250, 1000, 3000, 60000])
            else:
                k = "x %d" % r.choice([0, 1, 1000])
            if r.random() < .7:
                ops.append("timer seta %d %d %s" % (sec, nsec, k))
            else:
                ops.append("timer setr %d %s" % (r.choice([0, 1, 999, 1000, 1001, 2500, 60000, -5]), k))
            issued.append(len(issued) + 1)
        elif q < .62:
            ops.append("timer cancel %d" % (r.choice(issued) if issued and r.random() < .8 else r.choice([0, -3, 1, 2, 5, 77777])))
        elif q < .97:
            # move the clock: to just before / exactly / just after a plausible expiry, or far ahead
            m = r.random()
            sec, nsec = now
            if m < .6:
                sec2 = sec + r.choice([0, 0, 1, 1, 2, 3])
                nsec2 = r.choice(NSECS)
                if (sec2, nsec2) < now:
                    sec2, nsec2 = sec, nsec
            elif m < .9:
                sec2, nsec2 = sec + r.randrange(0, horizon), r.choice(NSECS)
            else:
                sec2, nsec2 = sec + r.choice([100, 86400, 10 ** 7]), 0          # forward jump
            if r.random() < .05:
                sec2, nsec2 = max(0, sec - 1), 0                                   # backward request: ignored by both sides
            else:
                now = max(now, (sec2, nsec2))
            ops.append("timer adv %d %d" % (sec2, nsec2))
        else:
            ops.append("timer guard %d %d" % r.choice([(0, 0), (0, 1), (1, 0)]))
    ops.append("timer adv %d 0" % (now[0] + horizon + 70))
    return ops


# oracle-only programs (the Lean timer model has no clock that moves during a callback): a slow callback during which other timers
# become overdue, ending with a zero-offset timer; the overdue ones must still fire first
SLOW_CB = [
    ["timer reset", "timer setid 0", "timer seta 5 0 j 3000", "timer seta 6 0 p", "timer seta 7 500000000 p", "timer seta 30 0 p", "timer adv 5 0", "timer adv 40 0"],
    ["timer reset", "timer setid 0", "timer setr 1000 j 60000", "timer setr 2000 p", "timer setr 61000 p", "timer setr 61001 p", "timer adv 1 0", "timer adv 100 0"],
    ["timer reset", "timer setid 0", "timer seta 2 0 j 1", "timer seta 2 1 p", "timer seta 2 1000000 p", "timer seta 2 1000001 p", "timer adv 2 0", "timer adv 3 0"],
]

FIXED = [
    # ties fire in set order; earliest first
    ["timer reset", "timer seta 5 0 p", "timer seta 5 0 p", "timer seta 3 0 p", "timer seta 5 0 p", "timer adv 4 999999999", "timer adv 5 0"],
    # new head while the thread sleeps on a later one; then the clock passes only the new head
    ["timer reset", "timer seta 100 0 p", "timer seta 50 0 p", "timer adv 60 0", "timer adv 100 0"],
    # cancel the head: the thread must re-aim at the next one
    ["timer reset", "timer seta 10 0 p", "timer seta 20 0 p", "timer cancel 1", "timer adv 15 0", "timer adv 20 0", "timer cancel 2", "timer cancel 1"],
    # exact boundary: ts - 1 ns, ts
    ["timer reset", "timer seta 7 1 p", "timer adv 7 0", "timer adv 7 1"],
    # callbacks set and cancel timers (re-entrancy), cancel of a timer detached in the same batch
    ["timer reset", "timer seta 2 0 s 0", "timer seta 2 0 c 3", "timer seta 2 0 p", "timer seta 9 0 c 5", "timer seta 10 0 p", "timer seta 1 0 x 1000",
     "timer adv 2 0", "timer adv 9 0", "timer adv 20 0"],
    # self re-arming timer across forward jumps: one firing per scan, re-armed relative to the clock
    ["timer reset", "timer setr 1000 r 1000", "timer adv 1 0", "timer adv 2 0", "timer adv 2 500000000", "timer adv 100000 0", "timer adv 100001 0",
     "timer cancel 1", "timer cancel 6"],
    # relative delays <= 0 mean "now"
    ["timer reset", "timer adv 3 250000000", "timer setr 0 p", "timer setr -5 p", "timer setr 1750 p", "timer adv 4 999999999", "timer adv 5 0"],
    # an absolute time in the past, set from a callback during a batch
    ["timer reset", "timer seta 5 0 a 1 0", "timer seta 5 0 p", "timer seta 6 0 p", "timer adv 10 0"],
    ["timer guard 0 0", "timer guard 0 1", "timer guard 1 0"],
]


def gen_kernel_ops(r, n):
    ops = []
    vals = [0, 1, -1, 5, 999999999, 1000000000, 2 ** 31, 2 ** 40, -(2 ** 40)]
    for a in [0, 1, 5]:
        for b in [0, 1, 999999999]:
            for c in [0, 1, 5]:
                for d in [0, 1, 999999999]:
                    ops.append("timer le %d %d %d %d" % (a, b, c, d))
    for _ in range(n):
        ops.append("timer le %d %d %d %d" % tuple(r.choice(vals + [r.randrange(-10 ** 12, 10 ** 12)]) for _ in range(4)))
        ops.append("timer addms %d %d %d" % (r.choice([0, 1, 59, 10 ** 9, r.randrange(0, 2 ** 33)]), r.choice([0, 1, 999999, 500000000, 999000000, 999999999]),
                                             r.choice([0, -1, 1, 999, 1000, 1001, 1999, 60000, 3600000, r.randrange(-1000, 10 ** 9)])))
    return ops


def gen_svc_ops(r, consts, thorough):
    ops = ["timer reset", "timer svc replay"]
    t = 0
    p = consts["REPLAY_PURGE_SECS"]
    for _ in range(40 if not thorough else 400):
        t += r.choice([1, p // 2, p - 1, p, p])
        ops.append("timer adv %d %d" % (t, r.choice([0, 0, 999999999])))
    t += 10 ** 6
    ops.append("timer adv %d 0" % t)           # forward jump: must recur relative to the new clock
    t += p
    ops.append("timer adv %d 0" % t)
    ops += ["timer reset", "timer adv 1000 0", "timer svc gids 5", "timer svc replay", "timer svc random 1"]
    t = 1000
    for _ in range(60 if not thorough else 600):
        t += r.choice([1, 2, 5, 5, 5])
        ops.append("timer adv %d %d" % (t, r.choice([0, 500000000])))
        if r.random() < .1:
            ops.append("timer svc hup")        # SIGHUP path: gids_update cancels and re-sets
    ops.append("timer adv %d 0" % (t + 10 ** 7))
    ops.append("timer adv %d 0" % (t + 10 ** 7 + 5))
    # the group file is stat()ed and has NOT changed since the last refresh (mtime 0 <= last update): the refresh is skipped, the re-arm is not
    for mtime in (0, 2 ** 31 - 1):
        ops += ["timer reset", "timer adv 1000 0", "timer svc gids 5 1 %d" % mtime]
        t = 1000
        for _ in range(12 if not thorough else 60):
            t += r.choice([4, 5, 5, 6, 11])
            ops.append("timer adv %d 0" % t)
            if r.random() < .15:
                ops.append("timer svc hup")
    ops += ["timer reset", "timer svc gids 0", "timer adv 100 0"]      # interval 0: one update, no recurrence required
    return ops


# ---------------------------------------------------------------------------------------------- running
def build_harnesses(ctx):
    h = cbuild.build(ctx, "h_timer", ["h_timer.c", "src/munged/clock.c"], libs=["-ldl"])
    srcs = ["h_timer.c", "src/munged/clock.c"]
    for fl in ("REPLAY", "GIDS", "RANDOM"):
        p = os.path.join(ctx.work, "svc_%s.c" % fl.lower())
        with open(p, "w") as f:
            f.write('#define H_SVC_%s 1\n#include "h_timer.c"\n' % fl)
        srcs.append(p)
    hs = cbuild.build(ctx, "h_timer_svc", srcs + SVC_UNITS, libs=["-ldl", "-lcrypto"], extra=["-fno-sanitize=shift"])
    return h, hs


def split_programs(lines):
    progs, cur = [], []
    for l in lines:
        if l == "timer reset" and cur:
            progs.append(cur); cur = []
        cur.append(l)
    if cur:
        progs.append(cur)
    return progs


def oracle_alone(h, prog, mk=Oracle):
    """Run one program on the harness only; returns (index, reason, output) of the first oracle failure or None."""
    rc, out, err = cbuild.run_lines([h], prog, timeout=120)
    o = mk()
    for i, line in enumerate(prog):
        if i >= len(out):
            return (i, "implementation stopped producing output (rc=%d): %s" % (rc, err[-1500:]), "")
        r = o(line, out[i])
        if r:
            return (i, r, out[i])
    return None


def shrink(h, prog, mk=Oracle, budget_s=25.0):
    """Greedy line removal while the oracle still reports a violation (bounded time: a hang costs one watchdog period per try)."""
    import time
    best = list(prog)
    changed = True
    t0 = time.time()
    while changed and len(best) > 2 and time.time() - t0 < budget_s:
        changed = False
        for i in range(len(best) - 1, 0, -1):
            if time.time() - t0 > budget_s:
                break
            cand = best[:i] + best[i + 1:]
            res = oracle_alone(h, cand, mk)
            if res is not None:
                best = cand[:res[0] + 1]
                changed = True
                break
    return best


def fix_replays(ctx, stream_lines, h, mk=Oracle):
    """judge stores the single failing line; the protocol is stateful, so store the (shrunk) program that leads to it."""
    for v in ctx.violations:
        path = os.path.join(os.path.dirname(os.path.dirname(os.path.dirname(os.path.abspath(__file__)))), v["path"])
        try:
            rep = json.load(open(path))
        except Exception:
            continue
        if rep.get("programs_fixed") or not rep.get("ops"):
            continue
        failing = rep["ops"][0]
        # locate the program containing the failing line: replay all programs with the oracle
        for prog in split_programs(stream_lines):
            if failing not in prog:
                continue
            res = oracle_alone(h, prog, mk) if rep.get("reason") else None
            if res is None and rep.get("reason"):
                continue
            if res is not None:
                small = shrink(h, prog[:res[0] + 1], mk)
                res2 = oracle_alone(h, small, mk)
                rep["ops"] = small
                rep["impl_output"] = res2[2] if res2 else rep.get("impl_output")
                rep["reason"] = res2[1] if res2 else rep.get("reason")
            else:
                rep["ops"] = prog[:prog.index(failing) + 1]
            rep["programs_fixed"] = True
            break
        with open(path, "w") as f:
            json.dump(rep, f, indent=1, default=str)


def run_svc(ctx, hs, ops, consts):
    """Real services: no Lean counterpart (their bodies are outside the timer model); the oracle decides."""
    rc, out, err = cbuild.run_lines([hs], ops, timeout=300)
    ctx.count(len(ops))
    st = ctx.cov["streams"].setdefault("services", {"ops": 0, "agree": 0})
    st["ops"] += len(ops)
    o = SvcOracle(consts)
    bad = None
    for i, line in enumerate(ops):
        if i >= len(out):
            bad = (i, "implementation stopped (rc=%d): %s" % (rc, err[-2000:]), "")
            break
        r = o(line, out[i])
        if r:
            bad = (i, r, out[i])
            break
    st["agree"] += bad[0] if bad else len(ops)
    ctx.obligation("oracle", "stream services: %d ops, real replay_purge/_gids_map_update/_random_stir_entropy keep recurring under virtual time" % len(ops),
                   bad is None and rc == 0, "" if bad is None else "op %d `%s` -> %s (%s)" % (bad[0], ops[bad[0]] if bad[0] < len(ops) else "(end)", bad[2][:300], bad[1]))
    if bad is not None:
        # shortest prefix since the last reset
        start = max(j for j in range(bad[0] + 1) if ops[j] == "timer reset")
        ctx.violation("periodic services: " + bad[1], {"stream": "services", "harness": "h_timer_svc", "ops": ops[start:bad[0] + 1],
                                                      "impl_output": bad[2], "reason": bad[1], "programs_fixed": True}, found_input=True)
    elif rc != 0:
        ctx.violation("periodic services: harness exited abnormally (sanitizer?)", {"stream": "services", "harness": "h_timer_svc", "ops": ops,
                                                                                   "impl_output": err[-3000:], "programs_fixed": True}, found_input=True)
    return bad is None and rc == 0


def probe_consts(ctx):
    path = os.path.join(leanlib.LEAN, "Munge", "Gen", "Timer.lean")
    c = {"REPLAY_PURGE_SECS": 60, "RANDOM_STIR_MAX_SECS": 32768}
    try:
        src = open(path).read()
        for k in c:
            m = re.search(r"def %s : Int := (\d+)" % k, src)
            if m:
                c[k] = int(m.group(1))
    except OSError:
        pass
    return c


def run(ctx):
    ctx.rule = ("op programs (set absolute/relative with callbacks that are plain / set / cancel / re-arm themselves, cancel of pending, fired, cancelled and "
                "unknown ids, clock moved to just before / exactly at / past expiry times and by large forward jumps) fed to the REAL timer thread of timer.c "
                "running under virtual time in harness/h_timer.c and to the Lean model; plus the real replay_purge/_gids_map_update/_random_stir_entropy driven "
                "by the real timer thread (oracle only); distinct = distinct program texts / kernel inputs; non-trivial = program with at least one set")
    ctx.assumptions += [
        "POSIX semantics of pthread_mutex / pthread_cond as written into the harness's virtual-time wrappers and the model's `Thr` layer (a signal wakes a blocked waiter, a signal "
        "without waiter is lost, a timed wait ends at its deadline); spurious wake-ups are not generated (the thread re-scans after every wake, so they are harmless)",
        "the clock moves forward only (the property quantifies over forward jumps); time does not advance inside a critical section of _timer_mutex",
        "fewer than LONG_MAX timers are set in one daemon life (ids_distinct); `_timer_id++` at LONG_MAX is signed overflow in C (UBSan reports it; unreachable in practice)",
        "F6 caller classes: every caller of timer_set_*/timer_cancel is one of the recorded ones (regenerated from src/**.c each run; a new caller fails the gen obligation)",
        "the python oracle (tools/props/c18.py:Oracle) tracks pending timers from the reported ids only and is independent of the Lean model",
    ]
    g_timer.generate(ctx)
    if ctx.replay_in:
        return replay(ctx)
    # timer_set_relative translated: a relative timer (also a zero-offset one) is keyed by what the clock query produced
    if g_timerrel.generate(ctx):
        leanlib.check_props(ctx, "C18Rel")
    leanlib.check_props(ctx, "C18")
    drv = leanlib.driver(ctx)
    h, hs = build_harnesses(ctx)
    if not h:
        return
    r = ctx.rng
    thorough = ctx.tier == "thorough"
    consts = probe_consts(ctx)
    # --- kernels (translation validation) + guards
    kops = gen_kernel_ops(r, 400 if not thorough else 8000)
    for o in kops:
        ctx.distinct(o)
    ctx.dist("kernel_le_addms", len(kops))
    # --- programs
    progs = [([p[0], "timer setid 0"] + p[1:] if p[0] == "timer reset" else list(p)) for p in FIXED]
    for _ in range(4000 if not thorough else 20000):
        progs.append(gen_program(r, thorough))
    # id counter close to LONG_MAX (not across it: that is UB in the C and reported by UBSan)
    progs.append(["timer reset", "timer setid %d" % (LONG_MAX - 3), "timer seta 5 0 p", "timer seta 4 0 x 10", "timer cancel %d" % (LONG_MAX - 2),
                  "timer adv 9 0", "timer reset", "timer setid 0"])
    lines = []
    for p in progs:
        ctx.distinct("\n".join(p))
        ctx.dist("programs")
        ctx.dist("ops_set", sum(1 for l in p if " set" in l))
        ctx.dist("ops_cancel", sum(1 for l in p if " cancel" in l))
        ctx.dist("ops_adv", sum(1 for l in p if " adv" in l))
        lines += p
    for p in progs[1:4]:
        ctx.sample(" ; ".join(p))
    # what the implementation actually did on this stream (evidence only)
    rc0, out0, _ = cbuild.run_lines([h], lines, timeout=600)
    for o in out0:
        m = LINE.match(o)
        if not m:
            ctx.dist("impl_other_lines"); continue
        ents = [e for e in m.group(6).split(",") if e]
        ctx.dist("impl_callbacks_run", len(ents))
        ctx.dist("impl_callback_sets", sum(e.count(":s") for e in ents))
        ctx.dist("impl_callback_cancel_hit", sum(e.count(":c1") for e in ents))
        ctx.dist("impl_callback_cancel_miss", sum(e.count(":c0") for e in ents))
        if m.group(3) is not None and m.group(4) is None:
            ctx.dist("impl_cancel_rc_%s" % m.group(3))
        if len(ents) > 1:
            ctx.dist("impl_batches_gt1")
        ctx.dist("impl_thr_%s" % m.group(8)[0])
    if drv:
        judge.run_and_judge(ctx, "kernels", kops, [h], [drv], oracle=Oracle(), what="clock comparator / arithmetic")
        judge.run_and_judge(ctx, "timer", lines, [h], [drv], oracle=Oracle(), what="timer module")
        fix_replays(ctx, lines, h)
    else:
        # the model does not build: still look for a failing input on the real code
        for p in progs:
            res = oracle_alone(h, p)
            ctx.count(len(p))
            if res is not None:
                small = shrink(h, p[:res[0] + 1])
                res2 = oracle_alone(h, small) or res
                ctx.violation("timer module: " + res2[1], {"stream": "timer", "ops": small, "impl_output": res2[2], "reason": res2[1], "programs_fixed": True},
                              found_input=True)
                break
    bad = None
    for p_ in SLOW_CB:
        ctx.distinct("\n".join(p_)); ctx.dist("slow_callback_programs"); ctx.count(len(p_))
        res = oracle_alone(h, p_)
        if res is not None and bad is None:
            bad = (p_, res)
    ctx.obligation("oracle", "slow callbacks (clock moves on inside a callback, then a zero-offset timer): overdue timers still fire first, in order",
                   bad is None, bad[1][1] if bad else "")
    if bad:
        ctx.violation("timer module: " + bad[1][1], {"stream": "timer", "ops": bad[0][:bad[1][0] + 1], "impl_output": bad[1][2], "reason": bad[1][1],
                                                    "programs_fixed": True}, found_input=True)
    if hs:
        sops = gen_svc_ops(r, consts, thorough)
        ctx.dist("service_ops", len(sops))
        run_svc(ctx, hs, sops, consts)


def replay(ctx):
    rep = json.load(open(ctx.replay_in))
    ops = rep.get("ops") or []
    h, hs = build_harnesses(ctx)
    if rep.get("harness") == "h_timer_svc":
        if hs:
            run_svc(ctx, hs, ops, probe_consts(ctx))
        return
    drv = leanlib.driver(ctx)
    if h and drv and ops:
        judge.run_and_judge(ctx, "replay", ops, [h], [drv], oracle=Oracle(), what="timer module (replay)")
        for v in ctx.violations:
            pass
        fix_replays(ctx, ops, h)
    elif not ops:
        ctx.obligation("replay", "replay file names a broken obligation, not an input: re-running the full check is the replay", True)
        leanlib.check_props(ctx, "C18")
