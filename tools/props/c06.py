"""C06 - validity window and TTL bounds.  Theorems: lean/Munge/Props/C06.lean over the kernels that
tools/gen/g_dec.py translates from dec.c / enc.c each run.  Tie: (1) translation validation - the real static
kernels are called in harness/h_cred.c on a boundary lattice and must equal the translated definitions;
(2) end-to-end - real enc/dec pipeline (toy primitives, byte-exact against the Lean credential model) with
the clock interposed at encode and decode."""
import itertools, json
from ..vlib import leanlib, cbuild, judge
from ..gen import g_dec, g_stages
from . import _cred_common as cc
from . import _conf_check

LEVEL = "proof"
U32 = 2 ** 32


def window_verdict(ttl, t0, t1, maxttl, skew):
    """Statement's verdict; None where 32-bit wrap makes the statement only demand 'not accepted outside'."""
    cap = min(ttl, maxttl)
    sk = cap if skew else 1
    inside = (t0 - sk <= t1 <= t0 + cap)
    nowrap = (sk <= t0) and (t0 + cap < U32)
    return inside, nowrap, cap


def kern_oracle(op, out):
    w = op.split()
    kv = cc.out_fields(out)
    try:
        if w[1] == "dec_validate_time":
            ttl, t0, t1, mx, sk = map(int, w[2:7])
            inside, nowrap, cap = window_verdict(ttl, t0, t1, mx, sk)
            ret, err = int(kv["ret"]), int(kv["err"])
            if ret == 0 and not inside:
                return "accepted outside the window t0-skew <= t <= t0+ttl' (ttl'=%d)" % cap
            if nowrap:
                if inside and ret != 0:
                    return "rejected inside the window"
                if t1 > t0 + cap and err != 15:
                    return "later than the window but not EXPIRED"
                if t1 < t0 - (cap if sk else 1) and err != 16:
                    return "earlier than the window but not REWOUND"
            if int(kv["ttl"]) != cap:
                return "reported ttl %s is not the credential ttl capped by max-ttl (%d)" % (kv["ttl"], cap)
        elif w[1] == "enc_validate_msg":
            c, m, z, dl, ttl, dc, dm, dz, dt, mt = map(int, w[2:12])
            if int(kv["ret"]) == 0:
                exp = dt if ttl == 0 else min(ttl, mt)
                if int(kv["ttl"]) != exp:
                    return "encode ttl %s, expected %d (0 -> default, above max -> max)" % (kv["ttl"], exp)
    except Exception as e:
        return "unparsable harness output %r" % e
    return None


def lattice(r, thorough):
    t0s = [0, 1, 299, 300, 301, 3600, 3601, 1000000, 2 ** 31 - 1, 2 ** 31, U32 - 3601, U32 - 301, U32 - 300, U32 - 2, U32 - 1]
    ttls = [0, 1, 2, 299, 300, 301, 3599, 3600, 3601, 2 ** 31, U32 - 1]
    mxs = [1, 2, 299, 300, 3599, 3600]
    ops = []
    for t0 in t0s:
        for ttl in ttls:
            for mx in mxs:
                cap = min(ttl, mx)
                for sk in (0, 1):
                    s = cap if sk else 1
                    for t1 in {t0 - s - 1, t0 - s, t0 - s + 1, t0 - 1, t0, t0 + 1, t0 + cap - 1, t0 + cap, t0 + cap + 1,
                               (t0 + cap) % U32, (t0 - s) % U32, 0, U32 - 1}:
                        if 0 <= t1 < U32:
                            ops.append("kern dec_validate_time %d %d %d %d %d" % (ttl, t0, t1, mx, sk))
    n = 200000 if thorough else 10000
    for _ in range(n):
        t0 = r.choice([r.randrange(U32), r.randrange(4000), U32 - 1 - r.randrange(4000)])
        ttl = r.choice([r.randrange(U32), r.randrange(1, 4000)])
        mx = r.randrange(1, 3601)
        t1 = (t0 + r.randrange(-8000, 8000)) % U32 if r.random() < .8 else r.randrange(U32)
        ops.append("kern dec_validate_time %d %d %d %d %d" % (ttl, t0, t1, mx, r.randrange(2)))
    for c, m, z in itertools.product([0, 1, 2, 4, 5, 6, 255], [0, 1, 2, 3, 5, 6, 7], [0, 1, 2, 3, 4]):
        for ttl in [0, 1, 300, 3600, 3601, 2 ** 31, U32 - 1]:
            for dt, mt in [(300, 3600), (300, 100), (1, 1), (3600, 3600)]:
                ops.append("kern enc_validate_msg %d %d %d %d %d 4 5 %d %d %d" % (c, m, z, r.choice([0, 5]), ttl, r.choice([0, 3]), dt, mt))
    return ops


def e2e_ops(ctx):
    """encode at t0 with ttl, then decode at t1 under a possibly different max-ttl; toy primitives."""
    r = ctx.rng
    ops, meta = [], []
    n = 60 if ctx.tier == "quick" else 600
    for i in range(n):
        ttl = r.choice([0, 1, 2, 300, 3600, 5000, U32 - 1])
        t0 = r.choice([1000000, 4000, U32 - 5000, r.randrange(10000, U32 - 10000)])
        mx_enc = r.choice([3600, 100, 1, 300])
        ops.append("cred conf maxttl=%d skew=%d" % (mx_enc, 1))
        meta.append(None)
        data = bytes(r.randrange(256) for _ in range(r.randrange(0, 20)))
        ops.append("cred req %s now=%d peer=500:600 rnd=%s" % (cc.hx(cc.enc_req(data=data, ttl=ttl, cipher=r.choice([0, 4]), mac=5, zip_=0)),
                                                                 t0, bytes(r.randrange(256) for _ in range(24)).hex()))
        meta.append(("enc", ttl, t0, mx_enc, data))
    return ops, meta


def run(ctx):
    ctx.rule = ("translation validation: real static kernels dec_validate_time / enc_validate_msg called on the boundary lattice "
                "{t0} x {ttl} x {max-ttl} x {skew on/off} x {t1 at every window boundary +-1, wrapped values} plus seeded random triples; "
                "end-to-end: encode at t0 then decode at every boundary second with the clock interposed (toy primitives, byte-exact vs model). "
                "distinct = distinct op lines; non-trivial = all (each op evaluates the kernel on a different tuple)")
    ctx.assumptions += ["time() is the daemon's only clock source on this path (interposed in the harness)",
                        "clang-14's typed AST is a faithful account of the integer conversions gcc performs (validated by the lattice)"]
    g_dec.generate(ctx)
    if ctx.replay_in:
        return replay(ctx)
    # the stages of enc.c / dec.c translated with their calls as events (enc_init: fresh salt / IV; enc_timestamp: the daemon's clock)
    if g_stages.generate(ctx):
        leanlib.check_props(ctx, "C02Stages")
    leanlib.check_props(ctx, "C06")
    drv = leanlib.driver(ctx)
    hreal = cc.build_real(ctx)
    htoy = cc.build_toy(ctx)
    # "for all --max-ttl in 1..3600": the option reaches conf->max_ttl unchanged (real conf.c), every value of the range
    _conf_check.run(ctx, "time window / TTL bounds", {"max_ttl", "def_ttl", "skew"})
    if not drv or not hreal or not htoy:
        return
    ops = lattice(ctx.rng, ctx.tier == "thorough")
    for o in ops:
        ctx.distinct(o)
    ctx.dist("kern_dec_validate_time", len([o for o in ops if "dec_validate_time" in o]))
    ctx.dist("kern_enc_validate_msg", len([o for o in ops if "enc_validate_msg" in o]))
    for o in ops[5000:5003]:
        ctx.sample(o)
    judge.run_and_judge(ctx, "kernels", ops, [hreal], [drv], oracle=kern_oracle, what="time window kernel")
    end_to_end(ctx, htoy, drv)


def end_to_end(ctx, htoy, drv):
    """Two passes: first encode (collect credentials from the implementation), then decode each at boundary times."""
    r = ctx.rng
    enc_ops, meta = [], []
    n = 40 if ctx.tier == "quick" else 400
    for i in range(n):
        ttl = r.choice([0, 1, 2, 300, 3600, 5000, U32 - 1])
        t0 = r.choice([1000000, 4000, U32 - 5000, r.randrange(10000, U32 - 10000)])
        data = bytes(r.randrange(256) for _ in range(r.randrange(1, 20)))
        enc_ops.append("cred req %s now=%d peer=500:600 rnd=%s maxttl=3600 skew=1" % (
            cc.hx(cc.enc_req(data=data, ttl=ttl, cipher=r.choice([0, 4]), mac=5, zip_=0)), t0,
            bytes(r.randrange(256) for _ in range(24)).hex()))
        meta.append((ttl, t0, data))
    rc, out, err = cbuild.run_lines([htoy], enc_ops)
    ops, expect = list(enc_ops), [None] * len(enc_ops)
    for (ttl, t0, data), line in zip(meta, out):
        rsp, _ = cc.rsp_of(line)
        if not (rsp.ok and rsp.kind == "enc" and rsp.error_num == 0):
            continue
        ettl = 300 if ttl == 0 else min(ttl, 3600)
        for mx in (3600, r.choice([1, 100, 299, 300])):
            for sk in (1, 0):
                cap = min(ettl, mx)
                s = cap if sk else 1
                for t1 in (t0 - s - 1, t0 - s, t0, t0 + cap, t0 + cap + 1):
                    if 0 <= t1 < U32:
                        ops.append("cred replay-reset")
                        expect.append(None)
                        ops.append("cred req %s now=%d peer=1:1 maxttl=%d skew=%d" % (cc.hx(cc.dec_req(rsp.data, retry=r.choice([0, 0, 1, 5]))), t1, mx, sk))
                        expect.append((ettl, t0, t1, mx, sk, data))
    # presentation histories WITHOUT clearing the replay cache in between: the verdict of an out-of-window presentation is
    # decided by the clock every time (an early or late presentation must not be recorded as "played"), and a credential
    # first presented early is still valid once inside its window
    nh = 0
    for (ttl, t0, data), line in zip(meta, out):
        rsp, _ = cc.rsp_of(line)
        if not (rsp.ok and rsp.kind == "enc" and rsp.error_num == 0) or not (10000 < t0 < U32 - 10000) or nh >= (12 if ctx.tier == "quick" else 120):
            continue
        nh += 1
        cap = min(300 if ttl == 0 else min(ttl, 3600), 3600)
        ops.append("cred replay-reset"); expect.append(None)
        for t1, want in ((t0 - cap - 1, 16), (t0 - cap - 1, 16), (t0 + cap + 1, 15), (t0, 0), (t0 + cap + 1, 15), (t0 + cap + 2, 15), (t0 - cap - 2, 16)):
            ops.append("cred req %s now=%d peer=1:1 maxttl=3600 skew=1" % (cc.hx(cc.dec_req(rsp.data, retry=0)), t1))
            expect.append(("hist", want, t0, t1, cap, data))
    ctx.dist("e2e_history_decodes", 7 * nh)
    ctx.dist("e2e_decodes", len([e for e in expect if e]))

    def oracle(op, outl, _state={"i": 0}):
        i = _state["i"]; _state["i"] += 1
        e = expect[i] if i < len(expect) else None
        if not e:
            return None
        rsp, _ = cc.rsp_of(outl)
        if not rsp.ok or rsp.kind != "dec":
            return "no well-formed decode reply"
        if e[0] == "hist":
            _, want, t0, t1, cap, data = e
            if rsp.error_num != want:
                return ("presentation history (replay cache not cleared): verdict %d at t1=%d, the clock alone requires %d "
                        "(t0=%d ttl'=%d; earlier presentations of this credential were all outside its window)" % (rsp.error_num, t1, want, t0, cap))
            return None
        ettl, t0, t1, mx, sk, data = e
        inside, nowrap, cap = window_verdict(ettl, t0, t1, mx, sk)
        if rsp.error_num == 0 and not inside:
            return "decode succeeded outside the validity window"
        if nowrap:
            want = 0 if inside else (15 if t1 > t0 + cap else 16)
            if rsp.error_num != want:
                return "decode verdict %d, expected %d at t1=%d (t0=%d ttl'=%d skew=%d)" % (rsp.error_num, want, t1, t0, cap, sk)
        if rsp.error_num in (0, 15, 16):
            if rsp.data != data or rsp.cred_uid != 500 or rsp.cred_gid != 600:
                return "expired/rewound/ok reply does not carry the authenticated payload and identity"
            if rsp.ttl != cap:
                return "reply ttl %d is not capped at the decoding daemon's max-ttl (%d)" % (rsp.ttl, cap)
        return None
    for o in ops[len(enc_ops):len(enc_ops) + 400:37]:
        ctx.sample(o[:160])
    for o in ops:
        ctx.distinct(o)
    judge.run_and_judge(ctx, "end-to-end", ops, [htoy], [drv], oracle=oracle, what="time window end-to-end")


def replay(ctx):
    rep = json.load(open(ctx.replay_in))
    drv = leanlib.driver(ctx)
    ops = rep.get("ops") or []
    h = cc.build_real(ctx) if rep.get("stream") == "kernels" else cc.build_toy(ctx)
    judge.run_and_judge(ctx, "replay", ops, [h], [drv], oracle=kern_oracle if rep.get("stream") == "kernels" else None,
                        what="time window (replay)")
