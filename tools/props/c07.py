"""C07 - the replay memory lasts as long as the credential could still be valid, and is discarded after.

Model: lean/Munge/Model/{Hash,Replay}.lean with lean/Munge/Gen/Hash.lean regenerated from
src/munged/{hash,replay,dec,cred}.c; theorems: lean/Munge/Props/C07.lean; correspondence and
property oracle: harness/h_hash.c (real hash.c, replay.c, dec.c with time() interposed and the
purge called directly) against the Lean driver and a python set with a clock."""
from ..vlib import leanlib
from ..gen import g_hash, g_replayins
from . import _replay_common as rc

LEVEL = "proof"


def gen_expiry_sweep(ctx, n):
    """for many (time0, ttl, max_ttl): decode, then a purge tick and a second presentation at every offset around the
    last valid second; purge ticks every 60 s over a population of entries with staggered expiries"""
    r = ctx.rng
    ops = ["hash init"]
    now = 2000000
    for _ in range(n):
        mx = r.choice([1, 60, 300, 3600]); sk = r.choice([0, 1])
        ops.append("hash conf %d %d 1" % (mx, sk))
        ttl = r.choice([1, 2, 59, 60, 61, 300, 3600, 86400]); ttlp = min(ttl, mx); skew = ttlp if sk else 1
        ahead = r.choice([0, 0, -min(skew, 5), min(skew, r.choice([1, 30, 3600]))])      # time0 behind / ahead of the decoding clock
        t0 = now + ahead
        mac = rc.mac20(r)
        ops += ["hash clock %d" % now, rc.req(mac, t0, ttl)]
        end = t0 + ttlp
        # purge ticks at 60 s intervals up to the expiry, then at every second around it
        t = now
        while t + 60 < end - 2 and r.random() < .9 and (end - t) < 400:
            t += 60
            ops += ["hash clock %d" % t, "hash purge %d" % t]
            if r.random() < .3:
                ops.append(rc.req(mac, t0, ttl))
        for off in (-2, -1, 0, 1, 2):
            if end + off < t:
                continue
            t = end + off
            ops.append("hash clock %d" % t)
            if r.random() < .8:
                ops.append("hash purge %d" % t)
            ops.append(rc.req(mac, t0, ttl))
            ctx.dist("sweep_offset_%+d" % off)
        ops += ["hash purge %d" % t, "hash dump"]
        now = t + r.randrange(0, 5)
    return ops


def gen_population(ctx, n_creds, cycles):
    """size bound: a steady flow of decodes with purge ticks every 60 s; the oracle checks the table never holds an
    entry whose expiry is before the last tick, hence nothing older than max_ttl (2*max_ttl if future-dated) + 60 s"""
    r = ctx.rng
    ops = ["hash init", "hash conf 300 1 1"]
    now = 5000000
    for c in range(cycles):
        for _ in range(n_creds):
            now += r.choice([0, 0, 1, 1, 2])
            ttl = r.choice([1, 30, 60, 299, 300, 301, 3600])
            t0 = now + r.choice([0, 0, -1, -5, 1, 5, min(ttl, 300)])
            if not (t0 - min(ttl, 300) <= now <= t0 + min(ttl, 300)):
                t0 = now
            ops += ["hash clock %d" % now, rc.req(rc.mac20(r), t0, ttl)]
            ctx.dist("population_decode")
        now = (now // 60 + 1) * 60
        ops += ["hash clock %d" % now, "hash purge %d" % now]
        ctx.dist("population_purge_tick")
        if c % 3 == 0:
            ops.append("hash dump")
    return ops


class SizeOracle(rc.ReplayOracle):
    """adds the statement's last clause: the table holds nothing but credentials decoded during the last
    ttl' + skew seconds plus the time since the last purge tick"""
    def __init__(self):
        super().__init__()
        self.decoded_at = {}
        self.last_purge = None

    def feed(self, op, out):
        r = super().feed(op, out)
        w = op.split()[1:]
        if r is None and w[0] == "req":
            o = rc.kv(out)
            if o.get("ins") == "0" and o.get("withdrew") == "0":
                ttlp = min(int(w[3]), self.cfg["max_ttl"])
                self.decoded_at[rc.key_of(bytes.fromhex(w[1]), int(w[2]), ttlp)] = (self.now, ttlp, ttlp if self.cfg["skew"] else 1, int(w[2]))
        if r is None and w[0] == "purge":
            self.last_purge = self.now
        if r is None and w[0] == "dump" and self.last_purge is not None and out.split()[-1] != "-":
            P = self.now - self.last_purge
            for it in out.split()[-1].split(","):
                m, e = it.split(":"); k = (bytes.fromhex(m), int(e))
                if k in self.decoded_at:
                    d, ttlp, skew, t0 = self.decoded_at[k]
                    bound = self.now - P - ttlp - (0 if t0 <= d else skew)
                    if d < bound:
                        return ("table still holds a credential decoded at %d (ttl' %d), older than now - purge gap - ttl'%s = %d"
                                % (d, ttlp, "" if t0 <= d else " - skew", bound))
        return r


def run(ctx):
    ctx.rule = ("histories of decode / clock advance / purge-tick events on the real replay.c + hash.c + dec.c (time() interposed, "
                "replay_purge called directly) and on the Lean model: for sampled (time0, ttl, max_ttl, skew) a decode, purge ticks every 60 s, "
                "then a purge tick and a second presentation at every offset -2..+2 around the last valid second; populations of entries with "
                "staggered expiries under 60 s purge cycles with table dumps; insert/remove/find/purge op sequences on colliding keys; kernels "
                "replay_is_expired and dec_validate_time on boundary lattices; distinct = distinct op lines")
    ctx.assumptions += [
        "the purge timer fires every MUNGE_REPLAY_PURGE_SECS seconds (C18); here the tick is an event of the history and replay_purge is called directly",
        "the clock is monotone and within uint32 range (m->time1 is a uint32_t; year < 2106)",
        "the roll-back after a failed send is sound (obligation C05.rollback_implies_inserted) or no request about the credential loses its "
        "reply: the C07 histories generated here contain no retry-flagged request whose reply is lost (that is C05's F7)",
        "python set + clock written from the property statement serve as the property oracle",
    ]
    g_hash.generate(ctx)
    if ctx.replay_in:
        return rc.replay_file(ctx, "replay memory lifetime")
    # replay_insert translated: the record is the first 16 MAC bytes and (time0 + ttl) mod 2^32
    if g_replayins.generate(ctx):
        leanlib.check_props(ctx, "C05Insert")
    leanlib.check_props(ctx, "C07")
    drv, h = rc.build(ctx)
    if not drv or not h:
        return
    thorough = ctx.tier == "thorough"
    streams = [
        ("kernels", rc.gen_kernels(ctx, 5000 if thorough else 800), rc.ReplayOracle, None),
        ("replay", rc.gen_replay(ctx, 100000 if thorough else 10000, races=2), rc.ReplayOracle, rc.relevant_same_mac),
        ("sweep", gen_expiry_sweep(ctx, 12000 if thorough else 1000), rc.ReplayOracle, rc.relevant_same_mac),
        ("population", gen_population(ctx, 60 if thorough else 30, 1500 if thorough else 120), SizeOracle, None),
        ("daemon", rc.gen_daemon(ctx, 25000 if thorough else 2500, with_lost_retry_replies=False, purge_heavy=True),
         rc.ReplayOracle, rc.relevant_same_mac),
    ]
    for name, ops, orc, rel in streams:
        for o in ops:
            w = o.split()
            if w[1] not in ("init", "fini", "conf", "clock", "dump"):
                ctx.distinct(o)
        for o in ops[len(ops) // 2: len(ops) // 2 + 2]:
            ctx.sample(o)
        rc.run_stream(ctx, name, ops, h, drv, orc, "replay memory lifetime", relevant=rel)
