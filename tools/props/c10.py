"""C10 - credentials conform to the documented v3 format in both directions.  Theorems: Props/C10.lean (the daemon model's
credential = SpecV3.emit of the resolved fields; every SpecV3 credential of well-formed fields is accepted with the same
values; the armor is RFC 4648).  SpecV3 is written from doc/credential_v3_format.txt alone.  Tie: (a) toy build byte-exact
against the model (layout, byte order, MAC coverage, subkey roles, DEK, zip header, fall-back); (b) real build against an
independent python reference (hashlib/hmac/zlib/bz2 + openssl enc) that knows only the two subkeys: daemon -> reference parses
to the requested fields, reference -> daemon is accepted with the same fields; (c) the suite's frozen credential."""
import json, os, struct
from ..vlib import leanlib, cbuild, judge
from ..gen import g_dec, g_unpack, g_pack, g_stages
from . import _cred_common as cc
from . import _cred_checks as K
from . import _v3ref as R
from . import c01

LEVEL = "proof"


TOY_MAC_LEN = {2: 16, 3: 20, 4: 20, 5: 32, 6: 64}


def v3_structure(raw, zip_magic):
    """Structural reading of an UNENCRYPTED credential body under doc/credential_v3_format.txt (no cryptography needed): outer header,
    MAC of the length its type implies, then either the compressed form (8-byte header: magic, original length) when the outer
    header names a compression type, or the plain inner layer whose lengths add up.  Returns None or what is wrong."""
    if len(raw) < 5 or raw[0] != 3:
        return "version byte / truncated outer header"
    cipher, mac, zp, rl = raw[1], raw[2], raw[3], raw[4]
    if cipher != 0:
        return None                                  # encrypted: not readable without the cipher
    p = 5 + rl
    ml = TOY_MAC_LEN.get(mac)
    if ml is None or len(raw) < p + ml:
        return "MAC type / truncated MAC"
    inner = raw[p + ml:]
    if zp != 0:
        if len(inner) < 8 or struct.unpack(">I", inner[:4])[0] != zip_magic:
            return "outer header names compression type %d but the inner layer does not start with the compression header" % zp
        return None
    if len(inner) < 9 or inner[8] not in (0, 4):
        return "inner layer: salt / address length"
    q = 9 + inner[8] + 24
    if len(inner) < q + 4:
        return "inner layer truncated"
    (dl,) = struct.unpack(">I", inner[q:q + 4])
    if len(inner) != q + 4 + dl:
        return "outer header says not compressed, but the inner layer's lengths do not add up (payload length field %d, %d bytes follow)" % (dl, len(inner) - q - 4)
    return None


def emitted_under_faults(ctx, h):
    """Whatever happens inside an encode - here: each primitive call (MAC, cipher, compression back end) failing in turn, toy build -
    a credential that IS emitted must still be a v3 credential: structurally well-formed and accepted by the decoder with the
    requested payload.  (A refused encode is fine.)"""
    import re
    zm = None
    try:
        src = open(os.path.join(os.path.dirname(__file__), "..", "..", "lean", "Munge", "Gen", "Dec.lean")).read()
        zm = int(re.search(r"def ZIP_MAGIC : Int := (\d+)", src).group(1))
    except Exception:
        pass
    if zm is None:
        ctx.obligation("setup", "ZIP_MAGIC read from the generated constants", False, "")
        return
    pre = ["cred conf mackey=%s dekkey=%s" % (K.MK.hex(), K.DK.hex()), "cred replay-reset"]
    cases = [dict(cipher=c, mac=m, zip=z, ttl=300, auth_uid=cc.ANY, auth_gid=cc.ANY, data=d, realm=b"", uid=31, gid=32, now=1000000, rnd=bytes(range(24)))
             for (c, m, z, d) in [(0, 5, 3, b"compressible " * 12), (0, 3, 2, b"b" * 90), (0, 2, 3, b"q" * 40), (4, 5, 3, b"c" * 64), (0, 5, 0, b"plain")]]
    ops, meta = list(pre), [None, None]
    for ci, e in enumerate(cases):
        for k in range(0, 14):
            ops.append(K.enc_op(e, " pfail=%d" % k if k else "")); meta.append((ci, k))
    rc, out, err = cbuild.run_lines([h], ops)
    ops2, meta2 = list(pre), [None, None]
    bad = None
    nem = 0
    for (m, l, o) in zip(meta, out, ops):
        if not m:
            continue
        rsp, _ = cc.rsp_of(l)
        if not (rsp.ok and rsp.kind == "enc"):
            bad = bad or (o, "no well-formed encode reply"); continue
        if rsp.error_num != 0 or not rsp.data:
            continue
        nem += 1
        why = v3_structure(K.raw_of(rsp.data), zm)
        if why:
            bad = bad or (o, "emitted credential is not a v3 credential: " + why)
        ops2.append("cred replay-reset"); meta2.append(None)
        ops2.append("cred req %s now=1000001 peer=1:1 mem=-" % cc.hx(cc.dec_req(rsp.data))); meta2.append((o, cases[m[0]]))
    rc2, out2, err2 = cbuild.run_lines([h], ops2)
    for (m, l) in zip(meta2, out2):
        if not m:
            continue
        rsp, _ = cc.rsp_of(l)
        if not (rsp.ok and rsp.kind == "dec" and rsp.error_num == 0 and rsp.data == m[1]["data"]):
            bad = bad or (m[0], "a credential the daemon emitted is not accepted back with the requested payload (reply code %s)" % (rsp.error_num if rsp.ok else "none"))
    ctx.count(len(ops) + len(ops2)); ctx.dist("emitted_under_faults", nem)
    for o in ops:
        ctx.distinct(o)
    ctx.obligation("oracle", "credentials emitted while primitives fail (%d emitted of %d encodes) are v3 credentials and decode" % (nem, len(ops) - 2),
                   bad is None, bad[1] if bad else "")
    if bad:
        ctx.violation("format conformance (emitted under a failing primitive): " + bad[1],
                      {"stream": "emitted-under-faults", "ops": [pre[0], bad[0]]}, found_input=True)


def run(ctx):
    ctx.rule = ("daemon->reference: encode requests over all cipher x MAC x zip combinations the build supports x payload classes x identities x restrictions x ttl, each credential parsed by the "
                "python reference and compared field by field; reference->daemon: the reference builds credentials for generated fields (all combinations, origin address present / absent, realm) "
                "and the daemon must accept them with identical values; toy build: byte equality with the model. distinct = distinct op lines")
    ctx.assumptions += ["the python reference (support, not proof) is an independent reading of doc/credential_v3_format.txt; `openssl enc` supplies the block ciphers",
                        "RIPEMD-160 needs the OpenSSL legacy provider in python; combinations the reference cannot compute are skipped and counted"]
    g_dec.generate(ctx)
    if ctx.replay_in:
        rep = json.load(open(ctx.replay_in))
        drv = leanlib.driver(ctx); h = cc.build_toy(ctx)
        judge.run_and_judge(ctx, "replay", rep.get("ops") or [], [h], [drv], what="format conformance (replay)")
        return
    # the model's parsers are proved to be the parsers of dec.c (translated by the K+cursor translator)
    if g_unpack.generate(ctx):
        leanlib.check_props(ctx, "UnpackRef")
    # the packers of enc.c, translated the same way: the stores tile the allocation in the documented order
    if g_pack.generate(ctx):
        leanlib.check_props(ctx, "C10Pack")
    # enc_compress (and the decode stages) translated with their primitive calls as events: the header says NONE exactly when the inner layer stays uncompressed
    if g_stages.generate(ctx):
        leanlib.check_props(ctx, "C02Stages")
    leanlib.check_props(ctx, "C10")
    drv = leanlib.driver(ctx)
    htoy = cc.build_toy(ctx)
    hreal = cc.build_real(ctx)
    r = ctx.rng
    n = 150 if ctx.tier == "quick" else 1500
    if drv and htoy:
        c01.two_pass(ctx, htoy, drv, "format-toy", K.enc_cases(r, n))
    if htoy:
        emitted_under_faults(ctx, htoy)
    if not hreal:               # (a harness that no longer builds is already a failed obligation; the real-primitive streams still run without the toy one)
        return
    # ---- daemon -> reference
    macs = [m for m in (2, 3, 4, 5, 6) if R.have_mac(m)]
    ctx.cov["reference_macs"] = macs
    cases = []
    for c in (0, 2, 3, 4, 5):
        for m in macs:
            if c == 5 and m in (2, 3, 4):
                continue
            for z in (0, 2, 3):
                e = K.enc_cases(r, 1)[0]
                e.update(cipher=c, mac=m, zip=z, now=1000000)
                cases.append(e)
    pre = ["cred conf mackey=%s dekkey=%s addr=0a000001" % (K.MK.hex(), K.DK.hex())]
    ops, res = K.encode_all(hreal, cases, pre=pre)
    bad = None
    fields = []
    for e, rsp in res:
        if not (rsp.ok and rsp.kind == "enc" and rsp.error_num == 0):
            bad = bad or ("encode failed for a supported combination", e); continue
        f = R.parse(rsp.data, K.MK, K.DK)
        if isinstance(f, str):
            bad = bad or ("emitted credential does not parse under the reference: " + f, e); continue
        cc_, m_, z_, t_ = K.resolved(e)
        exp = dict(cipher=cc_, mac=m_, payload=e["data"], uid=e["uid"], gid=e["gid"], auth_uid=e["auth_uid"], auth_gid=e["auth_gid"],
                   ttl=t_, time0=e["now"] % 2 ** 32, addr=bytes([10, 0, 0, 1]), realm=e["realm"])
        for k, v in exp.items():
            if f[k] != v:
                bad = bad or ("field %s of the emitted credential is %r, requested %r" % (k, f[k], v), e)
        if f["zip"] not in (0, z_):
            bad = bad or ("zip field %d not in {none, requested}" % f["zip"], e)
        fields.append(f)
    ctx.count(len(cases)); ctx.dist("daemon_to_reference", len(cases))
    ctx.obligation("oracle", "daemon->reference: %d credentials of the real build parse to the requested fields" % len(cases), bad is None, bad[0] if bad else "")
    if bad:
        ctx.violation("format conformance (daemon->reference): " + bad[0], {"stream": "daemon-to-reference", "ops": [pre[0], K.enc_op(bad[1])]}, found_input=True)
    # ---- reference -> daemon
    ops2, want = list(pre) + ["cred replay-reset"], [None, None]
    for f in fields:
        g = dict(f)
        g["payload"] = K.payload(r, r.choice([0, 1, 16, 100]))
        g["uid"], g["gid"] = r.randrange(2 ** 32), r.randrange(2 ** 32)
        g["salt"] = bytes(r.randrange(256) for _ in range(8))
        g["iv"] = bytes(r.randrange(256) for _ in range(len(f["iv"])))
        g["time0"], g["ttl"] = 2000000, r.choice([1, 300, 3600])
        if r.random() < .3:
            g["addr"] = b""
        if r.random() < .3:
            g["realm"] = b"some.realm"
        if g["zip"] and not g["payload"]:
            g["payload"] = b"zz"
        cred = R.emit(g, K.MK, K.DK)
        if cred is None:
            continue
        peer = (g["auth_uid"] if g["auth_uid"] != cc.ANY else 5, g["auth_gid"] if g["auth_gid"] != cc.ANY else 6)
        ops2.append("cred req %s now=2000001 peer=%d:%d mem=-" % (cc.hx(cc.dec_req(cred + b"\0")), peer[0], peer[1]))
        want.append(g)
    rc, out, err = cbuild.run_lines([hreal], ops2)
    bad = None
    for i, (g, l) in enumerate(zip(want, out)):
        if g is None:
            continue
        rsp, _ = cc.rsp_of(l)
        if not (rsp.ok and rsp.kind == "dec"):
            bad = bad or (i, "no well-formed reply"); continue
        if rsp.error_num != 0:
            bad = bad or (i, "daemon rejected a reference-built credential: %d %s" % (rsp.error_num, rsp.error_str[:40])); continue
        got = dict(cipher=rsp.cipher, mac=rsp.mac, zip=rsp.zip, payload=rsp.data, uid=rsp.cred_uid, gid=rsp.cred_gid, auth_uid=rsp.auth_uid,
                   auth_gid=rsp.auth_gid, ttl=rsp.ttl, time0=rsp.time0, addr=rsp.addr)
        for k, v in got.items():
            exp = g[k]
            if k == "addr" and not g["addr"]:
                exp = b""
            if v != exp:
                bad = bad or (i, "daemon reports %s=%r for a reference credential built with %r" % (k, v, exp))
        if g["realm"] and rsp.realm != g["realm"] + b"\0":
            bad = bad or (i, "realm differs")
    ctx.count(len(ops2)); ctx.dist("reference_to_daemon", len(ops2) - 2)
    crashed = rc != 0 or len(out) != len(ops2)
    ctx.obligation("oracle", "reference->daemon: %d reference-built credentials accepted with identical field values" % (len(ops2) - 2),
                   bad is None and not crashed, (bad[1] if bad else "") + (err[-1200:] if crashed else ""))
    if bad or crashed:
        i = bad[0] if bad else len(out)
        ctx.violation("format conformance (reference->daemon): " + (bad[1] if bad else "sanitizer/crash"),
                      {"stream": "reference-to-daemon", "ops": [pre[0], ops2[i] if i < len(ops2) else "(end)"]}, found_input=True)
    for o in ops2[2:5]:
        ctx.sample({"stream": "reference-to-daemon", "op": o[:170]})
    for o in ops + ops2:
        ctx.distinct(o)
    # ---- the suite's frozen credential under its key file
    cred_f = os.path.join(ctx.repo, "tests", "0099-credential-decode.cred")
    key_f = os.path.join(ctx.repo, "tests", "0099-credential-decode.key")
    if os.path.exists(cred_f) and os.path.exists(key_f):
        mk, dk = R.subkeys(open(key_f, "rb").read())
        f = R.parse(open(cred_f, "rb").read().strip(), mk, dk)
        ctx.obligation("oracle", "the frozen credential of tests/0099 parses under the reference with the frozen key", not isinstance(f, str), str(f)[:200])
        if isinstance(f, str):
            ctx.violation("format conformance: frozen credential does not parse (%s)" % f, {"stream": "frozen"}, found_input=True)
