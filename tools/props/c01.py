"""C01 - encode -> decode round trip.  Theorems: Props/C01.lean (round trip for every primitive table satisfying
PrimLaws, option resolution, length gate).  Tie: real enc.c/dec.c through _job_exec with toy primitives, byte-exact against
the Lean model, over cipher x MAC x zip x payload sizes (block edges, base64 remainders, compressible / incompressible);
the same requests with OpenSSL/zlib/bzlib judged by the property oracle; size-limit requests."""
import json
from ..vlib import leanlib, cbuild, judge
from ..gen import g_dec
from . import _cred_common as cc
from . import _cred_checks as K

LEVEL = "proof"


def two_pass(ctx, h, drv, name, cases, model=True):
    ops, res = K.encode_all(h, cases, pre=["cred replay-reset"])
    expect = [("skip", None)] + [("enc", e) for e in cases]
    for e, rsp in res:
        if rsp.ok and rsp.kind == "enc" and rsp.error_num == 0:
            # decode by an authorised client, 1 s later, on a fresh cache
            uid = e["auth_uid"] if e["auth_uid"] != cc.ANY else 777
            gid = e["auth_gid"] if e["auth_gid"] != cc.ANY else 888
            ops.append("cred req %s now=%d peer=%d:%d mem=-" % (cc.hx(cc.dec_req(rsp.data)), (e["now"] + 1) % 2 ** 32, uid, gid))
            expect.append(("dec", e))
    st = {"i": 0}

    def oracle(op, outl):
        i = st["i"]; st["i"] += 1
        kind, e = expect[i]
        if kind == "skip":
            return None
        rsp, kv = cc.rsp_of(outl)
        if kv.get("leak") != "0":
            return "memory leaked"
        if kind == "enc":
            if not rsp.ok or rsp.kind != "enc":
                return "no well-formed encode reply"
            if rsp.error_num == 0 and not rsp.data.startswith(b"MUNGE:"):
                return "successful encode without a credential"
            c, m, z, t = K.resolved(e)
            valid = (c, m) in K.VALID_TOY and z in (0, 2, 3)
            if valid and rsp.error_num != 0:
                return "encode of a valid request failed with %d" % rsp.error_num
            return None
        return K.check_decode_of(e, rsp)
    for o in ops:
        ctx.distinct(o)
    ctx.sample({"stream": name, "op": ops[len(cases) + 1][:200] if len(ops) > len(cases) + 1 else ops[1][:200]})
    ctx.dist(name + "_encodes", len(cases)); ctx.dist(name + "_decodes", len(ops) - len(cases))
    if model:
        judge.run_and_judge(ctx, name, ops, [h], [drv], oracle=oracle, what="round trip")
    else:
        rc, out, err = cbuild.run_lines([h], ops)
        ctx.count(len(ops))
        bad = None
        for i, l in enumerate(out[:len(ops)]):
            why = oracle(ops[i], l)
            if why:
                bad = (i, why, l); break
        crashed = rc != 0 or len(out) != len(ops)
        ctx.obligation("oracle", "stream %s: %d ops on the real primitives, property oracle" % (name, len(ops)), bad is None and not crashed,
                       (bad[1] if bad else "") + (err[-1500:] if crashed else ""))
        if bad or crashed:
            i = bad[0] if bad else len(out)
            ctx.violation("round trip (real primitives): " + (bad[1] if bad else "sanitizer/crash"),
                          {"stream": name, "ops": [ops[i] if i < len(ops) else "(end)"], "case": {k: (v.hex() if isinstance(v, bytes) else v) for k, v in expect[i][1].items()} if i < len(expect) else None,
                           "impl_output": (bad[2] if bad else err[-2000:])}, found_input=True)


def size_limit_ops(r):
    """payloads around the point where the request / the credential no longer fits in 1 MiB"""
    ops, want = [], []
    for n in (786000, 786420, 1048540, 1048560, 1048577):
        data = bytes([65 + n % 7]) * n
        ops.append(("cred req %s now=1000000 peer=1:1 rnd=%s" % (cc.hx(cc.enc_req(cipher=0, mac=5, zip_=0, data=data)), "00" * 24), n))
    return ops


def run(ctx):
    ctx.rule = ("encode requests over cipher in {none,default,blowfish,cast5,aes128,aes256} x MAC in {default,md5,sha1,ripemd160,sha256,sha512} x zip in {none,default,bzlib,zlib} x ttl classes x "
                "restrictions x identities x payload sizes at block / base64 / compression edges (random, constant, text), each followed by a decode of the returned credential by an authorised client; "
                "toy-primitive build byte-exact vs the Lean model, real-primitive build by the oracle (payload, identity, resolved metadata). distinct = distinct op lines")
    ctx.assumptions += ["PrimLaws (decrypt∘encrypt, inflate∘deflate, digest lengths) hold for OpenSSL/zlib/bzlib: validated by the real-primitive stream, not proved",
                        "libmunge's client-side length check is not modelled; the daemon-side gate is (length_gate)"]
    g_dec.generate(ctx)
    if ctx.replay_in:
        rep = json.load(open(ctx.replay_in))
        drv = leanlib.driver(ctx); h = cc.build_toy(ctx)
        judge.run_and_judge(ctx, "replay", rep.get("ops") or [], [h], [drv], what="round trip (replay)")
        return
    leanlib.check_props(ctx, "C01")
    drv = leanlib.driver(ctx)
    htoy = cc.build_toy(ctx)
    hreal = cc.build_real(ctx)
    if not drv or not htoy or not hreal:
        return
    n = 400 if ctx.tier == "quick" else 4000
    two_pass(ctx, htoy, drv, "roundtrip-toy", K.enc_cases(ctx.rng, n))
    sizes = K.SIZES + ([4096, 65536] if ctx.tier == "quick" else [4096, 65536, 300000, 786000])
    two_pass(ctx, hreal, drv, "roundtrip-real", K.enc_cases(ctx.rng, n // 2, sizes), model=False)
    # size limit: real build only (the model's list-based base64 is quadratic)
    lim = size_limit_ops(ctx.rng)
    rc, out, err = cbuild.run_lines([hreal], [o for o, _ in lim], timeout=600)
    ctx.count(len(lim))
    bad = None
    for (op, n), l in zip(lim, out):
        rsp, kv = cc.rsp_of(l)
        if n + 30 > 1048576:
            if rsp.raw:
                bad = "request of %d payload bytes (> 1 MiB) was answered instead of refused" % n
        elif not (rsp.ok and rsp.kind == "enc"):
            bad = "no well-formed reply for a %d-byte payload" % n
        elif rsp.error_num == 0:
            # the credential comes back whole, or not at all
            raw = K.lenient_body(rsp.data)
            if raw is None or raw[-n:] != bytes([65 + n % 7]) * n:
                bad = "credential for a %d-byte payload is truncated or altered" % n
        ctx.dist("size_limit")
    ctx.obligation("oracle", "size limit: %d requests around 1 MiB on the real build" % len(lim), bad is None and rc == 0, (bad or "") + err[-800:])
    if bad or rc != 0:
        ctx.violation("size limit: " + (bad or "crash"), {"stream": "size-limit", "payload_sizes": [n for _, n in lim]}, found_input=True)
