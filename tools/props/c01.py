"""C01 - encode -> decode round trip.  Theorems: Props/C01.lean (round trip for every primitive table satisfying
PrimLaws, option resolution, length gate).  Tie: real enc.c/dec.c through _job_exec with toy primitives, byte-exact against
the Lean model, over cipher x MAC x zip x payload sizes (block edges, base64 remainders, compressible / incompressible);
the same requests with OpenSSL/zlib/bzlib judged by the property oracle; size-limit requests."""
import json
from ..vlib import leanlib, cbuild, judge
from ..gen import g_dec, g_stages
from . import _cred_common as cc
from . import _cred_checks as K

LEVEL = "proof"


def two_pass(ctx, h, drv, name, cases, model=True):
    ops, res = K.encode_all(h, cases, pre=["cred replay-reset"])
    expect = [("skip", None)] + [("enc", e) for e in cases]
    for e, rsp in res:
        if rsp.ok and rsp.kind == "enc" and rsp.error_num == 0:
            # decode by an authorised client, 1 s later, on a fresh cache
            uid = e["auth_uid"] if e["auth_uid"] != cc.ANY else 777
            gid = e["auth_gid"] if e["auth_gid"] != cc.ANY else 888
            ops.append("cred req %s now=%d peer=%d:%d mem=-" % (cc.hx(cc.dec_req(rsp.data)), (e["now"] + 1) % 2 ** 32, uid, gid))
            expect.append(("dec", e))
    st = {"i": 0}

    def oracle(op, outl):
        i = st["i"]; st["i"] += 1
        kind, e = expect[i]
        if kind == "skip":
            return None
        rsp, kv = cc.rsp_of(outl)
        if kv.get("leak") != "0":
            return "memory leaked"
        if kind == "enc":
            if not rsp.ok or rsp.kind != "enc":
                return "no well-formed encode reply"
            if rsp.error_num == 0 and not rsp.data.startswith(b"MUNGE:"):
                return "successful encode without a credential"
            c, m, z, t = K.resolved(e)
            valid = (c, m) in K.VALID_TOY and z in (0, 2, 3)
            if valid and rsp.error_num != 0:
                return "encode of a valid request failed with %d" % rsp.error_num
            return None
        return K.check_decode_of(e, rsp)
    for o in ops:
        ctx.distinct(o)
    ctx.sample({"stream": name, "op": ops[len(cases) + 1][:200] if len(ops) > len(cases) + 1 else ops[1][:200]})
    ctx.dist(name + "_encodes", len(cases)); ctx.dist(name + "_decodes", len(ops) - len(cases))
    if model:
        judge.run_and_judge(ctx, name, ops, [h], [drv], oracle=oracle, what="round trip")
    else:
        rc, out, err = cbuild.run_lines([h], ops)
        ctx.count(len(ops))
        bad = None
        for i, l in enumerate(out[:len(ops)]):
            why = oracle(ops[i], l)
            if why:
                bad = (i, why, l); break
        crashed = rc != 0 or len(out) != len(ops)
        ctx.obligation("oracle", "stream %s: %d ops on the real primitives, property oracle" % (name, len(ops)), bad is None and not crashed,
                       (bad[1] if bad else "") + (err[-1500:] if crashed else ""))
        if bad or crashed:
            i = bad[0] if bad else len(out)
            ctx.violation("round trip (real primitives): " + (bad[1] if bad else "sanitizer/crash"),
                          {"stream": name, "ops": [ops[i] if i < len(ops) else "(end)"], "case": {k: (v.hex() if isinstance(v, bytes) else v) for k, v in expect[i][1].items()} if i < len(expect) else None,
                           "impl_output": (bad[2] if bad else err[-2000:])}, found_input=True)


def client_level(ctx, drv):
    """The same round trip at the level a user sees it: the REAL libmunge munge_encode() / munge_decode() (encode.c, decode.c,
    ctx.c, m_msg_client.c) against the real daemon code, through the C13 harness with no faults injected; toy primitives,
    byte-exact against the model (Driver/Retry), plus the oracle on munge_decode's outputs."""
    try:
        from . import c13
        from ..gen import g_retry
        g_retry.generate(ctx)
        h = c13.build_toy(ctx)
        if not h:
            return
        r = ctx.rng
        cases = []
        for e in K.enc_cases(r, 60 if ctx.tier == "quick" else 600):
            c, m, z, t = K.resolved(e)
            if (c, m) not in K.VALID_TOY:
                continue
            cases.append(dict(c=e["cipher"], m=e["mac"], z=e["zip"], ttl=e["ttl"], au=e["auth_uid"], ag=e["auth_gid"], realm=e["realm"],
                              data=e["data"], uid=e["uid"], gid=e["gid"], rnd=e["rnd"], now=e["now"], _e=e))
        ops = ["retry reset"] + [c13.enc_line(e, "-") for e in cases]
        rc, out, err = cbuild.run_lines([h, ctx.work], ops)
        expect = [None] * len(ops)
        for e, l in zip(cases, out[1:]):
            kv = c13.fields(l)
            if kv.get("err") == "0" and kv.get("cred") not in (None, "NULL"):
                ops.append(c13.dec_line(e, bytes.fromhex(kv["cred"]), "-"))
                expect.append(e)
        st = {"i": 0}

        def oracle(op, outl):
            i = st["i"]; st["i"] += 1
            e = expect[i] if i < len(expect) else None
            if e is None:
                return None
            kv = c13.fields(outl)
            if kv.get("err") != "0":
                return "munge_decode of a fresh credential returned error %s" % kv.get("err")
            data = b"" if kv.get("data") in ("-", "NULL", None) else bytes.fromhex(kv["data"])
            if data != e["data"] or int(kv.get("len", -1)) != len(e["data"]):
                return "munge_decode returned a different payload / length (%s bytes for %d)" % (kv.get("len"), len(e["data"]))
            if int(kv["uid"]) != e["uid"] or int(kv["gid"]) != e["gid"]:
                return "munge_decode returned uid/gid %s:%s, the encoder was %d:%d" % (kv["uid"], kv["gid"], e["uid"], e["gid"])
            c, m, z, t = K.resolved(e["_e"])
            if int(kv["cipher"]) != c or int(kv["mac"]) != m or int(kv["zip"]) not in (0, z) or int(kv["ttl"]) != t:
                return "context metadata (cipher/mac/zip/ttl = %s/%s/%s/%s) differs from the resolved request" % (kv["cipher"], kv["mac"], kv["zip"], kv["ttl"])
            if int(kv["au"]) != e["au"] or int(kv["ag"]) != e["ag"]:
                return "restrictions differ"
            return None
        for o in ops:
            ctx.distinct(o)
        ctx.dist("client_level_encodes", len(cases)); ctx.dist("client_level_decodes", len(ops) - 1 - len(cases))
        if len(ops) > len(cases) + 1:
            ctx.sample({"stream": "client-level", "op": ops[len(cases) + 1][:200]})
        judge.run_and_judge(ctx, "client-level", ops, [h, ctx.work], [drv], oracle=oracle, what="round trip through libmunge")
    except ImportError as e:
        ctx.log("client-level stream skipped: %r" % e)


def size_limit_ops(r):
    """payloads around the point where the request / the credential no longer fits in 1 MiB"""
    ops, want = [], []
    for n in (786000, 786420, 1048540, 1048560, 1048577):
        data = bytes([65 + n % 7]) * n
        ops.append(("cred req %s now=1000000 peer=1:1 rnd=%s" % (cc.hx(cc.enc_req(cipher=0, mac=5, zip_=0, data=data)), "00" * 24), n))
    return ops


def run(ctx):
    ctx.rule = ("encode requests over cipher in {none,default,blowfish,cast5,aes128,aes256} x MAC in {default,md5,sha1,ripemd160,sha256,sha512} x zip in {none,default,bzlib,zlib} x ttl classes x "
                "restrictions x identities x payload sizes at block / base64 / compression edges (random, constant, text), each followed by a decode of the returned credential by an authorised client; "
                "toy-primitive build byte-exact vs the Lean model, real-primitive build by the oracle (payload, identity, resolved metadata). distinct = distinct op lines")
    ctx.assumptions += ["PrimLaws (decrypt∘encrypt, inflate∘deflate, digest lengths) hold for OpenSSL/zlib/bzlib: validated by the real-primitive stream, not proved",
                        "libmunge's client-side length check is not modelled; the daemon-side gate is (length_gate)"]
    g_dec.generate(ctx)
    if ctx.replay_in:
        rep = json.load(open(ctx.replay_in))
        drv = leanlib.driver(ctx); h = cc.build_toy(ctx)
        judge.run_and_judge(ctx, "replay", rep.get("ops") or [], [h], [drv], what="round trip (replay)")
        return
    # enc_compress (and the decode stages) translated with their primitive calls as events: the header says NONE exactly when the inner layer stays uncompressed
    if g_stages.generate(ctx):
        leanlib.check_props(ctx, "C02Stages")
    leanlib.check_props(ctx, "C01")
    drv = leanlib.driver(ctx)
    htoy = cc.build_toy(ctx)
    hreal = cc.build_real(ctx)
    n = 400 if ctx.tier == "quick" else 4000
    if drv and htoy:
        two_pass(ctx, htoy, drv, "roundtrip-toy", K.enc_cases(ctx.rng, n))
    if not hreal:                   # (a harness that does not build is a failed obligation already)
        return
    sizes = K.SIZES + ([4096, 65536] if ctx.tier == "quick" else [4096, 65536, 300000, 786000])
    two_pass(ctx, hreal, drv, "roundtrip-real", K.enc_cases(ctx.rng, n // 2, sizes), model=False)
    if drv:
        client_level(ctx, drv)
    # the top of the payload range: everything the daemon accepts at encode must decode (compressed payloads whose inner layer
    # exceeds the request limit, an incompressible payload whose credential just fits)
    big = []
    for (c, z, n, kind) in [(0, 3, 1048556, "c"), (0, 2, 1048556, "c"), (4, 3, 1048536, "c"), (4, 3, 1048550, "t"), (0, 3, 1048537, "t"), (0, 0, 786000, "r"), (4, 0, 700000, "r")]:
        data = bytes([66]) * n if kind == "c" else (b"munge credential payload " * (n // 25 + 1))[:n] if kind == "t" else ctx.rng.randbytes(n)
        big.append(dict(cipher=c, mac=5, zip=z, ttl=300, auth_uid=cc.ANY, auth_gid=cc.ANY, data=data, realm=b"", uid=1, gid=1, now=1000000, rnd=bytes(24)))
    two_pass(ctx, hreal, drv, "roundtrip-real-large", big, model=False)
    # size limit: real build only (the model's list-based base64 is quadratic)
    lim = size_limit_ops(ctx.rng)
    rc, out, err = cbuild.run_lines([hreal], [o for o, _ in lim], timeout=600)
    ctx.count(len(lim))
    bad = None
    for (op, n), l in zip(lim, out):
        rsp, kv = cc.rsp_of(l)
        if n + 30 > 1048576:
            if rsp.raw:
                bad = "request of %d payload bytes (> 1 MiB) was answered instead of refused" % n
        elif not (rsp.ok and rsp.kind == "enc"):
            bad = "no well-formed reply for a %d-byte payload" % n
        elif rsp.error_num == 0:
            # the credential comes back whole, or not at all
            raw = K.lenient_body(rsp.data)
            if raw is None or raw[-n:] != bytes([65 + n % 7]) * n:
                bad = "credential for a %d-byte payload is truncated or altered" % n
        ctx.dist("size_limit")
    ctx.obligation("oracle", "size limit: %d requests around 1 MiB on the real build" % len(lim), bad is None and rc == 0, (bad or "") + err[-800:])
    if bad or rc != 0:
        ctx.violation("size limit: " + (bad or "crash"), {"stream": "size-limit", "payload_sizes": [n for _, n in lim]}, found_input=True)
