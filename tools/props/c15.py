"""C15 - one daemon per socket; a crash never blocks the next start.

Model: lean/Munge/Model/Start.lean (transition system over an abstract file system; the program every process runs is
compiled from the callee lists that tools/gen/g_start.py extracts from munged.c / lock.c / conf.c / random.c on every
run); theorems: lean/Munge/Props/C15.lean.

Correspondence for this property is the *binary layer*: the real munged is built from ctx.repo and run (the sandbox is
root, strace is installed) — system-call order of a real start-up and clean stop against the generated order and the
model's program; a second start against a live daemon; SIGKILL injected at the file-system / socket system calls of
start-up and shutdown followed by a fresh start; clean stop; and the lock-file TOCTOU schedule (F5) with the window
widened by `strace -e inject=fcntl:delay_enter=`.  Every real outcome is compared with what the model predicts for the
same schedule, and judged by the property's own oracle (written from the statement, independent of the model)."""
import glob, json, os, re, signal, subprocess, time, concurrent.futures as cf
from ..vlib import leanlib, cbuild
from ..vlib.core import sh
from ..gen import g_start

LEVEL = "proof"
F5_KEY = "F5-lockfile-toctou"
NAMES = ("sock", "lock", "pid", "seed")
T_START = 10.0      # hard limit for a daemon to reach serving / to exit
DELAY_US = 1500000  # how long B is held before its F_SETLK in the F5 schedule
SW_DELAY_US = 4000000  # how long a stopping daemon is held in front of one unlink of its shutdown path


# ---------------------------------------------------------------------------------------------- building

def build_binaries(ctx):
    r = ctx.repo
    def rel(pat, drop=()):
        out = []
        for p in sorted(glob.glob(os.path.join(r, pat))):
            b = os.path.basename(p)
            if b.endswith("_test.c") or any(b.startswith(d) for d in drop):
                continue
            out.append(os.path.relpath(p, r))
        return out
    common = rel("src/libcommon/*.c") + ["src/libmissing/strlcpy.c", "src/libmissing/strlcat.c"] + rel("src/libmunge/*.c")
    munged = cbuild.build(ctx, "munged", rel("src/munged/*.c") + rel("src/common/*.c", drop=("hkdf",)) + common,
                          libs=["-lcrypto", "-lz", "-lbz2"], sanitize=False)
    canary = cbuild.build(ctx, "canary", ["h_start.c"] + common, sanitize=False)
    return munged, canary


# ---------------------------------------------------------------------------------------------- the lab

class Daemon:
    """One real munged -F instance in directory d, optionally under strace."""
    def __init__(self, lab, d, tag, inject=None, trace=False):
        self.lab, self.d, self.tag = lab, d, tag
        self.trace = os.path.join(d, "trace.%s" % tag) if (trace or inject) else None
        self.out = os.path.join(d, "out.%s" % tag)
        cmd = [lab.munged, "-F", "-S", lab.p(d, "sock"), "--key-file", lab.p(d, "key"), "--pid-file", lab.p(d, "pid"),
               "--seed-file", lab.p(d, "seed"), "--log-file", os.path.join(d, "log")]
        if self.trace:
            cmd = ["strace", "-f", "-o", self.trace, "-e", "trace=%file,%network,%desc,umask"] + \
                  (["-e", "inject=" + inject] if inject else []) + cmd
        self.cmd = cmd
        self.t0 = time.time()
        self.proc = subprocess.Popen(cmd, stdout=open(self.out, "w"), stderr=subprocess.STDOUT, stdin=subprocess.DEVNULL,
                                     start_new_session=True)
        lab.all.append(self)
        lab.ctx.count(1)
        self._mpid = None if self.trace else self.proc.pid

    def mpid(self, timeout=T_START):
        """pid of munged itself (the tracee when under strace)."""
        t = time.time()
        while self._mpid is None and time.time() - t < timeout:
            try:
                with open(self.trace) as f:
                    m = re.match(r"(\d+)\s+execve\(", f.readline())
                if m:
                    self._mpid = int(m.group(1))
                    break
            except OSError:
                pass
            if self.proc.poll() is not None:
                break
            time.sleep(0.003)
        return self._mpid

    def alive(self):
        return self.proc.poll() is None

    def serving(self):
        """Serving = alive and the pid file names this instance (it is written after listen())."""
        try:
            with open(self.lab.p(self.d, "pid")) as f:
                txt = f.read().strip()
        except OSError:
            return False
        return self.alive() and txt != "" and self.mpid(0.5) is not None and txt == str(self._mpid)

    def wait_serving(self, timeout=T_START):
        t = time.time()
        while time.time() - t < timeout:
            if self.serving():
                return True
            if not self.alive():
                return False
            time.sleep(0.003)
        return False

    def wait_exit(self, timeout=T_START):
        try:
            self.proc.wait(timeout)
        except subprocess.TimeoutExpired:
            return None
        return self.proc.returncode

    def term(self):
        p = self.mpid()
        if p and self.alive():
            try:
                os.kill(p, signal.SIGTERM)
            except ProcessLookupError:
                pass

    def stop(self, timeout=T_START):
        """SIGTERM and wait.  munged tests `got_terminate` and then blocks in accept(): a SIGTERM that arrives in
        between is only noticed at the next connection or signal, so the signal is repeated."""
        t = time.time()
        while time.time() - t < timeout:
            self.term()
            try:
                self.proc.wait(0.4)
                return self.proc.returncode
            except subprocess.TimeoutExpired:
                pass
        return None

    def destroy(self):
        if self.proc.poll() is None:
            try:
                os.killpg(self.proc.pid, signal.SIGKILL)
            except (ProcessLookupError, PermissionError):
                pass
            try:
                self.proc.wait(5)
            except subprocess.TimeoutExpired:
                pass

    def log(self):
        try:
            return open(self.out).read()[-600:]
        except OSError:
            return ""


class Lab:
    def __init__(self, ctx, munged, canary):
        self.ctx, self.munged, self.canary = ctx, munged, canary
        self.all = []
        self.n = 0

    def p(self, d, name):
        return os.path.join(d, {"sock": "sock", "lock": "sock.lock", "pid": "pid", "seed": "seed", "key": "key"}[name])

    def newdir(self, tag):
        self.n += 1
        d = os.path.join(self.ctx.work, "%s%d" % (tag, self.n))
        os.makedirs(d, mode=0o755)
        with open(os.path.join(d, "key"), "wb") as f:       # dd if=/dev/urandom bs=1 count=128
            f.write(os.urandom(128))
        os.chmod(os.path.join(d, "key"), 0o600)
        return d

    def names(self, d):
        return {n: os.path.lexists(self.p(d, n)) for n in NAMES}

    def ident(self, d):
        """What the statement says must stay untouched: socket inode, lock-file inode, pid-file content."""
        r = {}
        for n in ("sock", "lock"):
            try:
                r[n] = os.lstat(self.p(d, n)).st_ino
            except OSError:
                r[n] = None
        try:
            r["pid"] = open(self.p(d, "pid")).read()
        except OSError:
            r["pid"] = None
        return r

    def ask(self, d):
        rc, out = sh([self.canary, self.p(d, "sock")], timeout=10)
        self.ctx.count(1)
        return rc == 0 and out.strip() == "ok", out.strip()[:200]

    def cleanup(self):
        for x in self.all:
            x.destroy()


# ---------------------------------------------------------------------------------------------- strace -> operations

def parse_trace(path, lab, d):
    """Security-relevant system calls of the main thread, in order, in the vocabulary of the model's program.
    Returns list of dicts {op, gen, done}.  `done` is False for the call the process was killed in."""
    try:
        lines = open(path).read().split("\n")
    except OSError:
        return []
    main = None
    pend = {}
    calls = []
    counts = {}
    def count(nm):
        counts[nm] = counts.get(nm, 0) + 1
        return counts[nm]
    for ln in lines:
        m = re.match(r"(\d+)\s+(.*)$", ln)
        if not m:
            continue
        pid, rest = m.group(1), m.group(2)
        if main is None:
            main = pid
        if pid != main:
            continue
        if rest.endswith("<unfinished ...>"):
            txt = rest[:-len("<unfinished ...>")]
            pend[pid] = (txt, count(txt.split("(")[0]))
            continue
        m2 = re.match(r"<\.\.\. (\w+) resumed>(.*)$", rest)
        if m2:
            txt, c = pend.pop(pid, (m2.group(1) + "(", None))
            rest = txt + m2.group(2)
        else:
            c = None
        m3 = re.match(r"(\w+)\((.*)\)\s+= (\S+)", rest)
        if m3:
            calls.append((m3.group(1), m3.group(2), m3.group(3), c if c is not None else count(m3.group(1))))
    for pid, (txt, c) in pend.items():          # killed inside a call that never resumed
        m3 = re.match(r"(\w+)\((.*)$", txt)
        if m3 and pid == main:
            calls.append((m3.group(1), m3.group(2), "?", c))
    path_of = {lab.p(d, n): n for n in NAMES}
    fds = {}       # fd -> "lock" | "sock?" | "listen" | "pid" | "seed"
    ops = []
    cur = [None, None]
    def add(op, gen, ret):
        ops.append({"op": op, "gen": gen, "done": ret != "?", "sys": cur[0], "when": cur[1]})
    for name, args, ret, when in calls:
        cur[0], cur[1] = name, when
        if name in ("openat", "open"):
            m = re.search(r'"([^"]*)", ([A-Z_|0-9]+)(?:, (0[0-7]*))?', args)
            if not m or m.group(1) not in path_of:
                continue
            n, flags, mode = path_of[m.group(1)], m.group(2).split("|"), int(m.group(3) or "0", 8)
            if "O_CREAT" not in flags and n != "lock":
                continue
            if ret.isdigit():
                fds[ret] = n
            ce = "%d%d" % ("O_CREAT" in flags, "O_EXCL" in flags)
            if n == "lock":
                add("openLock:%s:%d" % (ce, mode), "creat:lock", ret)
            else:
                add("create:%s:%d" % (n, mode), "creat:%s" % n, ret)
        elif name in ("unlink", "unlinkat"):
            m = re.search(r'"([^"]*)"', args)
            if m and m.group(1) in path_of:
                add("unlink:%s" % path_of[m.group(1)], "unlink:%s" % path_of[m.group(1)], ret)
        elif name == "fcntl":
            m = re.match(r"(\d+), (F_\w+)", args)
            if m and m.group(2) in ("F_SETLK", "F_SETLKW", "F_GETLK"):
                op = {"F_SETLK": "setlk", "F_SETLKW": "setlkw", "F_GETLK": "getlk"}[m.group(2)]
                if op == "setlk" and ret.startswith("-1"):
                    op = "setlk!"
                ops.append({"op": op, "gen": op.rstrip("!"), "done": ret != "?", "busy": ret.startswith("-1"), "sys": name, "when": when})
        elif name in ("newfstatat", "fstat", "stat", "lstat"):
            m = re.match(r"(\d+), \"\"", args) if name == "newfstatat" else re.match(r"(\d+),", args) if name == "fstat" else None
            if m and fds.get(m.group(1)) == "lock":
                add("fstatLock", "fstat:lock", ret)
                continue
            m = re.search(r'"([^"]*)"', args)
            if m and m.group(1) in path_of and path_of[m.group(1)] == "lock" and "AT_SYMLINK_NOFOLLOW" not in args and name != "lstat":
                add("revalidate", "stat:lock", ret)
        elif name == "socket":
            if ret.isdigit():
                fds[ret] = "sock?"
                ops.append({"op": "socket", "gen": "socket", "done": True, "fd": ret, "tentative": True, "sys": name, "when": when,
                            "plain": args.replace(" ", "") == "AF_UNIX,SOCK_STREAM,0"})
            elif ret == "?" and "AF_UNIX" in args and "SOCK_CLOEXEC" not in args:
                add("socket", "socket", ret)
        elif name == "bind":
            m = re.match(r"(\d+), \{sa_family=AF_UNIX, sun_path=\"([^\"]*)\"", args)
            if m and m.group(2) in path_of:
                for o in ops:
                    if o.get("fd") == m.group(1) and o.get("tentative"):
                        o["tentative"] = False
                fds[m.group(1)] = "listen"
                add("bind", "bind:%s" % path_of[m.group(2)], ret)
        elif name == "listen":
            m = re.match(r"(\d+),", args)
            if m and fds.get(m.group(1)) == "listen":
                add("listen", "listen", ret)
        elif name == "close":
            m = re.match(r"(\d+)", args)
            if m and fds.get(m.group(1)) in ("listen", "lock"):
                k = fds.pop(m.group(1))
                add("closeListen" if k == "listen" else "closeLock", "close:%s" % k, ret)
            elif m and fds.get(m.group(1)) in ("pid", "seed"):
                ops.append({"op": None, "gen": "close:tmp", "done": ret != "?", "sys": name, "when": when, "extra": "close:" + fds.pop(m.group(1))})
            elif m:
                if fds.get(m.group(1)) == "sock?":
                    ops[:] = [o for o in ops if not (o.get("fd") == m.group(1) and o.get("tentative"))]
                fds.pop(m.group(1), None)
        elif name == "umask":
            m = re.match(r"(\d+)", args)
            if m:
                ops.append({"op": None, "gen": "umask:0" if int(m.group(1), 8) == 0 else "umask:-", "done": ret != "?", "sys": None, "when": when})
        elif name == "write":
            m = re.match(r"(\d+),", args)
            if m and fds.get(m.group(1)) in ("pid", "seed"):
                ops.append({"op": None, "gen": "write:tmp", "done": ret != "?", "sys": name, "when": when, "extra": "write:" + fds[m.group(1)]})
    # a socket() that was never bound to our path (NSS lookups and the like) is not ours — unless the process died
    # right after creating it
    keep = []
    for i, o in enumerate(ops):
        if o.get("tentative") and not (o.get("plain") and all(not x["op"] or not x["done"] for x in ops[i + 1:])):
            continue
        keep.append(o)
    return keep


def model_ops(prog_line):
    kv = dict(x.split("=", 1) for x in prog_line.split())
    st = [x for x in kv.get("startup", "").split(",") if x]
    sd = [x for x in kv.get("shutdown", "").split(",") if x]
    return st, sd, kv.get("reval") == "1"


def effective(ops):
    """Indices of the model operations that correspond to a real system call: a `closeLock` before any `openLock`
    is the guarded `if (conf->lockfile_fd >= 0) close (...)` at the top of lock_create, which is not executed."""
    idx, opened = [], False
    for i, o in enumerate(ops):
        if o.startswith("openLock"):
            opened = True
        if o == "closeLock" and not opened:
            continue
        idx.append(i)
    return idx


def gen_visible(sys_line):
    """The generated call order of main's normal path, reduced to what strace shows."""
    out, opened = [], False
    for t in sys_line.split(","):
        w = t.split(":")
        if w[0] == "open" and w[2][0] == "1":
            out.append("creat:%s" % w[1]); opened = opened or w[1] == "lock"
        elif w[0] == "fopenw":
            out.append("creat:%s" % w[1])
        elif w[0] in ("unlink", "bind"):
            out.append(t)
        elif w[0] == "close" and w[1] in ("lock", "listen"):
            if w[1] == "lock" and not opened:
                continue
            out.append(t)
        elif t in ("fstat:lock", "stat:lock", "socket", "listen", "write:tmp", "close:tmp") or w[0] == "umask":
            out.append(t)
        elif w[0] in ("setlk", "setlkw"):
            out.append(w[0])
    return out


def parse_obs(line):
    kv = dict(x.split("=", 1) for x in line.split() if "=" in x)
    ph = {}
    for x in kv.get("ph", "").split(";"):
        if x:
            a = x.split(":")
            ph[int(a[0])] = a[1]
    return {"names": {n: kv.get(n) == "1" for n in NAMES}, "server": kv.get("server"), "owners": kv.get("owners"), "ph": ph}


class Model:
    def __init__(self, ctx, drv):
        self.ctx, self.drv = ctx, drv
        self.cache = {}

    def ask(self, line):
        if line not in self.cache:
            rc, out, err = cbuild.run_lines([self.drv], ["start " + line], timeout=60)
            self.ctx.count(1)
            self.cache[line] = out[0] if out else "driver-failed rc=%d %s" % (rc, err[-200:])
        return self.cache[line]

    def run(self, sched, variant=None):
        return parse_obs(self.ask(("runx %s %s" % (variant, sched)) if variant else "run " + sched))


# ---------------------------------------------------------------------------------------------- scenarios
# Every scenario returns a dict with "oracle" (None, or what the property's own statement says is wrong) and "corr"
# (the model-versus-binary comparisons); judge() records them after the re-run filter.

def CORR(acc, kind, name, ok, detail=""):
    acc.append((kind, name, bool(ok), detail))


def scen_order(ctx, lab, model):
    """(1)+(4): one real start-up, canary, clean stop under strace.  Order of the security-relevant system calls
    against the model's program and against the generated call order; names afterwards."""
    res_corr = []
    d = lab.newdir("order")
    a = Daemon(lab, d, "A", trace=True)
    ok = a.wait_serving()
    can = lab.ask(d) if ok else (False, "not serving")
    mid_names = lab.names(d)
    rc = a.stop()
    a.destroy()
    names = lab.names(d)
    ops = parse_trace(a.trace, lab, d)
    real = [o["op"] for o in ops if o["op"]]
    realg = [o["gen"] for o in ops]
    st, sd, reval = model_ops(model.ask("prog"))
    mops = st + sd
    meff = [mops[i] for i in effective(mops)]
    gen = gen_visible(model.ask("sys"))
    res = {"scenario": "order", "corr": res_corr, "dir": d, "serving": ok, "canary": can, "exit": rc, "names_after_stop": names,
           "real_ops": real, "model_ops": meff, "real_calls": realg, "generated_calls": gen, "log": a.log() if not ok else ""}
    CORR(res_corr, "correspondence", "system-call order of a real start-up + clean stop = the model's program (%d calls)" % len(meff),
                   real == meff, "real=%s model=%s" % (real, meff))
    CORR(res_corr, "correspondence", "… = the generated callee order of main's normal path incl. umask (%d calls)" % len(gen),
                   realg == gen, "real=%s generated=%s" % (realg, gen))
    pred = model.run("s1,X1,t1,X1")
    CORR(res_corr, "correspondence", "names after a clean stop as the model predicts", pred["names"] == names,
                   "real=%s model=%s" % (names, pred["names"]))
    # property oracle, from the statement
    bad = None
    if not ok or not can[0]:
        bad = "a start on an empty directory did not reach serving / did not answer (%s) %s" % (can[1], a.log())
    elif rc != 0:
        bad = "clean stop exited with status %s" % rc
    elif names["sock"] or names["lock"] or names["pid"]:
        bad = "after a clean stop these names are left: %s" % [n for n in ("sock", "lock", "pid") if names[n]]
    elif not names["seed"]:
        bad = "after a clean stop there is no seed file"
    res["oracle"] = bad
    ctx.dist("order_runs")
    ctx.distinct("order")
    return res


def scen_second(ctx, lab, model, k=1):
    """(2): k further starts against a live daemon, one after the other, the last ones concurrently."""
    res_corr = []
    d = lab.newdir("second")
    a = Daemon(lab, d, "A")
    if not a.wait_serving():
        return {"scenario": "second", "corr": res_corr, "oracle": "first instance did not reach serving: " + a.log()}
    before = lab.ident(d)
    bs = [Daemon(lab, d, "B%d" % i, trace=True) for i in range(k)]
    rcs = [b.wait_exit() for b in bs]
    after = lab.ident(d)
    can = lab.ask(d)
    alive = a.alive()
    bad = None
    touched = []
    for i, b in enumerate(bs):
        ops = [o["op"] for o in parse_trace(b.trace, lab, d) if o["op"]]
        forbidden = [o for o in ops if o.split(":")[0] in ("unlink", "bind", "listen", "create", "socket")]
        if forbidden:
            touched.append((i, forbidden))
    if any(rc is None for rc in rcs):
        bad = "a second instance was still running after %.0f s beside a live daemon (no --force)" % T_START
    elif any(rc == 0 for rc in rcs):
        bad = "a second instance exited with status 0"
    elif not alive:
        bad = "the running daemon died when a second instance was started"
    elif before != after:
        bad = "the running daemon's socket inode / lock file / pid file changed: %s -> %s" % (before, after)
    elif not can[0]:
        bad = "the running daemon no longer answers: %s" % can[1]
    elif touched:
        bad = "a refused instance executed %s" % touched
    pred = model.run("s1,X1," + ",".join("s%d,X%d" % (i + 2, i + 2) for i in range(k)))
    agree = pred["server"] == "1" and all(pred["ph"].get(i + 2) == "exit1" for i in range(k)) and \
        pred["names"] == lab.names(d)
    CORR(res_corr, "correspondence", "%d start(s) against a live daemon: refused, as the model predicts" % k,
                   agree == (bad is None), "real: rcs=%s alive=%s names=%s; model: %s" % (rcs, alive, lab.names(d), pred))
    a.stop()
    for x in bs + [a]:
        x.destroy()
    ctx.dist("second_start_runs", k)
    ctx.distinct("second-%d" % k)
    return {"scenario": "second", "corr": res_corr, "k": k, "rcs": rcs, "before": before, "after": after, "canary": can, "oracle": bad}


def scen_race(ctx, lab, model, k, rnd):
    """k concurrent starts on one socket, with random system-call delays to vary the interleaving."""
    res_corr = []
    d = lab.newdir("race")
    ds = []
    delays = []
    for i in range(k):
        sysc = rnd.choice(["openat", "fcntl", "unlink", "bind", "socket", "listen", None])
        us = rnd.choice([0, 2000, 20000, 60000])
        inj = "%s:delay_enter=%d" % (sysc, us) if sysc and us else None
        delays.append(inj)
        ds.append(Daemon(lab, d, "R%d" % i, inject=inj, trace=True))
    t = time.time()
    while time.time() - t < T_START and sum(1 for x in ds if x.alive()) > 1:
        time.sleep(0.01)
    time.sleep(0.15)
    alive = [x for x in ds if x.alive()]
    serving = [x for x in alive if x.serving()]
    can = lab.ask(d)
    bad = None
    if len(alive) != 1:
        bad = "%d of %d concurrently started instances are alive on one socket (no --force)" % (len(alive), k)
    elif not serving or not can[0]:
        bad = "the surviving instance of %d concurrent starts does not serve (%s)" % (k, can[1])
    elif any(x.proc.returncode == 0 for x in ds if not x.alive()):
        bad = "a refused instance exited with status 0"
    for x in alive:
        x.stop()
    for x in ds:
        x.destroy()
    ctx.dist("concurrent_start_rounds")
    ctx.distinct("race-%s" % "|".join(str(x) for x in delays))
    return {"scenario": "race", "corr": res_corr, "k": k, "delays": delays, "alive": len(alive), "canary": can, "oracle": bad}


def crash_points(ctx, lab, model):
    """(syscall, N, phase) for every file-system / socket system call of a baseline start-up and clean stop that
    concerns the four names or the two descriptors: N = ordinal of that call among the main thread's calls of the same
    system call (what `strace -e inject=<syscall>:signal=KILL:when=N` counts)."""
    d = lab.newdir("base")
    a = Daemon(lab, d, "A", trace=True)
    if not a.wait_serving():
        a.destroy()
        return [], "baseline did not reach serving: " + a.log()
    a.stop(); a.destroy()
    st, sd, reval = model_ops(model.ask("prog"))
    n_start = len(effective(st))
    pts, seen = [], 0
    for o in parse_trace(a.trace, lab, d):
        if o.get("sys") and o.get("when"):
            pts.append({"syscall": o["sys"], "when": o["when"], "phase": "start" if seen < n_start else "stop",
                        "at": o["op"] or o.get("extra")})
        if o["op"]:
            seen += 1
    return pts, None


def scen_crash(ctx, lab, model, pt, pt2=None):
    """(3): SIGKILL on entering the N-th call of a system call (start-up or shutdown), then a fresh start.
    With pt2: the first restart is itself killed at start-up point pt2, and a third instance must serve."""
    res_corr = []
    d = lab.newdir("crash")
    a = Daemon(lab, d, "A", inject="%s:signal=KILL:when=%d" % (pt["syscall"], pt["when"]))
    if pt["phase"] == "stop":
        if a.wait_serving():        # (if it is already dead the kill hit a late call of start-up: a crash point as well)
            rc = a.stop()
    rc = a.wait_exit()
    a.destroy()
    ops = parse_trace(a.trace, lab, d)
    done = [o["op"] for o in ops if o["op"] and o["done"]]
    killed_in = [o["op"] or o["gen"] for o in ops if not o["done"]]
    left = lab.names(d)
    # the model at the same point
    st, sd, reval = model_ops(model.ask("prog"))
    eff_s, eff_d = effective(st), effective(st + sd)
    n = len(done)
    n_real_start = len(eff_s)
    def sched(n):
        if n <= n_real_start:
            k = eff_s[n] if n < n_real_start else len(st)
            return "s1,x1*%d,k1" % k if k < len(st) else "s1,X1,k1"
        j = n - n_real_start
        return "s1,X1,t1,x1*%d,k1" % j
    cands = [sched(n)] + ([sched(n + 1)] if killed_in and n + 1 <= len(eff_d) else [])
    preds = [model.run(s) for s in cands]
    agree = rc is not None and any(p["names"] == left for p in preds)
    if agree:       # keep the model states that match what is on disk
        cands = [c for c, p in zip(cands, preds) if p["names"] == left]
    CORR(res_corr, "correspondence", "SIGKILL at %s #%d (%s): names left behind as the model predicts" % (pt["syscall"], pt["when"], pt["phase"]),
                   agree, "real: left=%s done=%s killed_in=%s; model %s -> %s" % (left, done, killed_in, cands, [p["names"] for p in preds]))
    if pt2:
        x = Daemon(lab, d, "X", inject="%s:signal=KILL:when=%d" % (pt2["syscall"], pt2["when"]))
        x.wait_exit()
        x.destroy()
        xdone = [o["op"] for o in parse_trace(x.trace, lab, d) if o["op"] and o["done"]]
        k2 = eff_s[len(xdone)] if len(xdone) < n_real_start else len(st)
        cands = [c + ",s9,x9*%d,k9" % k2 for c in cands]
    # fresh start
    b = Daemon(lab, d, "B")
    ok = b.wait_serving()
    can = lab.ask(d) if ok else (False, "not serving")
    blog = "" if ok else b.log()
    predb = [model.run(s + ",s2,X2") for s in cands]
    CORR(res_corr, "correspondence", "… and the fresh start serves, as the model predicts",
                   any((p["ph"].get(2) == "serving" and p["server"] == "2") == (ok and can[0]) for p in predb),
                   "real ok=%s canary=%s; model=%s" % (ok, can, predb))
    bad = None
    if rc is None:
        bad = "victim not dead"
    elif not ok or not can[0]:
        bad = "after SIGKILL at %s #%d of %s (completed: %s) a fresh start without --force did not serve: %s %s" % (
            pt["syscall"], pt["when"], "start-up" if pt["phase"] == "start" else "shutdown", done, can[1], blog)
    rcb = b.stop()
    after = lab.names(d)
    if bad is None and (rcb != 0 or after["sock"] or after["lock"] or after["pid"] or not after["seed"]):
        bad = "clean stop of the restarted daemon: status %s, names left %s" % (rcb, after)
    b.destroy()
    ctx.dist("crash_points_%s%s" % (pt["phase"], "_double" if pt2 else ""))
    ctx.distinct("crash-%s-%s" % (pt["at"], pt2["at"] if pt2 else ""))
    return {"scenario": "crash", "corr": res_corr, "pt": pt, "pt2": pt2, "victim_done": done, "killed_in": killed_in, "left": left, "restart_serving": ok,
            "canary": can, "oracle": bad}


def scen_kill_serving(ctx, lab, model):
    """SIGKILL while serving (quiescent), then a fresh start."""
    res_corr = []
    d = lab.newdir("killserv")
    a = Daemon(lab, d, "A")
    if not a.wait_serving():
        return {"scenario": "kill_serving", "corr": res_corr, "oracle": "did not reach serving: " + a.log()}
    os.kill(a.mpid(), signal.SIGKILL)
    a.wait_exit(); a.destroy()
    left = lab.names(d)
    pred = model.run("s1,X1,k1")
    CORR(res_corr, "correspondence", "SIGKILL while serving: names left behind as the model predicts", pred["names"] == left,
                   "real=%s model=%s" % (left, pred["names"]))
    b = Daemon(lab, d, "B")
    ok = b.wait_serving()
    can = lab.ask(d) if ok else (False, "not serving")
    bad = None if ok and can[0] else "after SIGKILL of a serving daemon a fresh start without --force did not serve: %s %s" % (can[1], b.log())
    b.stop(); b.destroy()
    ctx.distinct("kill-serving")
    return {"scenario": "kill_serving", "corr": res_corr, "left": left, "oracle": bad}


def scen_pathlen(ctx, lab, model, n):
    """A socket pathname of exactly n bytes (around sizeof (sun_path)): either the start is refused and nothing is left behind, or the
    daemon serves ON THE CONFIGURED NAME, survives SIGKILL + fresh start without --force, and a clean stop removes what it made.
    (The name bound must be the name locked and unlinked: a silently truncated sun_path breaks both clauses of the statement.)"""
    import stat as _stat
    lab.n += 1
    base = os.path.join(ctx.work, "pl%d_" % lab.n)
    pad = n - len(base) - len("/sock")
    if pad < 1:
        return {"scenario": "pathlen", "n": n, "corr": [], "oracle": None, "skipped": "work directory name too long for %d" % n}
    d = base + "x" * pad
    os.makedirs(d, mode=0o755)
    with open(os.path.join(d, "key"), "wb") as f:
        f.write(os.urandom(128))
    os.chmod(os.path.join(d, "key"), 0o600)
    assert len(lab.p(d, "sock")) == n

    def stray():
        out = []
        for x in os.listdir(d):
            try:
                if _stat.S_ISSOCK(os.lstat(os.path.join(d, x)).st_mode) and x != "sock":
                    out.append(x)
            except OSError:
                pass
        return out
    bad = None
    a = Daemon(lab, d, "A")
    if not a.wait_serving():
        a.wait_exit(5); a.destroy()
        if stray() or lab.names(d)["sock"]:
            bad = "start with a %d-byte socket name was refused but left a socket inode behind (%s)" % (n, stray() or "sock")
        ctx.distinct("pathlen-%d-refused" % n)
        return {"scenario": "pathlen", "n": n, "corr": [], "oracle": bad, "outcome": "refused"}
    can = lab.ask(d)
    if not can[0]:
        bad = "daemon started with a %d-byte socket name but does not serve on it (%s; socket inodes in the directory: %s)" % (n, can[1], stray() or "none")
    os.kill(a.mpid(), signal.SIGKILL)
    a.wait_exit(); a.destroy()
    b = Daemon(lab, d, "B")
    ok = b.wait_serving()
    can = lab.ask(d) if ok else (False, "not serving")
    if not bad and not (ok and can[0]):
        bad = "%d-byte socket name: after SIGKILL a fresh start without --force did not serve: %s %s" % (n, can[1], b.log()[-300:])
    b.stop(); b.destroy()
    left = lab.names(d)
    if not bad and (left["sock"] or left["lock"] or left["pid"] or stray()):
        bad = "%d-byte socket name: after a clean stop these remain: %s %s" % (n, [k for k in ("sock", "lock", "pid") if left[k]], stray())
    ctx.distinct("pathlen-%d-served" % n)
    return {"scenario": "pathlen", "n": n, "corr": [], "oracle": bad, "outcome": "served"}


def scen_f5(ctx, lab, model, c_first=False):
    """(5): A serves; B is held between open(lockfile) and F_SETLK; A is stopped cleanly; then either B continues and C
    starts afterwards, or (c_first) C starts and serves while B is still held and B continues afterwards."""
    res_corr = []
    d = lab.newdir("f5")
    a = Daemon(lab, d, "A")
    if not a.wait_serving():
        CORR(res_corr, "correspondence", "lock-file window schedule could be driven on the real binary", False, "A did not reach serving: " + a.log())
        return {"scenario": "f5", "corr": res_corr, "oracle": None, "skipped": "A did not reach serving: " + a.log()}
    a_lock_ino = lab.ident(d)["lock"]
    b = Daemon(lab, d, "B", inject="fcntl:delay_enter=%d:when=1" % DELAY_US)
    # wait until B has the lock file open and sits in front of the fcntl
    t = time.time()
    opened = False
    while time.time() - t < T_START:
        try:
            txt = open(b.trace).read()
        except OSError:
            txt = ""
        if re.search(r"openat\([^\n]*sock\.lock[^\n]*= \d+", txt) or "sock.lock" in txt and "fcntl(" in txt:
            opened = True
            break
        time.sleep(0.002)
    t_open = time.time()
    rca = a.stop()
    t_stop = time.time() - t_open
    in_window = opened and t_stop < DELAY_US / 1e6 * 0.8       # A was gone while B was still held
    if c_first:
        c = Daemon(lab, d, "C")
        c_serving = c.wait_serving()
        b_ident = lab.ident(d)
        in_window = in_window and c_serving and time.time() - t_open < DELAY_US / 1e6 * 0.8
        # B goes on: it either serves (then the pid file names it) or exits
        t = time.time()
        while time.time() - t < DELAY_US / 1e6 + T_START and b.alive() and not b.serving():
            time.sleep(0.005)
        b_serving = b.serving()
        time.sleep(0.1)
        rcb = None if b.alive() else b.proc.returncode
        rcc = None if c.alive() else c.wait_exit(1)
    else:
        # B goes on
        b_serving = b.wait_serving(timeout=DELAY_US / 1e6 + T_START)
        rcb = None if b.alive() else b.proc.returncode
        b_ident = lab.ident(d)
        c = Daemon(lab, d, "C")
        c_serving = c.wait_serving()
        rcc = None if c.alive() else c.wait_exit(1)
        time.sleep(0.05)
    alive = [x.tag for x in (a, b, c) if x.alive()]
    c_ident = lab.ident(d)
    can = lab.ask(d)
    sched = "A serving; B started under `strace -e inject=fcntl:delay_enter=%d:when=1` (held between open(sock.lock) and F_SETLK); " \
            "SIGTERM to A, A exits %s after %.3f s; %s" % (DELAY_US, rca, t_stop,
            "C started normally and serves; B continues" if c_first else "B continues; C started normally")
    bad = None
    if len(alive) > 1:
        bad = "%s are both alive on one socket path without --force (B locked the lock file it had opened, inode %s, which " \
              "A unlinked meanwhile; the name now refers to inode %s; socket inode %s -> %s)" % (
                  " and ".join(alive), a_lock_ino, c_ident["lock"], b_ident["sock"], c_ident["sock"])
    elif len(alive) == 0:
        bad = "nobody serves after the schedule (B exit %s, C exit %s)" % (rcb, rcc)
    elif not can[0]:
        bad = "the surviving instance does not answer: %s" % can[1]
    # model prediction for the same schedule
    st, sd, reval = model_ops(model.ask("prog"))
    k = st.index("setlk") if "setlk" in st else 0
    pred = model.run(("s1,X1,s2,x2*%d,t1,X1,s3,X3,X2" if c_first else "s1,X1,s2,x2*%d,t1,X1,X2,s3,X3") % k)
    m_alive = sorted(t for t, p in (("B", 2), ("C", 3)) if pred["ph"].get(p) in ("serving", "starting"))
    CORR(res_corr, "correspondence", "lock-file window schedule (A stops while B is between open and F_SETLK; %s): survivors as the model predicts" %
                   ("C, then B" if c_first else "B, then C"),
                   (not in_window) or sorted(alive) == m_alive, "real alive=%s (B rc=%s, C rc=%s); model alive=%s %s" % (alive, rcb, rcc, m_alive, pred))
    for x in (b, c):
        x.stop()
    for x in (a, b, c):
        x.destroy()
    ctx.dist("f5_schedule_runs")
    ctx.distinct("f5-%s" % c_first)
    if not in_window:
        CORR(res_corr, "correspondence", "lock-file window schedule could be driven on the real binary", False,
             "B was not held between open(lockfile) and F_SETLK long enough (opened=%s, A stopped after %.3f s)" % (opened, t_stop))
    return {"scenario": "f5", "corr": res_corr, "c_first": c_first, "schedule": sched, "window_hit": in_window, "alive": alive, "exit": {"A": rca, "B": rcb, "C": rcc},
            "b_serving": b_serving, "c_serving": c_serving, "canary": can, "model": pred, "oracle": bad,
            "b_log": b.log()[-300:], "c_log": c.log()[-300:]}


def scen_shutdown_window(ctx, lab, model, k):
    """Stop/start overlap: A is stopped (SIGTERM) under `strace -e inject=unlink:delay_enter` so that it sits for 4 s in front of
    the k-th unlink of its life - 3: the socket, 4: the lock file, 5: the seed, 6: the pid file, all on the shutdown path; B is
    started inside that window; A then finishes; C is started.  Whatever the window, at the end exactly one instance is alive and it
    answers on the socket path (mutual exclusion never lapses between "A released the lock" and "A is gone", and nothing A does on
    its way out takes the successor's socket away)."""
    res_corr = []
    d = lab.newdir("sw%d" % k)
    a = Daemon(lab, d, "A", inject="unlink:delay_enter=%d:when=%d" % (SW_DELAY_US, k))
    if not a.wait_serving():
        CORR(res_corr, "correspondence", "stop/start overlap could be driven on the real binary", False, "A did not reach serving: " + a.log())
        return {"scenario": "sw%d" % k, "corr": res_corr, "oracle": None, "skipped": "A did not reach serving"}
    # (the strace log cannot be used to see where A is: strace itself sleeps during the injected delay; munged's own output says
    #  when the accept loop has been left)
    t0 = time.time()
    held = False
    while time.time() - t0 < 3.0:
        a.term()
        time.sleep(0.05)
        txt = ""
        for f in (a.out, os.path.join(d, "log")):
            try:
                txt += open(f).read()
            except OSError:
                pass
        if "Exiting on signal" in txt:
            held = True
            break
    time.sleep(0.2)                                   # A runs from the signal to its k-th unlink in a few milliseconds
    t_held = time.time()
    b = Daemon(lab, d, "B")
    t = time.time()
    while time.time() - t < 2.5 and b.alive() and not b.serving():
        time.sleep(0.005)
    b_serving = b.serving()
    in_window = held and a.alive() and time.time() - t_held < SW_DELAY_US / 1e6 * 0.8
    rca = a.wait_exit(SW_DELAY_US / 1e6 + T_START)
    time.sleep(0.05)
    rcb = None if b.alive() else b.proc.returncode
    c = Daemon(lab, d, "C")
    t = time.time()
    while time.time() - t < 1.5 and c.alive() and not c.serving():
        time.sleep(0.005)
    time.sleep(0.1)
    rcc = None if c.alive() else c.proc.returncode
    alive = [x.tag for x in (a, b, c) if x.alive()]
    can = lab.ask(d)
    ident = lab.ident(d)
    sched = "A serving under `strace -e inject=unlink:delay_enter=%d:when=%d`; SIGTERM to A (held in front of unlink #%d); B started %s; A exits %s; C started" % (
        SW_DELAY_US, k, k, "and serves" if b_serving else "and exits %s" % rcb, rca)
    bad = None
    if in_window:
        if len(alive) > 1:
            bad = "%s are both alive on one socket path without --force after a stop/start overlap (window: A held before unlink #%d of its life)" % (" and ".join(alive), k)
        elif len(alive) == 0:
            bad = "nobody serves after the overlap (A exit %s, B exit %s, C exit %s): a fresh start was refused although the path was free" % (rca, rcb, rcc)
        elif not can[0]:
            bad = "%s is alive and holds the lock but does not answer on the socket path (its socket was removed by the instance that was shutting down): %s" % (alive[0], can[1])
    else:
        CORR(res_corr, "correspondence", "stop/start overlap could be driven on the real binary", False,
             "B was not started inside the window (held=%s, A alive=%s)" % (held, a.alive()))
    for x in (b, c):
        x.stop()
    for x in (a, b, c):
        x.destroy()
    ctx.dist("shutdown_window_runs")
    ctx.distinct("sw-%d" % k)
    return {"scenario": "sw%d" % k, "corr": res_corr, "schedule": sched, "window_hit": in_window, "alive": alive, "exit": {"A": rca, "B": rcb, "C": rcc},
            "b_serving": b_serving, "canary": can, "ident": ident, "oracle": bad}


# ---------------------------------------------------------------------------------------------- judging

def judge(ctx, res, rerun, what):
    """Record a scenario.  An oracle failure or a model/binary disagreement counts only if it shows again on an
    immediate re-run (the second outcome is then the one recorded)."""
    def wrong(r):
        return bool(r.get("oracle")) or any(not c[2] for c in r.get("corr", []))
    if wrong(res):
        first = res.get("oracle") or [c[1] for c in res["corr"] if not c[2]]
        ctx.log("%s: %s — re-running" % (what, str(first)[:300]))
        res2 = rerun()
        if not wrong(res2):
            ctx.log("did not reproduce on the immediate re-run: logged, not reported")
            ctx.cov.setdefault("flaky", []).append({"what": what, "first": str(first)[:300]})
        res2["first_run"] = first
        res = res2
    for c in res.get("corr", []):
        ctx.obligation(*c)
    if not res.get("oracle"):
        return True
    # one VIOLATION line per kind of failure (the key also matches known_findings.json for F5)
    key = F5_KEY if res.get("scenario") == "f5" and "both alive" in res["oracle"] else "C15-" + str(res.get("scenario"))
    ctx.obligation("oracle", what, False, res["oracle"])
    rep = {k: v for k, v in res.items() if k not in ("oracle", "corr")}
    rep["reason"] = res["oracle"]
    ctx.violation("%s: %s" % (what, res["oracle"]), rep, found_input=True, finding_key=key)
    return False


def run(ctx):
    thorough = ctx.tier == "thorough"
    ctx.rule = ("real munged -F instances built from the source tree, in private directories: evaluations = daemon runs + canary requests + model "
                "schedule evaluations; distinct = distinct scenarios (order/clean stop, second start ×k, concurrent-start rounds keyed by their "
                "injected delays, one per SIGKILL point (system call, ordinal, phase), kill while serving, the lock-file window schedule); "
                "one SIGKILL point per file-system/socket call of start-up and shutdown; thorough: more race rounds, second starts, double crashes")
    ctx.assumptions += [
        "POSIX semantics as written into Model/Start.lean: names -> inodes, unlink/open(O_CREAT)/bind (EADDRINUSE on an existing name), fcntl write "
        "locks owned by a process and released when it closes the file or dies, an inode number is not reused while a descriptor is open",
        "any failing call on the start-up path ends in log_err/log_errno = exit(1) without cleanup (Gen.Start.lock*Exits are extracted; the "
        "other error branches are guard-classified `failure` by the generator)",
        "configured names are set (`if (conf->socket_name)`, `if (seed_path != NULL)` … treated as true); the daemon runs in the foreground; no --force",
        "only sampled real interleavings are run on the binary (the theorems quantify over all schedules of the model)",
        "clean_stop and restart_after_crash are stated for a process running alone",
    ]
    g_start.generate(ctx)
    if ctx.replay_in:
        return replay(ctx)
    failed = leanlib.check_props(ctx, "C15")
    drv = leanlib.driver(ctx)
    munged, canary = build_binaries(ctx)
    rc, _ = sh(["strace", "-V"], timeout=10)
    ctx.obligation("build", "strace available", rc == 0)
    if not drv or not munged or not canary or rc != 0:
        return
    lab = Lab(ctx, munged, canary)
    model = Model(ctx, drv)
    try:
        ctx.log("binary layer: munged and canary built")
        r = scen_order(ctx, lab, model)
        ctx.sample("order: " + ",".join(r["real_ops"]))
        judge(ctx, r, lambda: scen_order(ctx, lab, model), "start, serve, clean stop")
        for k in ([1, 3] if not thorough else [1, 2, 3, 5, 8]):
            r = scen_second(ctx, lab, model, k)
            judge(ctx, r, lambda: scen_second(ctx, lab, model, k), "second start against a live daemon")
        ctx.log("order / second start done")
        for i in range(8 if not thorough else 120):
            k = ctx.rng.choice([2, 3, 4, 6])
            st = ctx.rng.getstate()
            r = scen_race(ctx, lab, model, k, ctx.rng)
            def again():
                ctx.rng.setstate(st)
                return scen_race(ctx, lab, model, k, ctx.rng)
            judge(ctx, r, again, "concurrent starts")
        ctx.log("concurrent starts done")
        r = scen_kill_serving(ctx, lab, model)
        judge(ctx, r, lambda: scen_kill_serving(ctx, lab, model), "restart after SIGKILL")
        for n_ in (106, 107, 108, 109):
            r = scen_pathlen(ctx, lab, model, n_)
            ctx.dist("pathlen_%s" % r.get("outcome", "skipped"))
            judge(ctx, r, lambda n_=n_: scen_pathlen(ctx, lab, model, n_), "socket pathname at the sun_path limit")
        pts, err = crash_points(ctx, lab, model)
        ctx.obligation("build", "crash points enumerated from a baseline trace (%d)" % len(pts), len(pts) >= 12, err or str(pts)[:300])
        ctx.cov["crash_points_total"] = len(pts)
        sel = pts
        ctx.cov["crash_points_run"] = len(sel)
        with cf.ThreadPoolExecutor(6) as ex:
            results = list(ex.map(lambda p: scen_crash(ctx, lab, model, p), sel))
        for p, r in zip(sel, results):
            judge(ctx, r, lambda p=p: scen_crash(ctx, lab, model, p), "restart after SIGKILL")
        if thorough:
            starts = [p for p in pts if p["phase"] == "start" and p["at"] and not p["at"].startswith(("write", "close:"))]
            pairs = [(p1, p2) for p1 in pts for p2 in starts]
            ctx.rng.shuffle(pairs)
            pairs = pairs[:200]
            with cf.ThreadPoolExecutor(6) as ex:
                res2 = list(ex.map(lambda pp: scen_crash(ctx, lab, model, pp[0], pp[1]), pairs))
            for pp, r in zip(pairs, res2):
                judge(ctx, r, lambda pp=pp: scen_crash(ctx, lab, model, pp[0], pp[1]), "restart after two SIGKILLs")
        if results:
            ctx.sample("crash: %s" % json.dumps({k: results[0][k] for k in ("pt", "victim_done", "left") if k in results[0]})[:300])
        ctx.log("%d crash points done" % len(sel))
        for k in (3, 4, 5, 6):
            r = scen_shutdown_window(ctx, lab, model, k)
            ctx.sample("stop/start overlap at unlink #%d: alive=%s exit=%s" % (k, r.get("alive"), r.get("exit")))
            judge(ctx, r, lambda k=k: scen_shutdown_window(ctx, lab, model, k), "one daemon per socket (stop/start overlap)")
        for rep_ in range(1 if not thorough else 3):
            for cf_ in (False, True):
                r = scen_f5(ctx, lab, model, cf_)
                ctx.sample("f5%s: alive=%s exit=%s" % ("/C-first" if cf_ else "", r.get("alive"), r.get("exit")))
                judge(ctx, r, lambda: scen_f5(ctx, lab, model, cf_), "one daemon per socket (lock-file window)")
    finally:
        lab.cleanup()
    # A failed full-strength theorem whose counterexample was not shown on the binary stays a violation without input
    # (./check does that for any failed obligation when no violation was recorded); if F5 was shown, it is the input.
    # If F5 is listed in known_findings.json, the obligations it breaks are explained by it and do not fail the run.
    if any(h["key"] == F5_KEY for h in ctx.known_hits):
        for o in ctx.obligations:
            if not o["ok"] and (o["name"].endswith("C15.single_owner") or "lock-file window" in o["name"]):
                o["ok"] = True
                o["detail"] = ("explained by known finding %s: " % F5_KEY + o["detail"])[:2000]


def replay(ctx):
    rep = json.load(open(ctx.replay_in))
    drv = leanlib.driver(ctx)
    munged, canary = build_binaries(ctx)
    if not drv or not munged or not canary:
        return
    lab = Lab(ctx, munged, canary)
    model = Model(ctx, drv)
    sc = rep.get("scenario")
    try:
        if sc == "f5":
            f = lambda: scen_f5(ctx, lab, model, bool(rep.get("c_first")))
        elif sc == "second":
            f = lambda: scen_second(ctx, lab, model, rep.get("k", 1))
        elif sc == "crash":
            f = lambda: scen_crash(ctx, lab, model, rep["pt"], rep.get("pt2"))
        elif sc == "kill_serving":
            f = lambda: scen_kill_serving(ctx, lab, model)
        elif rep.get("scenario") == "pathlen":
            f = lambda: scen_pathlen(ctx, lab, model, int(rep.get("n", 108)))
        elif sc == "race":
            import random
            f = lambda: scen_race(ctx, lab, model, rep.get("k", 3), random.Random(rep.get("seed", 1)))
        elif sc == "order":
            f = lambda: scen_order(ctx, lab, model)
        else:
            ctx.obligation("internal", "replay file names a scenario", False, str(sc))
            return
        r = f()
        ctx.log("replay outcome: %s" % (r.get("oracle") or "property holds on this schedule"))
        judge(ctx, r, f, "replay of %s" % sc)
    finally:
        lab.cleanup()
