"""C13 - broken connections are retried safely and never burn a credential.

Model: lean/Munge/Model/Retry.lean (client loop of m_msg_client_xfer over a fault schedule x the daemon request path of
Model/Cred.lean); the loop's shape is regenerated from src/libmunge/m_msg_client.c (tools/gen/g_retry.py), the daemon's retry
kernels and the roll-back condition from src/munged/{dec,enc}.c (tools/gen/g_dec.py).  Theorems: lean/Munge/Props/C13.lean.
Tie: harness/h_retry.c = the real libmunge client, a fault-injecting proxy and the real _job_exec in one process; toy-primitive
build byte-exact against the model, real-primitive build judged by the property oracle alone."""
import itertools, json, os
from ..vlib import leanlib, cbuild, core
from ..gen import g_dec, g_retry, g_msg
from . import _cred_common as cc

LEVEL = "proof"
ATTEMPTS = 5            # the property's number: up to four faults in succession are survived, the fifth is a socket error
SENT = 0xFFFFFFFF
LIBMUNGE = ["src/libmunge/encode.c", "src/libmunge/decode.c", "src/libmunge/ctx.c", "src/libmunge/m_msg_client.c",
            "src/libmunge/auth_send.c", "src/libmunge/enum.c"]
SRC = ["h_retry.c"] + cc.COMMON[1:] + LIBMUNGE


def build_toy(ctx):
    return cbuild.build(ctx, "h_retry_toy", SRC + ["toy_prims.c"], libs=["-lcrypto", "-ldl"], defines=["HC_TOY"])


def build_real(ctx):
    return cbuild.build(ctx, "h_retry_real", SRC + ["src/common/mac.c", "src/common/md.c", "src/munged/cipher.c"],
                        libs=["-lcrypto", "-lz", "-lbz2", "-ldl"])


# ---------------------------------------------------------------- cases

def enc_cases(r, thorough):
    """encode requests whose message structure differs: cipher / MAC / zip, realm, restriction, payload size"""
    base = [dict(c=1, m=1, z=1, ttl=0, au=SENT, ag=SENT, realm=b"", data=b"hello", uid=1000, gid=1000),
            dict(c=0, m=2, z=0, ttl=60, au=SENT, ag=SENT, realm=b"", data=b"", uid=0, gid=0),
            dict(c=2, m=3, z=2, ttl=3600, au=4242, ag=SENT, realm=b"", data=b"A" * 200, uid=2 ** 31, gid=7),
            dict(c=5, m=6, z=3, ttl=1, au=SENT, ag=4343, realm=b"r1\0", data=bytes(range(64)), uid=1, gid=2 ** 32 - 2),
            dict(c=4, m=5, z=0, ttl=300, au=SENT, ag=SENT, realm=b"", data=bytes(r.randrange(256) for _ in range(33)), uid=55, gid=66)]
    if thorough:
        base += [dict(c=3, m=4, z=2, ttl=7, au=9, ag=10, realm=b"", data=bytes(r.randrange(256) for _ in range(300)), uid=9, gid=10),
                 dict(c=4, m=5, z=3, ttl=0, au=SENT, ag=SENT, realm=b"", data=b"munge " * 100, uid=3, gid=4)]
    for i, e in enumerate(base):
        e["rnd"] = bytes((17 * i + j * 7 + r.randrange(256)) % 256 for j in range(24))
        e["now"] = 1000000 + 10 * i
    return base


def enc_line(e, sched):
    return "retry enc %s c=%d m=%d z=%d ttl=%d au=%d ag=%d realm=%s data=%s now=%d peer=%d:%d rnd=%s mem=-" % (
        sched, e["c"], e["m"], e["z"], e["ttl"], e["au"], e["ag"], cc.hx(e["realm"]), cc.hx(e["data"]), e["now"], e["uid"], e["gid"],
        e["rnd"].hex())


def dec_peer(e):
    return (e["au"] if e["au"] != SENT else 777, e["ag"] if e["ag"] != SENT else 888)


def dec_line(e, cred, sched):
    u, g = dec_peer(e)
    return "retry dec %s cred=%s now=%d peer=%d:%d mem=-" % (sched, cc.hx(cred), e["now"] + 1, u, g)


def enc_req_len(e):
    return 11 + 4 + len(e["realm"]) + 12 + 4 + len(e["data"])


def enc_req_bounds(e):
    rl, n = len(e["realm"]), enc_req_len(e)
    b = [0, 1, 4, 5, 6, 7, 10, 11, 12, 13, 14, 15, 15 + rl, 19 + rl, 23 + rl, 27 + rl, 31 + rl, 31 + rl + len(e["data"]) // 2, n - 2, n - 1]
    return sorted({x for x in b if 0 <= x < n})


def dec_req_bounds(cred):
    n = 11 + 4 + len(cred) + 1
    b = [0, 1, 4, 5, 6, 7, 10, 11, 13, 15, 16, 21, 15 + len(cred) // 2, n - 2, n - 1]
    return sorted({x for x in b if 0 <= x < n})


def enc_rsp_bounds(cred):
    n = 11 + 2 + 4 + len(cred) + 1
    b = [0, 1, 4, 6, 7, 10, 11, 12, 13, 15, 17, 18, 17 + len(cred) // 2, n - 2, n - 1]
    return sorted({x for x in b if 0 <= x < n})


def dec_rsp_bounds(e):
    rl = len(e["realm"])
    n = 11 + 2 + 4 + rl + 4 + 1 + 4 + 24 + 4 + len(e["data"])
    o = 11 + 2 + 4 + rl
    b = [0, 1, 4, 6, 7, 10, 11, 12, 13, 14, 15, 16, 17, o, o + 4, o + 5, o + 9, o + 13, o + 17, o + 21, o + 25, o + 29, o + 33, o + 37, n - 2, n - 1]
    return sorted({x for x in b if 0 <= x < n})


def sched_str(seq):
    return ",".join(seq) if seq else "-"


def n_faults(seq):
    """number of faulty attempts before the first clean one"""
    k = 0
    for s in seq:
        if s == "ok":
            break
        k += 1
    return k


# ---------------------------------------------------------------- oracle (independent of the model)

def fields(line):
    return dict(x.split("=", 1) for x in line.split() if "=" in x)


def check_trace(kv, k):
    """the loop is bounded, one connection per attempt, and the header's retry byte is the attempt index (never above 4)"""
    n = int(kv["n"])
    want = min(k + 1, ATTEMPTS)
    if n != want:
        return "%d connection attempts for a schedule with %d faults (required %d)" % (n, k, want)
    tr = kv["tr"].split(",") if kv["tr"] != "-" else []
    for i, t in enumerate(tr):
        if t != "-" and int(t) != i:
            return "attempt %d carried retry byte %s (required %d, and never above %d)" % (i + 1, t, i, ATTEMPTS - 1)
    return None


def oracle(exp, line):
    kind = exp["kind"]
    if kind == "skip":
        return None if line == "ok" else "harness did not acknowledge `%s`" % line[:80]
    try:
        kv = fields(line)
        err = int(kv["err"])
        if kind == "badlen":
            if err != 3 or kv["cred"] != "NULL":
                return "oversize request: err=%d cred=%s (required EMUNGE_BAD_LENGTH and no credential)" % (err, kv["cred"][:20])
            return None if int(kv["n"]) <= ATTEMPTS else "more than %d connection attempts" % ATTEMPTS
        k = exp.get("k", 0)
        if kind == "enc":
            if k < ATTEMPTS:
                if err != 0:
                    return "munge_encode failed with %d after %d connection fault(s) (up to %d must be survived)" % (err, k, ATTEMPTS - 1)
                if kv["cred"] == "NULL" or not bytes.fromhex(kv["cred"]).startswith(b"MUNGE:"):
                    return "munge_encode returned success without a credential"
                if exp.get("cred") and kv["cred"] != exp["cred"]:
                    return "munge_encode over a faulty connection returned a different credential than over a clean one (same salt, same second)"
            else:
                if err != 6 or kv["cred"] != "NULL":
                    return "munge_encode after %d faults: err=%d cred=%s (required EMUNGE_SOCKET and no credential)" % (k, err, kv["cred"][:24])
            return check_trace(kv, k)
        good = (err == 0 and kv["data"] == (exp["data"] or "NULL") and int(kv["len"]) == len(exp["data"]) // 2 and
                int(kv["uid"]) == exp["uid"] and int(kv["gid"]) == exp["gid"])
        if kind == "dec":
            if k < ATTEMPTS:
                if err == 17:
                    return "retried munge_decode reported the credential as REPLAYED after %d connection fault(s)" % k
                if not good:
                    return "munge_decode after %d connection fault(s): err=%d payload/identity wrong or missing" % (k, err)
            else:
                untouched = (kv["data"] == "NULL" and kv["len"] == "0" and int(kv["uid"]) == SENT and int(kv["gid"]) == SENT and
                             kv["cipher"] == "-1" and kv["mac"] == "-1" and kv["zip"] == "-1" and kv["ttl"] == "-1" and
                             kv["t0"] == "-1" and kv["t1"] == "-1" and kv["realm"] == "NULL")
                if err != 6 or not untouched:
                    return "munge_decode after %d faults: err=%d with outputs touched (required EMUNGE_SOCKET and no partial output)" % (k, err)
            return check_trace(kv, k)
        if kind == "probe":
            if exp["burned"]:
                if err != 17:
                    return "a fresh decode after a DELIVERED decode returned %d (required REPLAYED)" % err
            else:
                if not good:
                    return ("a credential whose only processed decode(s) had an undeliverable reply is no longer decodable: "
                            "fresh decode returned %d" % err)
            return None
    except Exception as ex:
        return "unparsable harness output (%r): %s" % (ex, line[:120])
    return None


# ---------------------------------------------------------------- streams

def dec_tx(e, cred, seq):
    """reset; decode over the schedule; probe decode on a fresh connection"""
    k = n_faults(seq)
    ran = seq[:min(k, ATTEMPTS)]
    delivered = k < ATTEMPTS or any(s.startswith("p") for s in ran)
    base = dict(data=e["data"].hex(), uid=e["uid"], gid=e["gid"])
    return [("retry reset", dict(kind="skip")),
            (dec_line(e, cred, sched_str(seq)), dict(kind="dec", k=k, **base)),
            (dec_line(e, cred, "-"), dict(kind="probe", burned=delivered, **base))]


def enc_tx(e, cred, seq):
    return [(enc_line(e, sched_str(seq)), dict(kind="enc", k=n_faults(seq), cred=cred.hex()))]


def pick(r, bounds):
    return r.choice(bounds)


def gen_txs(ctx, cases, creds):
    """transactions (lists of (op, expectation)): every class sequence of <= ATTEMPTS faults, boundary sweeps, clean attempts mixed in"""
    r = ctx.rng
    thorough = ctx.tier == "thorough"
    txs = []
    for ci, (e, cred) in enumerate(zip(cases, creds)):
        qb_e, pb_e = enc_req_bounds(e), enc_rsp_bounds(cred)
        qb_d, pb_d = dec_req_bounds(cred), dec_rsp_bounds(e)

        def inst(cls, qb, pb):
            if cls == "f":
                return "f"
            if cls == "q":
                return r.choice(["q", "Q"]) + str(pick(r, qb))
            return "p" + str(pick(r, pb))
        # every sequence over the class alphabet, offsets drawn from the structure boundaries
        full = thorough or ci == 0
        for L in range(0, ATTEMPTS + 1):
            seqs = list(itertools.product("qfp", repeat=L))
            if not full and L >= 3:
                seqs = r.sample(seqs, 12)
            for cl in seqs:
                txs.append(enc_tx(e, cred, [inst(c, qb_e, pb_e) for c in cl]))
                txs.append(dec_tx(e, cred, [inst(c, qb_d, pb_d) for c in cl]))
                ctx.dist("class_sequences_len_%d" % L, 2)
        # single fault at every boundary (thorough: every byte offset), alone and as the 4th / 5th fault
        every = thorough and ci < 4            # every byte offset (the model's list-based base64 makes long streams of big payloads slow)
        qs_e = range(enc_req_len(e)) if every else qb_e
        ps_e = range(11 + 6 + len(cred) + 1) if every else pb_e
        qs_d = range(11 + 4 + len(cred) + 1) if every else qb_d
        ps_d = range(pb_d[-1] + 1) if every else pb_d
        for n in qs_e:
            txs.append(enc_tx(e, cred, ["q%d" % n]))
            ctx.dist("offset_sweep_request")
        for n in ps_e:
            txs.append(enc_tx(e, cred, ["p%d" % n]))
            ctx.dist("offset_sweep_reply")
        for n in qs_d:
            pre = r.choice([[], ["f"], ["f", "q3", "f"], ["p0", "f", "f", "f"]])
            txs.append(dec_tx(e, cred, pre + ["%s%d" % (r.choice("qQ"), n)]))
            ctx.dist("offset_sweep_request")
        for n in ps_d:
            pre = r.choice([[], ["f"], ["q11", "f", "p12"], ["f", "f", "f", "f"]])
            txs.append(dec_tx(e, cred, pre + ["p%d" % n]))
            ctx.dist("offset_sweep_reply")
        # clean attempts after k faults, schedules longer than the loop, offsets past the end (clamped)
        for _ in range(12 if not thorough else 60):
            L = r.randrange(0, 8)
            seq = [inst(r.choice("qfp"), qb_d + [10 ** 6], pb_d + [10 ** 6]) for _ in range(L)]
            if r.random() < .5 and seq:
                seq.insert(r.randrange(len(seq) + 1), "ok")
            txs.append(dec_tx(e, cred, seq))
            txs.append(enc_tx(e, cred, [s if s[0] != "p" else "p" + str(pick(r, pb_e)) for s in seq]))
            ctx.dist("random_schedules", 2)
    # an oversize request is refused before anything is sent (client-side EMUNGE_BAD_LENGTH stops the loop)
    txs.append([("retry enc f,f c=1 m=1 z=1 data=rep:41:1048577 now=1000000 peer=1:1 rnd=%s" % ("00" * 24), dict(kind="badlen"))])
    return txs


def kern_ops():
    ops = []
    for rtry in list(range(0, 12)) + [127, 128, 254, 255]:
        ops.append("kern dec_check_retry %d" % rtry)
        ops.append("kern enc_check_retry %d" % rtry)
        for flag in (0, 1):
            for ins, errno in ((0, 0), (1, 17), (-1, 12), (-1, 1)):
                ops.append("kern dec_validate_replay %d %d %d %d" % (rtry, flag, errno, ins))
    return ops


def pass1(h, cases, workdir):
    """clean encodes on this build: the credentials the decode transactions use"""
    ops = [enc_line(e, "-") for e in cases]
    rc, out, err = cbuild.run_lines([h, workdir], ops)
    creds = []
    for l in out[:len(ops)]:
        kv = fields(l)
        if kv.get("err") != "0" or kv.get("cred") in (None, "NULL"):
            return None, "clean encode failed: %s %s" % (l[:200], err[-500:])
        creds.append(bytes.fromhex(kv["cred"]))
    if len(creds) != len(ops):
        return None, "harness stopped during the clean encodes (rc=%d) %s" % (rc, err[-1500:])
    return creds, ""


def run_stream(ctx, name, txs, h, drv, what):
    """run the flattened transactions on harness h (and the model driver, if given); judge by the oracle"""
    flat = [(op, exp, ti) for ti, tx in enumerate(txs) for (op, exp) in tx]
    lines = [f[0] for f in flat]
    hcmd = [h, ctx.work]
    if drv:
        diff, out = cbuild.diff_stream(ctx, name, lines, hcmd, [drv])
        rc, err = 0, ""
    else:
        rc, out, err = cbuild.run_lines(hcmd, lines)
        ctx.count(len(lines))
        diff = None
    bad = None
    for i, l in enumerate(out[:len(lines)]):
        why = oracle(flat[i][1], l)
        if why:
            bad = (i, why, l)
            break
    crashed = (not drv and (rc != 0 or len(out) != len(lines))) or \
              (diff is not None and diff["impl"].startswith("(rc=") and not diff["impl"].startswith("(rc=0"))
    if drv:
        ctx.obligation("correspondence", "stream %s: %d ops, real libmunge + real daemon path = model" % (name, len(lines)), diff is None,
                       "" if diff is None else "first difference at op %d `%s`: impl=%s model=%s" % (
                           diff["index"], diff["op"][:160], diff["impl"][:500], diff["model"][:400]))
    ctx.obligation("oracle", "stream %s: property oracle on the implementation's outputs (%d ops)" % (name, len(lines)),
                   bad is None and not crashed, (bad[1] if bad else "") + (err[-1200:] if crashed else ""))
    if bad:
        i, why, l = bad
        tx = txs[flat[i][2]]
        ctx.violation("%s: %s" % (what, why),
                      {"stream": name, "build": "toy" if "toy" in name else "real", "ops": [o for o, _ in tx], "expect": [x for _, x in tx],
                       "failing_op": lines[i], "impl_output": l, "reason": why,
                       "model_output": None if diff is None else diff.get("model")}, found_input=True)
        return False
    if crashed:
        i = len(out) if not drv else diff["index"]
        ctx.violation("%s: implementation crashed / sanitizer report" % what,
                      {"stream": name, "build": "toy" if "toy" in name else "real",
                       "ops": [o for o, _ in txs[flat[min(i, len(flat) - 1)][2]]], "impl_output": (err or (diff or {}).get("impl", ""))[-3000:]},
                      found_input=True)
        return False
    if diff is not None:
        ctx.violation("%s: correspondence between model and implementation broke; the property oracle found no failing input" % what,
                      {"stream": name, "broken": "correspondence stream " + name, "first_difference": diff}, found_input=False)
        return False
    return True


def _gen_hash():
    h = ""
    for mod in ("Dec", "Retry"):
        p = os.path.join(leanlib.LEAN, "Munge", "Gen", mod + ".lean")
        h += core.file_hash(p) if os.path.exists(p) else "-"
    return h


def gen_and_build(ctx):
    """generate -> theorems -> driver.  Other checks running at the same time regenerate the shared Munge/Gen files from
    THEIR source tree; if that happened between our generator and our builds, the builds say nothing about ctx.repo:
    discard their obligations and do it again."""
    for attempt in range(4):
        mark = len(ctx.obligations)
        gdec = g_dec.generate(ctx)
        gret = g_retry.generate(ctx)
        h0 = _gen_hash()
        # m_msg_send translated: the header (which carries the retry count) is packed afresh on every send
        if g_msg.generate(ctx):
            leanlib.check_props(ctx, "C14Recv")
        leanlib.check_props(ctx, "C13")
        drv = leanlib.driver(ctx) if (gdec and gret) else None
        if _gen_hash() == h0 or attempt == 3:
            if _gen_hash() != h0:
                ctx.assumptions.append("the generated Lean files were rewritten by a concurrent check during every one of 4 build attempts")
            return gdec, gret, drv
        ctx.log("generated files changed under the build (concurrent check): regenerating")
        del ctx.obligations[mark:]
    return gdec, gret, drv


def run(ctx):
    ctx.rule = ("transactions through the real libmunge client, a fault-injecting proxy and the real _job_exec: for encode and for decode every sequence of 0..5 "
                "faults over the class alphabet {q N: request cut after N bytes (reset or clean close), f: daemon cannot send its reply, p N: reply cut after N bytes} "
                "with N drawn from the message-structure boundaries (0, inside the header, retry byte, header complete, every field boundary, mid-payload, all but one "
                "byte), single-fault sweeps over all boundaries (thorough: every byte offset) alone and behind 1..4 earlier faults, random schedules with clean "
                "attempts mixed in and offsets past the end, oversize requests; every decode transaction is followed by a probe decode on a fresh connection; over "
                "5 (thorough: 7) message structures; toy-primitive build byte-exact against the Lean model, real-primitive build judged by the oracle alone. "
                "distinct = distinct op lines; non-trivial = a transaction with at least one fault")
    ctx.assumptions += [
        "a connection fault falls into one of the classes q / f / p: the request reaches the daemon incompletely, or completely with the reply undeliverable, or the "
        "reply reaches the client incompletely (recv_all_or_nothing proves the all-or-nothing reception for the model; the proxy exercises it on the code at the listed offsets)",
        "the daemon's replies are shorter than 4 GiB (hypothesis of exhausted_is_socket_error; follows from the 1 MiB request gate for real primitives)",
        "the client process ignores SIGPIPE (libmunge does not arrange this itself) and nanosleep succeeds; connect() refusals (ECONNREFUSED / EAGAIN, retried inside _m_msg_client_connect) are exercised on the implementation only (stream connect-backoff), the model has no connect step",
        "PrimLaws for OpenSSL/zlib/bzlib are validated by the real-primitive streams, not proved",
        "one env (time, peer identity) per libmunge call: the attempts of one call fall into the same second"]
    if ctx.replay_in:
        g_dec.generate(ctx); g_retry.generate(ctx)
        return replay(ctx)
    gdec, gret, drv = gen_and_build(ctx)
    htoy = build_toy(ctx)
    hreal = build_real(ctx)
    cases = enc_cases(ctx.rng, ctx.tier == "thorough")
    for name, h, d in (("retry-toy", htoy, drv), ("retry-real", hreal, None)):
        if not h:
            continue
        creds, why = pass1(h, cases, ctx.work)
        ctx.obligation("oracle", "stream %s: clean encodes on this build succeed" % name, creds is not None, why)
        if creds is None:
            ctx.violation("retry: munge_encode over a clean connection failed", {"stream": name, "ops": [enc_line(e, "-") for e in cases], "detail": why},
                          found_input=True)
            continue
        txs = gen_txs(ctx, cases, creds)
        for tx in txs:
            for op, exp in tx:
                if exp["kind"] in ("enc", "dec") and exp["k"] > 0:
                    ctx.distinct(op)
        ctx.sample({"stream": name, "transaction": [o[:160] for o, _ in txs[len(txs) // 3]]})
        run_stream(ctx, name, txs, h, d, "retry (%s primitives)" % name.split("-")[1])
        connect_backoff(ctx, name, h, cases, creds)
    if htoy and drv:
        ops = kern_ops()
        diff, _ = cbuild.diff_stream(ctx, "retry-kernels", ops, [htoy, ctx.work], [drv])
        ctx.dist("kernel_validation", len(ops))
        ctx.obligation("correspondence", "translation validation: dec_check_retry / enc_check_retry / dec_validate_replay, %d inputs" % len(ops),
                       diff is None, "" if diff is None else "op `%s`: impl=%s model=%s" % (diff["op"], diff["impl"][:300], diff["model"][:300]))


def connect_backoff(ctx, name, h, cases, creds):
    """connect()-level back-off (a full listen queue: ECONNREFUSED / EAGAIN before the connection is made) is not a re-send:
    the same call with and without refused connects must give the same result, the same number of connections and the same
    retry byte per connection (= the index of the connection).  Ten refusals in a row end the call with a socket error and
    nothing sent: the credential stays decodable.  Implementation only (the model has no connect step), judged by the oracle."""
    r = ctx.rng
    vecs = [[1], [3], [9], [0, 2], [2, 0, 1], [1, 1, 1, 1, 1], [9, 9, 9, 9, 9]]
    ops, meta = [], []
    for ci, (e, cred) in enumerate(list(zip(cases, creds))[:3]):
        qb, pb = dec_req_bounds(cred), dec_rsp_bounds(e)
        for seq in ([], ["f"], ["q%d" % pick(r, qb), "p%d" % pick(r, pb)], ["f", "q7", "f", "p13"], ["f", "f", "f", "f", "f"]):
            s = sched_str(seq)
            for vec in (vecs if ci == 0 else r.sample(vecs, 3)):
                cerr = r.choice([111, 11])
                tail = " crefuse=%s cerr=%d" % (",".join(map(str, vec)), cerr)
                for base in (dec_line(e, cred, s), enc_line(e, s)):
                    if base.startswith("retry dec"):
                        ops.append("retry reset"); meta.append(None)
                    ops.append(base); meta.append(("base", len(seq)))
                    if base.startswith("retry dec"):
                        ops.append("retry reset"); meta.append(None)
                    ops.append(base + tail); meta.append(("refused", len(ops) - (3 if base.startswith("retry dec") else 2), vec))
        # ten refusals: the call fails before anything is sent; the credential is not spent
        ops.append("retry reset"); meta.append(None)
        ops.append(dec_line(e, cred, "-") + " crefuse=10"); meta.append(("exhausted",))
        ops.append(dec_line(e, cred, "-")); meta.append(("probe", e))
    rc, out, err = cbuild.run_lines([h, ctx.work], ops)
    ctx.count(len(ops)); ctx.dist("connect_backoff", len([m for m in meta if m and m[0] == "refused"]))
    for o, m in zip(ops, meta):
        if m and m[0] == "refused":
            ctx.distinct(o)
    bad = None
    strip = lambda l: {k: v for k, v in fields(l).items() if k not in ("sl", "cf")}
    for i, (m, l) in enumerate(zip(meta, out[:len(ops)])):
        if not m or bad:
            continue
        try:
            kv = fields(l)
            if m[0] == "refused":
                a, b = strip(out[m[1]]), strip(l)
                if a != b:
                    d = [k for k in a if a.get(k) != b.get(k)]
                    bad = (i, "refused connects %s changed the call's %s: %s -> %s (connect back-off is not a re-send)" % (
                        m[2], ",".join(d), ",".join(str(a.get(k))[:40] for k in d), ",".join(str(b.get(k))[:40] for k in d)))
                tr = kv["tr"].split(",") if kv["tr"] != "-" else []
                for j, t in enumerate(tr):
                    if t != "-" and int(t) != j:
                        bad = bad or (i, "connection %d carried retry byte %s after refused connects %s (required %d)" % (j + 1, t, m[2], j))
            elif m[0] == "exhausted":
                if int(kv["err"]) != 6 or int(kv["n"]) != 0:
                    bad = (i, "ten refused connects: err=%s after %s connections (required EMUNGE_SOCKET, nothing sent)" % (kv["err"], kv["n"]))
            elif m[0] == "probe":
                if int(kv["err"]) != 0:
                    bad = (i, "a credential is no longer decodable (err=%s) after a call that never reached the daemon" % kv["err"])
        except Exception as ex:
            bad = (i, "unparsable harness output (%r): %s" % (ex, l[:120]))
    crashed = rc != 0 or len(out) != len(ops)
    ctx.obligation("oracle", "stream %s-connect-backoff: %d calls with refused connects = the same calls without (result, connections, retry bytes)" % (name, len(ops)),
                   bad is None and not crashed, (bad[1] if bad else "") + (err[-1200:] if crashed else ""))
    if bad or crashed:
        i = bad[0] if bad else len(out)
        lo = max(0, i - 3)
        ctx.violation("retry (%s): %s" % (name, bad[1] if bad else "implementation crashed / sanitizer report"),
                      {"stream": name + "-connect-backoff", "build": "toy" if "toy" in name else "real", "ops": ops[lo:i + 1],
                       "impl_output": out[i] if i < len(out) else err[-2000:]}, found_input=True)


def replay(ctx):
    rep = json.load(open(ctx.replay_in))
    ops, exps = rep.get("ops") or [], rep.get("expect") or []
    h = build_toy(ctx) if rep.get("build", "toy") == "toy" else build_real(ctx)
    if not h or not ops:
        ctx.obligation("oracle", "replay: harness built and the replay file lists operations", False, "nothing to replay")
        return
    txs = [[(o, exps[i] if i < len(exps) else dict(kind="skip")) for i, o in enumerate(ops)]]
    drv = leanlib.driver(ctx) if rep.get("build", "toy") == "toy" else None
    run_stream(ctx, "replay-" + rep.get("build", "toy"), txs, h, drv, "retry (replay)")
