"""C05 - a credential decodes successfully at most once per daemon.

Model: lean/Munge/Model/{Hash,Replay}.lean with lean/Munge/Gen/Hash.lean regenerated from
src/munged/{hash,replay,dec,cred}.c; theorems: lean/Munge/Props/C05.lean; correspondence and
property oracle: harness/h_hash.c (real hash.c, replay.c, dec.c, cred.c, base64.c under ASan/UBSan;
whole requests go through the real dec_process_msg) against the Lean driver and a python set."""
from ..vlib import leanlib
from ..gen import g_hash, g_stages, g_replayins
from . import _replay_common as rc

LEVEL = "proof"


def mint_identical(ctx):
    """"Distinct credentials - including ones minted by identical requests in the same second - never cause each other to be
    reported as replayed": the real enc.c mints k credentials for the SAME request, peer and second (only the PRNG output
    differs, as in the daemon); the real dec.c must then decode every one of them.  Real primitives, all cipher options incl. none."""
    from . import _cred_common as cc
    from . import _cred_checks as K
    from ..vlib import cbuild
    h = cc.build_real(ctx)
    if not h:
        return
    r = ctx.rng
    cases = []
    for c in (0, 0, 2, 3, 4, 5, 1):
        for z in (0, 2):
            base = K.enc_cases(r, 1)[0]
            base.update(cipher=c, mac=6 if c == 5 else r.choice([2, 3, 5]), zip=z, now=1000000, ttl=300, auth_uid=cc.ANY, auth_gid=cc.ANY, uid=500, gid=600)
            for k in range(4):
                e = dict(base); e["rnd"] = bytes(r.randrange(256) for _ in range(24))
                cases.append(e)
    ops, res = K.encode_all(h, cases, pre=["cred replay-reset"])
    dec_ops, owner = [], []
    for e, rsp in res:
        if rsp.ok and rsp.kind == "enc" and rsp.error_num == 0:
            dec_ops.append("cred req %s now=1000001 peer=7:7 mem=-" % cc.hx(cc.dec_req(rsp.data))); owner.append(e)
    allops = ops + dec_ops
    rc, out, err = cbuild.run_lines([h], allops)
    ctx.count(len(allops)); ctx.dist("mint_identical", len(dec_ops))
    for o in allops:
        ctx.distinct(o)
    bad = None
    if len(dec_ops) != len(cases):
        bad = (0, "an encode of a valid request failed")
    for i, l in enumerate(out[len(ops):len(allops)]):
        rsp, _ = cc.rsp_of(l)
        if not (rsp.ok and rsp.kind == "dec" and rsp.error_num == 0):
            bad = bad or (len(ops) + i, "a credential minted by a request identical to an earlier one in the same second was refused on first presentation "
                          "(error %s): distinct credentials must not shadow each other" % (rsp.error_num if rsp.ok else "none"))
    crashed = rc != 0 or len(out) != len(allops)
    ctx.obligation("oracle", "%d credentials minted in groups of 4 by identical requests in one second all decode once (real enc.c/dec.c, PRNG output differs)" % len(dec_ops),
                   bad is None and not crashed, (bad[1] if bad else "") + (err[-1200:] if crashed else ""))
    if bad or crashed:
        i = bad[0] if bad else len(out)
        # replay: the whole group (identical requests) and the decodes up to the failing one
        ctx.violation("at-most-once decode: " + (bad[1] if bad else "sanitizer/crash"),
                      {"stream": "mint-identical", "harness": "h_cred_real", "ops": allops[:i + 1] if i < len(allops) else allops}, found_input=True)


def run(ctx):
    ctx.rule = ("op sequences for the real hash.c / replay.c / dec.c and for the Lean model: (1) kernels replay_cmp_f, replay_key_f, "
                "replay_is_expired, dec_validate_time on boundary lattices; (2) hash.c over integer keys at sizes 1..1213 with a python set as "
                "oracle; (3) replay_insert/remove/find/purge/dump and dec_validate_replay on MAC groups built to collide (same 4-byte hash "
                "prefix, same slot mod 65537, same 16 bytes + different tail, byte 15 vs 16, 0x7f/0x80), equal expiry from different "
                "(time0, ttl), purges at every offset around an expiry, N threads inserting one key; (4) histories of whole decode requests "
                "through the real dec_process_msg (valid / bad MAC / unauthorised / expired / rewound, retry 0..7, reply delivered or lost) with "
                "clock advances and purge ticks; distinct = distinct op lines; non-trivial = every op that touches a table")
    ctx.assumptions += [
        "each hash_* function excludes other threads while it holds h->mutex (the model's steps are these functions; pthread mutexes are trusted)",
        "the first 16 MAC bytes plus the expiry second identify a credential (Mac16Binding): a cryptographic assumption about HMAC, not proved",
        "allocation failure of a hash / replay node is not modelled (replay_insert returning -1 with ENOMEM)",
        "dec.c's stages before dec_validate_auth are represented by their verdict (preErr); the harness supplies a MAC test double so that "
        "the real dec_process_msg runs end to end on credentials whose MAC the test chooses",
        "python set / window arithmetic written from the property statement serve as the property oracle",
    ]
    g_hash.generate(ctx)
    if ctx.replay_in:
        return rc.replay_file(ctx, "replay protection")
    # enc_init translated: every credential gets fresh salt (and IV) - identical requests in one second give distinct credentials
    if g_stages.generate(ctx):
        leanlib.check_props(ctx, "C02Stages")
    # replay_insert translated: the record is the first 16 MAC bytes and (time0 + ttl) mod 2^32
    if g_replayins.generate(ctx):
        leanlib.check_props(ctx, "C05Insert")
    failed = leanlib.check_props(ctx, "C05")
    drv, h = rc.build(ctx)
    if not drv or not h:
        return
    thorough = ctx.tier == "thorough"
    streams = [
        ("kernels", rc.gen_kernels(ctx, 6000 if thorough else 1000), rc.ReplayOracle, None),
        ("rawhash", rc.gen_raw(ctx, 280000 if thorough else 21000), rc.RawOracle, None),
        ("replay", rc.gen_replay(ctx, 150000 if thorough else 15000, races=60 if thorough else 4, threads=16 if thorough else 8),
         rc.ReplayOracle, rc.relevant_same_mac),
        ("daemon", rc.f7_history() + ["hash fini"] + rc.gen_daemon(ctx, 40000 if thorough else 4000), rc.ReplayOracle, rc.relevant_same_mac),
    ]
    for name, ops, orc, rel in streams:
        for o in ops:
            w = o.split()
            if w[1] not in ("init", "fini", "conf", "clock", "dump", "hdump"):
                ctx.distinct(o)
        for o in ops[len(ops) // 2: len(ops) // 2 + 2]:
            ctx.sample(o)
        rc.run_stream(ctx, name, ops, h, drv, orc, "at-most-once decode", relevant=rel)
    mint_identical(ctx)
    # theorem-level failure of the roll-back obligation: the F7 history above is its failing input on the real code
    if any(f.endswith("rollback_implies_inserted") for f in failed):
        if not any(v.get("key") == rc.F7_KEY for v in ctx.violations) and not any(k["key"] == rc.F7_KEY for k in ctx.known_hits):
            ctx.violation("theorem C05.rollback_implies_inserted no longer checks: dec_process_msg withdraws the replay record after a failed send "
                          "without requiring that this request inserted it; the directed history did not reproduce on the real code",
                          {"broken": "theorem Munge.C05.rollback_implies_inserted", "model_history": rc.f7_history(),
                           "lean": "Munge.C05.f7_counterexample"}, found_input=False, finding_key=rc.F7_KEY)
        rc.absorb_known(ctx, rc.F7_KEY, ["rollback_implies_inserted"])
