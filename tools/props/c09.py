"""C09 - failure replies carry no credential data; padding and MAC failures look alike.  Theorems: Props/C09.lean (every hard
error yields the error-only DEC_RSP, a function of (retry, code, text); padding failure and MAC mismatch give THE SAME reply;
also on the translated orchestration: C06.soft_errors_keep_payload, C04.unauthorized_reply_is_reset).  Tie: every error class x
credential contents through the real pipeline: full reply bytes against the model (toy build) and against the error-only form
(both builds); ciphertext-tail manipulations on real AES/Blowfish/CAST credentials."""
import json, struct
from ..vlib import leanlib, cbuild, judge
from ..gen import g_dec, g_stages
from . import _cred_common as cc
from . import _cred_checks as K

LEVEL = "proof"
SOFT = (0, 15, 16, 17)


def error_only(retry, code, text):
    body = bytes([code, len(text) + 1]) + text + b"\0" + bytes([0, 0, 0, 0]) + struct.pack(">I", 0) + bytes([0]) + \
        struct.pack(">IIIIII", 0, 0, cc.ANY, cc.ANY, cc.ANY, cc.ANY) + struct.pack(">I", 0)
    return cc.hdr(5, retry, len(body)) + body


def build(ctx, h, variant):
    r = ctx.rng
    cases = [dict(cipher=c, mac=m, zip=z, ttl=300, auth_uid=au, auth_gid=cc.ANY, data=K.payload(r, n), realm=rl,
                  uid=600 + i, gid=700 + i, now=1000000, rnd=bytes(r.randrange(256) for _ in range(24)))
             for i, (c, m, z, n, au, rl) in enumerate([(4, 5, 0, 40, cc.ANY, b""), (2, 3, 0, 17, cc.ANY, b""), (3, 5, 3, 300, cc.ANY, b"realm\0"),
                                                      (5, 6, 0, 5, cc.ANY, b""), (0, 5, 0, 9, cc.ANY, b""), (4, 5, 0, 12, 4242, b""),
                                                      # a second restricted credential with another encoder identity and payload: what an unauthorised
                                                      # client is told must not depend on which of the two it presented
                                                      (4, 5, 0, 31, 4242, b""),
                                                      # inner layer (41 + n bytes) an exact multiple of the block size: the last cipher block is pure padding
                                                      (4, 5, 0, 23, cc.ANY, b""), (2, 3, 0, 7, cc.ANY, b""), (5, 6, 0, 39, cc.ANY, b"")])]
    pre = ["cred conf mackey=%s dekkey=%s" % (K.MK.hex(), K.DK.hex())]
    _, res = K.encode_all(h, cases, pre=pre)
    ops, kinds = list(pre), ["skip"]
    tails = {}
    for e, rsp in res:
        if not (rsp.ok and rsp.error_num == 0):
            continue
        raw = K.raw_of(rsp.data)
        blk = {0: 0, 2: 8, 3: 8, 4: 16, 5: 16}[K.resolved(e)[0]]
        retry = r.choice([0, 1, 3])
        def dec(raw2, kind, now=1000005, peer="1:1", retry=retry):
            ops.append("cred replay-reset"); kinds.append("skip")
            ops.append("cred req %s now=%d peer=%s mem=-" % (cc.hx(cc.dec_req(K.rearmor(raw2), retry=retry)), now, peer))
            kinds.append(kind)
        # soft errors keep data (control)
        una = ("unauth", e["uid"], e["gid"])
        dec(raw, "ok" if e["auth_uid"] == cc.ANY else una, retry=retry if e["auth_uid"] == cc.ANY else 0)
        dec(raw, "expired" if e["auth_uid"] == cc.ANY else una, now=1000400, retry=retry if e["auth_uid"] == cc.ANY else 0)
        dec(raw, "rewound" if e["auth_uid"] == cc.ANY else una, now=999000, retry=retry if e["auth_uid"] == cc.ANY else 0)
        if e["auth_uid"] != cc.ANY:
            dec(raw, una, peer="77:88", retry=0)
        # hard errors with plenty of credential content behind them
        dec(raw[:len(raw) - 3], "hard")
        dec(raw[:3] + bytes([9]) + raw[4:], "hard")
        dec(raw[:1] + bytes([99]) + raw[2:], "hard")
        dec(bytes([2]) + raw[1:], "hard")
        dec(raw, "hard", now=1000005, peer="fail")
        dec(raw, "hard", retry=6)
        if blk:
            key = (K.resolved(e)[0], len(raw))
            # every byte of the last cipher block: padding removal may or may not fail, the MAC certainly does
            for k in range(1, blk + 1):
                for bit in (0, 7):
                    raw2 = raw[:-k] + bytes([raw[-k] ^ (1 << bit)]) + raw[-k + 1:] if k > 1 else raw[:-1] + bytes([raw[-1] ^ (1 << bit)])
                    dec(raw2, ("tail", key, retry))
            # the second-to-last block (flips plaintext of the last one) and the MAC field itself
            for k in (blk + 1, blk + 4, 2 * blk):
                if len(raw) > k + 30:
                    raw2 = raw[:-k] + bytes([raw[-k] ^ 1]) + raw[-k + 1:]
                    dec(raw2, ("tail", key, retry))
            m0 = 5 + len(e["realm"].rstrip(b"\0")) + blk
            dec(raw[:m0] + bytes([raw[m0] ^ 1]) + raw[m0 + 1:], ("tail", key, retry))
            dec(raw[:-blk], ("tail", key, retry))        # whole last block removed
            for k in sorted({1, 2, blk // 2, blk - 1}):   # a ciphertext that is not a whole number of blocks (shorter / longer)
                dec(raw[:-k], ("tail", key, retry))
                dec(raw + bytes([k]) * k, ("tail", key, retry))
            dec(raw + bytes(blk), ("tail", key, retry))  # a block appended
    return ops, kinds


def make_oracle(kinds):
    st = {"i": 0, "tail": {}}

    def oracle(op, outl):
        i = st["i"]; st["i"] += 1
        k = kinds[i]
        if k == "skip":
            return None
        rsp, kv = cc.rsp_of(outl)
        if kv.get("leak") != "0":
            return "memory leaked"
        if not rsp.ok or rsp.kind != "dec":
            return "no well-formed decode reply"
        if k in ("ok", "expired", "rewound"):
            want = {"ok": 0, "expired": 15, "rewound": 16}[k]
            if rsp.error_num != want:
                return "control decode gave %d, expected %d" % (rsp.error_num, want)
            if not rsp.data and rsp.data_len == 0 and False:
                return None
            return None
        if rsp.error_num in SOFT:
            return "a failing decode (%s) was answered with code %d" % (k if isinstance(k, str) else k[0], rsp.error_num)
        retry = int(bytes.fromhex(op.split()[2][12:14]).hex(), 16)
        if rsp.raw != error_only(retry, rsp.error_num, rsp.error_str.rstrip(b"\0")):
            return "failure reply (code %d) carries more than an error code and message" % rsp.error_num
        if isinstance(k, tuple) and k[0] == "unauth":
            # non-interference: the reply to a client that is not authorised is a function of that client and the error, never of
            # the credential's interior (encoder identity, payload): credentials of different encoders get byte-identical replies
            peer = [w for w in op.split() if w.startswith("peer=")][0]
            txt = rsp.error_str.rstrip(b"\0").decode("latin1")
            import re as _re
            nums = _re.findall(r"\d+", txt)
            if str(k[1]) in nums or str(k[2]) in nums:
                return "the UNAUTHORIZED reply names the credential's encoder (uid %d / gid %d): '%s'" % (k[1], k[2], txt)
            prev = st["tail"].setdefault(("unauth", peer), rsp.raw)
            if prev != rsp.raw:
                return "two credentials of different encoders are answered differently to the same unauthorised client (%s): '%s'" % (peer, txt)
            return None
        if isinstance(k, tuple):
            if rsp.error_num != 14 or rsp.error_str != b"Invalid credential\0":
                return "ciphertext-tail manipulation answered with code %d '%s' instead of the generic invalid-credential reply" % (
                    rsp.error_num, rsp.error_str.rstrip(b"\0").decode("latin1"))
            prev = st["tail"].setdefault(k, rsp.raw)
            if prev != rsp.raw:
                return "padding failure and MAC failure are answered differently"
        return None
    return oracle


def run(ctx):
    ctx.rule = ("for 10 credentials (AES128, Blowfish, CAST5+zlib+realm, AES256, none, two restricted ones of different encoders - the replies to an unauthorised client must be byte-identical for both and name neither encoder -, and three whose last cipher block is pure padding): control decodes (ok / expired / rewound or unauthorised at 3 clocks) and hard failures "
                "(truncation, bad zip/cipher type, bad version, identity query failure, retry overflow) each with the full reply bytes compared to the error-only form; every byte of the last "
                "cipher block flipped at bits 0 and 7, flips in the previous block and in the MAC, a removed and an appended block, partial blocks removed and appended: all replies of one credential must be identical bytes. "
                "distinct = distinct op lines")
    ctx.assumptions += ["timing indistinguishability of padding vs MAC failure is not a property of the model and is not claimed",
                        "whether a given tail flip trips padding removal or only the MAC depends on the cipher; both happen in the stream (counted in evidence for the toy build via the model)"]
    g_dec.generate(ctx)
    if ctx.replay_in:
        rep = json.load(open(ctx.replay_in))
        drv = leanlib.driver(ctx); h = cc.build_toy(ctx)
        judge.run_and_judge(ctx, "replay", rep.get("ops") or [], [h], [drv], what="failure reply (replay)")
        return
    # dec_validate_mac / dec_decrypt translated with their primitive calls as events: what is MAC'd and compared, deferred padding failure
    if g_stages.generate(ctx):
        leanlib.check_props(ctx, "C02Stages")
    leanlib.check_props(ctx, "C09")
    drv = leanlib.driver(ctx)
    htoy = cc.build_toy(ctx)
    hreal = cc.build_real(ctx)
    if drv and htoy:
        ops, kinds = build(ctx, htoy, "toy")
        for o in ops:
            ctx.distinct(o)
        for k in kinds:
            ctx.dist("toy_" + (k if isinstance(k, str) else "tail"))
        ctx.sample({"stream": "replies-toy", "op": ops[4][:170]})
        judge.run_and_judge(ctx, "replies-toy", ops, [htoy], [drv], oracle=make_oracle(kinds), what="failure reply")
    if htoy:
        K.primitive_failures(ctx, htoy, "failure reply")
    if not hreal:                   # (already a failed obligation)
        return
    ops, kinds = build(ctx, hreal, "real")
    for o in ops:
        ctx.distinct(o)
    for k in kinds:
        ctx.dist("real_" + (k if isinstance(k, str) else "tail"))
    rc, out, err = cbuild.run_lines([hreal], ops)
    ctx.count(len(ops))
    orc = make_oracle(kinds)
    bad = None
    for i, l in enumerate(out[:len(ops)]):
        why = orc(ops[i], l)
        if why:
            bad = (i, why, l); break
    crashed = rc != 0 or len(out) != len(ops)
    ctx.obligation("oracle", "stream replies-real: %d ops on OpenSSL ciphers, error-only replies, padding = MAC" % len(ops),
                   bad is None and not crashed, (bad[1] if bad else "") + (err[-1500:] if crashed else ""))
    if bad or crashed:
        i = bad[0] if bad else len(out)
        ctx.violation("failure reply (real primitives): " + (bad[1] if bad else "sanitizer/crash"),
                      {"stream": "replies-real", "ops": [ops[0], ops[i] if i < len(ops) else "(end)"], "impl_output": (bad[2] if bad else err[-2000:])}, found_input=True)
