"""C12 - accepted work is done exactly once; work_wait returns only when idle; a graceful stop drains.

Model: lean/Munge/Model/Work.lean (transition system over the mutex-protected sections of src/munged/work.c; the
wait/signal predicates, idle test, wait guard, cancel-disable bracket and lock discipline are regenerated from work.c
and job.c by tools/gen/g_work.py); theorems: lean/Munge/Props/C12.lean; correspondence: harness/h_work.c links the
real work.c and forces complete schedules (one thread runs at a time, between gates at pthread_mutex_lock /
pthread_cond_wait / work_func / pthread_cond_signal / pthread_cancel / pthread_join), the Lean driver predicts the same
observable for the same schedule (line equality), and an oracle written from the property statement alone judges the
implementation's output."""
import itertools, json
from ..vlib import leanlib, cbuild, judge
from ..gen import g_work

LEVEL = "proof"
WRAP = ["-Wl,--wrap=pthread_create,--wrap=pthread_mutex_lock,--wrap=pthread_cond_wait,--wrap=pthread_cond_signal,"
        "--wrap=pthread_cond_broadcast,--wrap=pthread_cancel,--wrap=pthread_join"]
F3 = "F3-work-wait-predicate"


def parse_out(out):
    kv = dict(x.split("=", 1) for x in out.split() if "=" in x)
    lst = lambda s: [] if s == "-" else [int(x) for x in s.split(",")]
    rets = [] if kv["rets"] == "-" else [(r.split(":")[0],) + tuple(int(x) for x in r.split(":")[1].split("/"))
                                         for r in kv["rets"].split(";")]
    return kv["end"], rets, lst(kv["runs"]), lst(kv["taken"])


def oracle(op, out, stop="f1"):
    """The property's own statement, decided from the implementation's output alone (no model involved).
    `stop` is the stop call job_accept makes (f1 = work_fini (w, 1))."""
    w = op.split()
    try:
        prog = [] if w[3] == "-" else w[3].split(",")
        end, rets, runs, taken = parse_out(out)
    except Exception as e:
        return "no verdict from the harness (%r): %s" % (e, out[:200])
    if end == "deadlock":
        return "deadlock: a thread is blocked in work_wait/work_fini/pthread_join and no thread can run without a spurious wake-up"
    if end == "lockheld":
        # a thread met the mutex held by a parked thread: the one-thread-at-a-time controller cannot follow such code;
        # this is a limit of the harness, not a verdict about the property (the model/implementation diff reports it)
        return None
    if end not in ("done", "open"):
        return "the run did not complete on the real work.c (%s)" % end
    for i, (r, t) in enumerate(zip(runs, taken)):
        if r > 1 or t > 1:
            return "item %d was handed to a worker %d times and processed %d times (must be exactly once)" % (i, t, r)
    for tag, q, p in rets:
        if tag == "w" and (q or p):
            return "work_wait returned with %d item(s) still queued and %d in progress" % (q, p)
    for tag, q, p in rets:
        if tag == "f" and p:
            return "work_fini returned with %d dequeued item(s) never finished: lost to cancellation" % p
    if stop in prog and end == "done":
        q = [(q, p) for tag, q, p in rets if tag == "f"]
        if not q:
            return "work_fini returned but no return was recorded"
        if q[0][0] or any(r != 1 for r in runs):
            return "work_fini(w,%s) returned with %d of %d accepted item(s) unprocessed (graceful stop must drain)" % (
                stop[1], len([r for r in runs if r != 1]), len(runs))
    if end == "open" and any(r != 1 for r in runs):
        return "lost wake-up: %d accepted item(s) left unprocessed although every worker is idle" % len([r for r in runs if r != 1])
    if end == "done" and "f1" not in prog and "f0" not in prog:
        return "harness reported a finished stop without a stop in the program"
    return None


def key_of(op, reason):
    if reason.startswith("work_wait returned with") or reason.startswith("work_fini(w,1) returned with"):
        return F3
    # one replay per kind of failure (the chunks of the stream run in parallel and would each report their own)
    for k in ("deadlock", "lost to cancellation", "lost wake-up", "exactly once", "did not complete", "unprocessed"):
        if k in reason:
            return "C12-" + k.replace(" ", "-")
    return "C12-other"


def line(n, prog, sched):
    return "work run %d %s %s" % (n, ",".join(prog) or "-", ",".join(sched) or "-")


def gen_named(ctx, stop):
    """the named schedules of the design; the first one is the witness of finding F3 (2 workers, 6 items queued,
    immediate graceful stop)"""
    ops = [line(2, ["q"] * 6 + [stop], []), line(1, ["q", "w"], ["0", "m", "m", "0", "m"])]
    # 1. the named schedules of the design: stop right after enqueueing (no worker has run), stop after enqueue but before
    #    the woken worker runs, stop while the last item is in progress, work_wait while an item is in progress
    for n in (1, 2, 3):
        ws = [str(k) for k in range(n)]
        for items in range(0, 7):
            qs = ["q"] * items
            ops.append(line(n, qs + [stop], []));                      ctx.dist("named_immediate_stop")
            ops.append(line(n, qs + [stop], ws));                      ctx.dist("named_workers_blocked_then_enqueue_then_stop")
            ops.append(line(n, qs + [stop], ws + ["m"] * (2 * items)));  ctx.dist("named_stop_after_signal_before_wake")
            ops.append(line(n, qs + [stop], ws + ["m"] * (2 * items) + ws))
            ctx.dist("named_stop_while_in_progress")
            ops.append(line(n, qs + ["w", "q", stop], ws + ["m"] * (2 * items) + ws + ["m"]))
            ctx.dist("named_work_wait_while_in_progress")
            ops.append(line(n, qs + ["w"], []));                       ctx.dist("named_work_wait_immediately")
            ops.append(line(n, qs + ["f0"], ws + ["m"] * (2 * items) + ws)); ctx.dist("named_abrupt_stop_in_progress")
    return ops


def gen_ops(ctx, stop, depth):
    """stop = 'f1'/'f0': the stop call job_accept makes (do_wait as extracted from job.c);
    depth 0 = quick, 1 = quick after a broken obligation, 2 = thorough"""
    r = ctx.rng
    ops = []
    # 2. every schedule up to a length bound for small configurations (all interleavings of the forced prefix)
    d = [0, 1, 3][depth]
    small = [(1, ["q", stop], 10 + d), (1, ["q", "q", stop], 9 + d), (1, ["q", "w", "q", stop], 9 + d),
             (1, ["q", "q", "w"], 8 + d), (2, ["q", "q", stop], 7 + (d + 1) // 2), (2, ["q", "w", stop], 6 + (d + 1) // 2),
             (2, ["q", "q", "q", "f0"], 5 + (d + 1) // 2), (3, ["q", "q", stop], 5 + d // 2)]
    for n, prog, L in small:
        alpha = ["m"] + [str(k) for k in range(n)]
        for l in range(1, L + 1):
            for sc in itertools.product(alpha, repeat=l):
                ops.append(line(n, prog, list(sc)))
                ctx.dist("exhaustive_n%d_%s" % (n, "".join(p[0] for p in prog)))
    # 3. seeded random programs and schedules
    for _ in range([6000, 15000, 60000][depth]):
        n = r.choice([1, 1, 2, 2, 2, 3, 4, 8])
        items = r.choice([0, 1, 1, 2, 3, 4, 6, 9, 15])
        prog = []
        for _i in range(items):
            prog.append("q")
            if r.random() < .15:
                prog.append("w")
        if r.random() < .2:
            prog.append("w")
        x = r.random()
        if x < .7:
            prog.append(stop)
        elif x < .85:
            prog.append("f0")
        sc = []
        pm = r.choice([.2, .35, .5, .7])
        for _i in range(r.randrange(0, 5 * items + 3 * n + 4)):
            if r.random() < pm:
                sc.append("m" if r.random() < .6 else "m%d" % r.randrange(0, 9))
            else:
                sc.append(str(r.randrange(0, n)))
        ops.append(line(n, prog, sc))
        ctx.dist("random_n%d" % n)
        ctx.dist("random_stop_%s" % (prog[-1] if prog and prog[-1].startswith("f") else "none"))
    return ops


EXH, TRANS = (24, 23, 105, 12), (103, 4)      # EMFILE ENFILE ENOBUFS ENOMEM / ECONNABORTED EINTR (Linux values, as in the AST)


def acceptor_oracle(op, out):
    """the statement, for the accepting thread: every accepted connection is handed over exactly once or released exactly once;
    the wait for the backlog happens on EVERY descriptor / memory exhaustion, before accept is called again; the stop drains"""
    w = op.split()
    if w[:2] != ["job", "run"]:
        return None
    trips = [list(map(int, t.split(":"))) for t in w[2:]]
    try:
        evs, fini = out.rsplit(" fini=", 1)
    except ValueError:
        return "unparsable harness output"
    if fini.strip() != "1":
        return "job_accept ended with work_fini (w, %s): a graceful stop must wait for the accepted requests" % fini.strip()
    segs, cur = [], None
    for e in [x for x in evs.split(";") if x]:
        if e == "accept()":
            cur = []; segs.append(cur)
        elif cur is not None and e != "gids_update()":
            cur.append(e)
    if len(segs) != len(trips):
        return "%d calls of accept for %d scripted trips" % (len(segs), len(trips))
    for i, ((gr, ra, e, t, rn, rc, rb, rq), s) in enumerate(zip(trips, segs)):
        if ra < 0 and e in EXH:
            if s.count("work_wait()") != 1 or s[-1:] != ["work_wait()"]:
                return "trip %d: accept failed with errno %d (out of descriptors / memory) but the acceptor did not wait for the backlog before accepting again (%s)" % (i + 1, e, ";".join(s) or "nothing")
        elif ra < 0:
            if s:
                return "trip %d: a transient accept error (errno %d) was followed by %s" % (i + 1, e, ";".join(s))
        else:
            q = s.count("work_queue()")
            rel = s.count("close(%d)" % ra) + s.count("m_msg_destroy()")
            handed = q == 1 and rq >= 0
            if q > 1:
                return "trip %d: connection %d queued %d times" % (i + 1, ra, q)
            if handed and rel:
                return "trip %d: connection %d was handed to the work crew and also released by the acceptor" % (i + 1, ra)
            if not handed and rel != 1:
                return "trip %d: connection %d was not handed over and released %d times (leak or double release)" % (i + 1, ra, rel)
            if rn >= 0 and rc == 0 and rb == 0 and not (q == 1):
                return "trip %d: connection %d was accepted and set up but never queued" % (i + 1, ra)
    return None


def acceptor(ctx, drv):
    """job_accept's accept loop: kernel translated from job.c (Gen/Job.lean), theorems Props/C12Job.lean, translation validation +
    property oracle on the REAL job_accept run against scripted accept()/time()/work crew results (harness/h_job.c)."""
    from ..gen import g_job
    gen_ok = g_job.generate(ctx)
    if gen_ok:
        leanlib.check_props(ctx, "C12Job")
    h = cbuild.build(ctx, "h_job", ["h_job.c", "src/libmissing/strlcpy.c"])
    if not h:
        return
    r = ctx.rng
    ops = []
    def trip(t):
        k = r.random()
        gr = 1 if r.random() < .1 else 0
        if k < .35:
            return "%d:-1:%d:%d:0:0:0:0" % (gr, r.choice(EXH), t)
        if k < .45:
            return "%d:-1:%d:%d:0:0:0:0" % (gr, r.choice(TRANS), t)
        return "%d:%d:0:%d:%d:%d:%d:%d" % (gr, r.randrange(3, 1000), t, r.choice([0, 0, 0, -1]), r.choice([0, 0, 0, 1, 5]), r.choice([0, 0, 0, 1]),
                                             r.choice([0, 0, 0, -1]))
    for n in range(400 if ctx.tier == "quick" else 4000):
        t, ts = r.choice([0, 1000, 2 ** 31, 2 ** 40]), []
        for _ in range(r.randrange(1, 12)):
            t += r.choice([0, 0, 1, 1, 30, 59, 60, 61, 120, 4000])       # around the 60 s log rate limit
            ts.append(trip(t))
        ops.append("job run " + " ".join(ts))
    # every errno class twice in a row inside / outside the log interval, same and different errno
    for e1 in EXH:
        for e2 in EXH:
            for dt in (0, 1, 59, 60, 61):
                ops.append("job run 0:-1:%d:1000:0:0:0:0 0:-1:%d:%d:0:0:0:0 0:7:0:%d:0:0:0:0" % (e1, e2, 1000 + dt, 1000 + dt))
    for o in ops:
        ctx.distinct(o)
    ctx.dist("acceptor_scripts", len(ops))
    ctx.sample(ops[3])
    if drv and gen_ok:
        judge.run_and_judge(ctx, "acceptor", ops, [h], [drv], oracle=acceptor_oracle, what="acceptor (job_accept)")
    else:
        rc, out, err = cbuild.run_lines([h], ops)
        ctx.count(len(ops))
        bad = None
        for o, l in zip(ops, out):
            why = acceptor_oracle(o, l)
            if why:
                bad = (o, why, l); break
        ctx.obligation("oracle", "stream acceptor: property oracle on the real job_accept (%d scripts)" % len(ops), bad is None and rc == 0, (bad[1] if bad else err[-800:]))
        if bad or rc != 0:
            ctx.violation("acceptor (job_accept): " + (bad[1] if bad else "crash"), {"stream": "acceptor", "ops": [bad[0]] if bad else [], "impl_output": bad[2] if bad else err[-2000:]},
                          found_input=True)


def run(ctx):
    ctx.rule = ("scenario = (worker count, program of the accepting thread over work_queue/work_wait/work_fini, forced schedule of "
                "thread picks incl. spurious wake-ups and signal-target choices), completed deterministically; the real work.c "
                "under ASan/UBSan with a one-thread-at-a-time controller and the Lean model run the same scenario and must print the "
                "same line; a python oracle written from the statement judges the C output. Named schedules (immediate stop, stop "
                "between signal and wake, stop while in progress, work_wait while in progress) for 1-3 workers x 0-6 items, every "
                "schedule up to a length bound for small configurations, seeded random ones; distinct = distinct scenario lines; "
                "non-trivial = at least one item queued")
    ctx.assumptions += [
        "pthread semantics as written into Model/Work.lean: mutex exclusion, a signal wakes one currently blocked thread, spurious wake-ups possible, "
        "deferred cancellation acts only at cancellation points and never while disabled, a cancelled pthread_cond_wait re-acquires the mutex first",
        "the harness emulates condition variables with exactly these semantics and serialises threads at the granularity of work.c's critical sections "
        "(atomicity of those sections rests on the generated lock-discipline certificate, theorem atomic_sections)",
        "work_func (= _job_exec) terminates and contains cancellation points; it is the only code run outside the mutex",
        "single accepting/stopping thread, as in job_accept (the got_fini test of work_queue is therefore unreachable)",
    ]
    ok = g_work.generate(ctx)
    ctx.log("generated Gen/Work.lean from %s" % ctx.repo)
    items = getattr(ctx, "gen_work", {})
    stop_wait = items.get("job.c: job_accept ends with work_fini(w, <do_wait>) after the accept loop")
    stop = "f1" if stop_wait or stop_wait is None else "f0"
    drv = leanlib.driver(ctx) if ctx.replay_in else None
    if ctx.replay_in:
        return replay(ctx, drv)
    failed = leanlib.check_props(ctx, "C12")
    ctx.log("theorems checked (%d failed)" % len(failed))
    drv = leanlib.driver(ctx)
    ctx.log("driver built")
    acceptor(ctx, drv)
    h = cbuild.build(ctx, "h_work", ["h_work.c", "src/munged/work.c"], libs=WRAP)
    if not h:
        return
    ctx.log("harness built")
    broken = bool(failed) or not ok
    # a broken obligation widens the search for a concrete failing schedule on the real code
    named = gen_named(ctx, stop)
    ops = gen_ops(ctx, stop, 2 if ctx.tier == "thorough" else 1 if broken else 0)
    for o in named + ops:
        if ",q" in o or " q" in o:
            ctx.distinct(o)
    for o in named[:3] + ops[-3:]:
        ctx.sample(o)
    orc = lambda op, out: oracle(op, out, stop)
    if not drv:
        # no model to compare with: still judge the implementation by the oracle
        rc, out, err = cbuild.run_lines([h], named + ops)
        ctx.count(len(named + ops))
        for o, l in zip(named + ops, out):
            rsn = orc(o, l)
            if rsn:
                ctx.violation("work crew: " + rsn, {"ops": [o], "stop": stop, "impl_output": l, "reason": rsn}, True, key_of(o, rsn))
                break
        return
    run_chunks(ctx, "work-named", named, h, drv, orc, stop, nchunk=1)
    run_chunks(ctx, "work", ops, h, drv, orc, stop)


def run_chunks(ctx, name, ops, h, drv, orc, stop, nchunk=6):
    """the stream in parallel chunks (each its own harness and driver process)"""
    import concurrent.futures as cf
    nchunk = max(1, min(nchunk, len(ops) // 50 or 1))
    chunks = [ops[i::nchunk] for i in range(nchunk)]
    before = len(ctx.violations)
    with cf.ThreadPoolExecutor(nchunk) as ex:
        list(ex.map(lambda ic: judge.run_and_judge(ctx, "%s[%d/%d]" % (name, ic[0] + 1, nchunk), ic[1], [h], [drv], oracle=orc,
                                                   key_of=key_of, what="work crew"), enumerate(chunks)))
    import os
    from ..vlib.core import VERIF
    seen, keep = set(), []
    for v in ctx.violations[before:]:
        # one replay per kind of failure (parallel chunks each report their own first difference);
        # and the replay file needs to know which stop call was judged as the graceful one
        path = os.path.join(VERIF, v["path"])
        if v["what"] in seen:
            try:
                os.unlink(path)
            except OSError:
                pass
            continue
        seen.add(v["what"])
        keep.append(v)
        try:
            rep = json.load(open(path))
            rep["stop"] = stop
            json.dump(rep, open(path, "w"), indent=1, default=str)
        except Exception:
            pass
    ctx.violations[before:] = keep


def replay(ctx, drv):
    rep = json.load(open(ctx.replay_in))
    h = cbuild.build(ctx, "h_work", ["h_work.c", "src/munged/work.c"], libs=WRAP)
    ops = rep.get("ops") or []
    stop = rep.get("stop") or "f1"
    if h and drv:
        judge.run_and_judge(ctx, "replay", ops, [h], [drv], oracle=lambda op, out: oracle(op, out, stop), key_of=key_of,
                            what="work crew (replay)")
