"""C02 - altered or foreign-key credentials are rejected and disclose nothing.  Theorems: Props/C02.lean (accept => MAC over
OUTER||plain INNER under the MAC subkey; bad MAC / parse failure => hard error with a sanitised reply; rejection of altered and
foreign-key credentials under the named hypotheses Unforgeable / KeySeparation).  Tie: byte-level edits of credentials minted by
the implementation - every bit of the binary body, every truncation length, extensions, block swaps, cross-credential splices,
header rewrites, credentials minted under a second key - on the toy build (byte-exact vs the model) and the real build (oracle)."""
import json
from ..vlib import leanlib, cbuild, judge
from ..gen import g_dec, g_unpack, g_stages, g_memcmp
from . import _cred_common as cc
from . import _cred_checks as K

LEVEL = "proof"


def edits(r, raws, per_cred_flips):
    """(kind, raw bytes) alterations of the binary bodies `raws`"""
    out = []
    for raw in raws:
        idx = list(range(len(raw) * 8))
        if per_cred_flips is not None and per_cred_flips < len(idx):
            idx = sorted(r.sample(idx, per_cred_flips) + list(range(0, 40)) + list(range(len(raw) * 8 - 16, len(raw) * 8)))
        for b in idx:
            out.append(("bitflip", raw[:b // 8] + bytes([raw[b // 8] ^ (1 << (b % 8))]) + raw[b // 8 + 1:]))
        for k in range(len(raw)):
            out.append(("truncate", raw[:k]))
        for ext in (b"\0", b"\x01", b"A" * 8, b"\x10" * 16):
            out.append(("extend", raw + ext))
        for blk in (8, 16):
            if len(raw) > 5 + 4 * blk:
                a = len(raw) - 3 * blk
                out.append(("blockswap", raw[:a] + raw[a + blk:a + 2 * blk] + raw[a:a + blk] + raw[a + 2 * blk:]))
        for k in range(min(5, len(raw))):
            for v in (0, 1, 2, 3, 4, 5, 6, 255):
                if raw[k] != v:
                    out.append(("header", raw[:k] + bytes([v]) + raw[k + 1:]))
    for i in range(len(raws)):
        for j in range(len(raws)):
            if i != j:
                a, b = raws[i], raws[j]
                for cut in sorted({5, 13, 21, 37, 53, len(a) // 2, len(a) - 16}):
                    if 0 < cut < min(len(a), len(b)):
                        out.append(("splice", a[:cut] + b[cut:]))
    return out


def run_variant(ctx, name, h, drv, model):
    r = ctx.rng
    quick = ctx.tier == "quick"
    cases = [dict(cipher=c, mac=m, zip=z, ttl=300, auth_uid=cc.ANY, auth_gid=cc.ANY, data=K.payload(r, n), realm=b"",
                  uid=4000 + i, gid=5000 + i, now=1000000, rnd=bytes(r.randrange(256) for _ in range(24)))
             # (sizes 23 / 15: the inner layer, 41 + n bytes, is a whole number of cipher blocks, so the last block is pure padding)
             for i, (c, m, z, n) in enumerate([(0, 5, 0, 20), (4, 5, 0, 23), (2, 3, 3, 200), (5, 6, 0, 1), (3, 2, 0, 15), (4, 5, 0, 0), (3, 2, 2, 120), (4, 5, 0, 33)])]
    pre = ["cred conf mackey=%s dekkey=%s" % (K.MK.hex(), K.DK.hex())]
    ops, res = K.encode_all(h, cases, pre=pre)
    raws = [K.raw_of(rsp.data) for e, rsp in res if rsp.ok and rsp.error_num == 0]
    ctx.obligation("setup", "%s: %d/8 seed credentials minted" % (name, len(raws)), len(raws) == 8)
    emitted = set(raws)
    eds = edits(r, raws if not quick else raws[:5], 120 if quick else None)
    ops = list(pre) + ["cred replay-reset"]
    kinds = ["skip", "skip"]
    for kind, raw in eds:
        ops.append("cred req %s now=1000005 peer=1:1 mem=-" % cc.hx(cc.dec_req(K.rearmor(raw))))
        kinds.append("same" if raw in emitted else kind)
    # string-level alterations (non-canonical but equivalent armor is NOT an alteration of the body)
    for raw in raws[:3]:
        s = K.rearmor(raw)
        for alt in (s[:20] + b"\n" + s[20:], s[:-2] + b" :\0", b" \t" + s, s.replace(b"MUNGE:", b"MUNGE: "), s[:-2] + b"=:\0", s[:-3] + b":\0"):
            body = K.lenient_body(alt)
            ops.append("cred req %s now=1000005 peer=1:1 mem=-" % cc.hx(cc.dec_req(alt)))
            kinds.append("same" if body in emitted else "armor")
            ops.append("cred replay-reset"); kinds.append("skip")
    # credentials minted under a different key: re-key the daemon, mint, switch back, present
    other = ["cred conf mackey=%s dekkey=%s" % (bytes(20 * [0x42]).hex(), K.DK.hex())]
    _, res2 = K.encode_all(h, cases[:4], pre=other)
    for e, rsp in res2:
        if rsp.ok and rsp.error_num == 0:
            ops.append("cred req %s now=1000005 peer=1:1 mem=-" % cc.hx(cc.dec_req(rsp.data)))
            kinds.append("foreign-key")
    for k in kinds:
        ctx.dist(name + "_" + k)
    st = {"i": 0}

    def oracle(op, outl):
        i = st["i"]; st["i"] += 1
        k = kinds[i]
        if k == "skip":
            return None
        rsp, kv = cc.rsp_of(outl)
        if kv.get("leak") != "0":
            return "memory leaked"
        if not rsp.ok or rsp.kind != "dec":
            return "no well-formed decode reply"
        if k == "same":
            return None
        if rsp.error_num in (0, 15, 16, 17):
            return "altered credential (%s) was accepted: error code %d" % (k, rsp.error_num)
        if not K.sanitized(rsp):
            return "rejection of an altered credential (%s) discloses fields" % k
        return None
    for o in ops:
        ctx.distinct(o)
    for kk in ("bitflip", "splice", "foreign-key"):
        for o, k in zip(ops, kinds):
            if k == kk:
                ctx.sample({"stream": name, "kind": kk, "op": o[:160]}); break
    if model:
        judge.run_and_judge(ctx, name, ops, [h], [drv], oracle=oracle, what="altered credential")
    else:
        rc, out, err = cbuild.run_lines([h], ops)
        ctx.count(len(ops))
        bad = None
        for i, l in enumerate(out[:len(ops)]):
            why = oracle(ops[i], l)
            if why:
                bad = (i, why, l); break
        crashed = rc != 0 or len(out) != len(ops)
        ctx.obligation("oracle", "stream %s: %d altered credentials on the real primitives" % (name, len(ops)), bad is None and not crashed,
                       (bad[1] if bad else "") + (err[-1500:] if crashed else ""))
        if bad or crashed:
            i = bad[0] if bad else len(out)
            ctx.violation("altered credential (real primitives): " + (bad[1] if bad else "sanitizer/crash"),
                          {"stream": name, "ops": [ops[0], ops[i] if i < len(ops) else "(end)"], "impl_output": (bad[2] if bad else err[-2000:])}, found_input=True)


def large_real(ctx, h):
    """alterations of LARGE credentials on the real primitives (the MAC is fed in more than one piece of any plausible chunk
    size; alterations sit before, at and after 2^16 and in the tail)"""
    r = ctx.rng
    pre = ["cred conf mackey=%s dekkey=%s" % (K.MK.hex(), K.DK.hex())]
    cases = [dict(cipher=c, mac=m, zip=0, ttl=300, auth_uid=cc.ANY, auth_gid=cc.ANY, data=r.randbytes(n), realm=b"", uid=41, gid=42, now=1000000, rnd=bytes(range(24)))
             for (c, m, n) in [(0, 5, 70000), (4, 3, 100000), (0, 2, 200000)]]
    _, res = K.encode_all(h, cases, pre=pre)
    ops, kinds = list(pre), ["skip"]
    for e, rsp in res:
        if not (rsp.ok and rsp.error_num == 0):
            ops.append("cred replay-reset"); kinds.append("mint-failed"); continue
        raw = K.raw_of(rsp.data)
        pos = sorted({40, 100, 65535, 65536, 65537, 65600, len(raw) - 70000 if len(raw) > 70000 else 50, len(raw) - 4465, len(raw) - 1000, len(raw) - 17, len(raw) - 1}
                     | {r.randrange(30, len(raw)) for _ in range(25)} | {r.randrange(max(30, len(raw) - 65536), len(raw)) for _ in range(15)})
        for k in pos:
            if 0 <= k < len(raw):
                ops.append("cred req %s now=1000005 peer=1:1 mem=-" % cc.hx(cc.dec_req(K.rearmor(raw[:k] + bytes([raw[k] ^ (1 << r.randrange(8))]) + raw[k + 1:]))))
                kinds.append("bitflip-large")
        for k in (len(raw) - 1, len(raw) - 16, len(raw) - 4464, 65536 + 60):
            ops.append("cred req %s now=1000005 peer=1:1 mem=-" % cc.hx(cc.dec_req(K.rearmor(raw[:k])))); kinds.append("truncate-large")
        a = len(raw) - 2000
        ops.append("cred req %s now=1000005 peer=1:1 mem=-" % cc.hx(cc.dec_req(K.rearmor(raw[:a] + raw[a + 16:a + 32] + raw[a:a + 16] + raw[a + 32:])))); kinds.append("blockswap-large")
    rc, out, err = cbuild.run_lines([h], ops)
    ctx.count(len(ops))
    for k in kinds:
        ctx.dist("altered-real-large_" + k)
    bad = None
    for i, l in enumerate(out[:len(ops)]):
        if kinds[i] == "skip":
            continue
        if kinds[i] == "mint-failed":
            bad = bad or (i, "a large valid request could not be encoded", l); continue
        rsp, kv = cc.rsp_of(l)
        if not rsp.ok or rsp.kind != "dec":
            bad = bad or (i, "no well-formed decode reply", l)
        elif rsp.error_num in (0, 15, 16, 17):
            bad = bad or (i, "altered large credential (%s) was accepted: error code %d" % (kinds[i], rsp.error_num), l[:300])
        elif not K.sanitized(rsp):
            bad = bad or (i, "rejection of an altered large credential discloses fields", l[:300])
    crashed = rc != 0 or len(out) != len(ops)
    ctx.obligation("oracle", "stream altered-real-large: %d alterations of 70-200 kB credentials on the real primitives" % (len(ops) - 1), bad is None and not crashed,
                   (bad[1] if bad else "") + (err[-1500:] if crashed else ""))
    if bad or crashed:
        i = bad[0] if bad else len(out)
        ctx.violation("altered credential (real primitives, large): " + (bad[1] if bad else "sanitizer/crash"),
                      {"stream": "altered-real-large", "ops": [ops[0], ops[i] if i < len(ops) else "(end)"], "impl_output": (bad[2] if bad else err[-2000:])}, found_input=True)


def run(ctx):
    ctx.rule = ("byte-level edits of 8 (quick: 5) credentials (two with a pure-padding last cipher block) minted by the implementation over cipher/MAC/zip combinations: bit flips (quick: 120 sampled + first 40 + last 16 bits per credential; "
                "thorough: every bit), truncation at every length, extensions, cipher-block swaps, splices of every ordered pair at field boundaries, header-byte rewrites, armor variants, "
                "and credentials minted under a different MAC key; edits that decode to an emitted body are not alterations. distinct = distinct op lines")
    ctx.assumptions += ["cryptographic strength enters only through the named hypotheses Unforgeable / KeySeparation of the theorems",
                        "the toy MAC is not collision resistant; a toy collision would show up as an accepted alteration on BOTH model and implementation (none observed)"]
    g_dec.generate(ctx)
    if ctx.replay_in:
        rep = json.load(open(ctx.replay_in))
        drv = leanlib.driver(ctx); h = cc.build_toy(ctx)
        judge.run_and_judge(ctx, "replay", rep.get("ops") or [], [h], [drv], what="altered credential (replay)")
        return
    # the model's parsers are proved to be the parsers of dec.c (translated by the K+cursor translator)
    if g_unpack.generate(ctx):
        leanlib.check_props(ctx, "UnpackRef")
    # dec_validate_mac / dec_decrypt translated with their primitive calls as events: what is MAC'd and compared, deferred padding failure
    if g_stages.generate(ctx):
        leanlib.check_props(ctx, "C02Stages")
    # crypto_memcmp: loop header checked on the AST, body translated; the fold reports a difference iff the strings differ
    if g_memcmp.generate(ctx):
        leanlib.check_props(ctx, "C02Memcmp")
    leanlib.check_props(ctx, "C02")
    drv = leanlib.driver(ctx)
    htoy = cc.build_toy(ctx)
    hreal = cc.build_real(ctx)
    # (a harness that does not build is a failed obligation already; the other variant still runs)
    if drv and htoy:
        run_variant(ctx, "altered-toy", htoy, drv, True)
    if hreal:
        run_variant(ctx, "altered-real", hreal, drv, False)
        large_real(ctx, hreal)
