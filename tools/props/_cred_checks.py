"""Building blocks shared by the C01 C02 C03 C09 C10 plugins: request generators, two-pass runs
(encode on the implementation, then decode what it returned), oracles."""
import base64, struct
from ..vlib import cbuild, judge
from . import _cred_common as cc
from . import _v3ref as R

MK = bytes(range(0x11, 0x11 + 20))
DK = bytes(0x77 - i for i in range(20))
SIZES = [0, 1, 2, 3, 7, 8, 9, 15, 16, 17, 31, 32, 33, 47, 48, 49, 63, 64, 65, 100, 255, 256, 257, 1000]
VALID_TOY = [(c, m) for c in (0, 2, 3, 4, 5) for m in (2, 3, 4, 5, 6) if not (c == 5 and m in (2, 3, 4))]


def payload(r, n):
    k = r.random()
    if k < .3:
        return bytes(r.randrange(256) for _ in range(n))                 # incompressible
    if k < .6:
        return bytes([r.randrange(256)]) * n                             # highly compressible
    return (b"munge credential payload " * (n // 25 + 1))[:n]


def enc_cases(r, n, sizes=SIZES):
    """n encode requests: dict(cipher, mac, zip, ttl, auth_uid, auth_gid, data, realm, uid, gid, now, rnd)"""
    out = []
    for i in range(n):
        c = r.choice([0, 1, 2, 3, 4, 5])
        m = r.choice([1, 2, 3, 4, 5, 6])
        if c == 5 and m in (2, 3, 4):
            m = 5
        out.append(dict(cipher=c, mac=m, zip=r.choice([0, 1, 2, 3]), ttl=r.choice([0, 1, 60, 300, 3600, 3601, 2 ** 31, 2 ** 32 - 1]),
                        auth_uid=r.choice([cc.ANY, 4242]), auth_gid=r.choice([cc.ANY, 4343]),
                        data=payload(r, r.choice(sizes)), realm=r.choice([b"", b"", b"realm\0"]),
                        uid=r.choice([0, 1, 1000, 2 ** 31 - 1, 2 ** 31, 2 ** 32 - 2, r.randrange(2 ** 32)]),
                        gid=r.choice([0, 1, 1000, 2 ** 31, 2 ** 32 - 2, r.randrange(2 ** 32)]),
                        now=r.choice([1000000, 5000, 2 ** 31, 2 ** 32 - 10000]), rnd=bytes(r.randrange(256) for _ in range(24))))
    return out


def enc_op(e, extra=""):
    return "cred req %s now=%d peer=%d:%d rnd=%s mem=-%s" % (
        cc.hx(cc.enc_req(cipher=e["cipher"], mac=e["mac"], zip_=e["zip"], realm=e["realm"], ttl=e["ttl"],
                         auth_uid=e["auth_uid"], auth_gid=e["auth_gid"], data=e["data"])),
        e["now"], e["uid"], e["gid"], e["rnd"].hex(), extra)


def encode_all(h, cases, pre=()):
    """run the encodes on harness h; returns list of (case, Rsp)"""
    ops = list(pre) + [enc_op(e) for e in cases]
    rc, out, err = cbuild.run_lines([h], ops)
    res = []
    for e, l in zip(cases, out[len(pre):]):
        rsp, _ = cc.rsp_of(l)
        res.append((e, rsp))
    return ops, res


def resolved(e, defc=4, defm=5, defz=0, deft=300, maxt=3600):
    c = defc if e["cipher"] == 1 else e["cipher"]
    m = defm if e["mac"] == 1 else e["mac"]
    z = defz if e["zip"] == 1 else e["zip"]
    if len(e["data"]) == 0:
        z = 0
    t = deft if e["ttl"] == 0 else min(e["ttl"], maxt)
    return c, m, z, t


def check_decode_of(e, rsp, maxt=3600):
    """oracle for the decode reply of the credential encoded for case e by an authorised client in time"""
    if not rsp.ok or rsp.kind != "dec":
        return "no well-formed decode reply"
    if rsp.error_num != 0:
        return "decode of a fresh valid credential failed with error %d (%s)" % (rsp.error_num, rsp.error_str[:40])
    c, m, z, t = resolved(e)
    if rsp.data != e["data"] or rsp.data_len != len(e["data"]):
        return "payload differs (len %d vs %d)" % (len(rsp.data), len(e["data"]))
    if rsp.cred_uid != e["uid"] or rsp.cred_gid != e["gid"]:
        return "credential identity %d:%d is not the encoder's %d:%d" % (rsp.cred_uid, rsp.cred_gid, e["uid"], e["gid"])
    if rsp.auth_uid != e["auth_uid"] or rsp.auth_gid != e["auth_gid"]:
        return "restrictions differ"
    if rsp.cipher != c or rsp.mac != m:
        return "cipher/mac metadata %d/%d differ from the resolved request %d/%d" % (rsp.cipher, rsp.mac, c, m)
    if rsp.zip not in (0, z):
        return "zip metadata %d is neither none nor the resolved request %d" % (rsp.zip, z)
    if rsp.ttl != min(t, maxt):
        return "ttl %d is not the resolved ttl %d" % (rsp.ttl, min(t, maxt))
    if rsp.time0 != e["now"] % 2 ** 32:
        return "encode time differs"
    return None


def sanitized(rsp):
    return (rsp.data_len == 0 and rsp.data == b"" and rsp.cred_uid == cc.ANY and rsp.cred_gid == cc.ANY and rsp.auth_uid == cc.ANY
            and rsp.auth_gid == cc.ANY and rsp.ttl == 0 and rsp.time0 == 0 and rsp.time1 == 0 and rsp.cipher == 0 and rsp.mac == 0
            and rsp.zip == 0 and rsp.addr_len == 0 and rsp.realm == b"" and rsp.addr == b"")


def raw_of(cred):
    s = cred.rstrip(b"\0")
    return base64.b64decode(s[6:-1])


def rearmor(raw):
    return b"MUNGE:" + base64.b64encode(raw) + b":\0"


def lenient_body(cred):
    """the byte sequence the credential string's armored body decodes to under munge's decoder rules, or None"""
    s = cred.rstrip(b"\0")
    s = s.lstrip(b"\t\n\x0b\x0c\r ")
    if not s.startswith(b"MUNGE:"):
        return None
    s = s[6:]
    k = s.rfind(b":")
    if k < 0:
        return None
    body = bytes(c for c in s[:k] if c not in b"\t\n\x0b\x0c\r ")
    t = body.rstrip(b"=")
    if len(body) - len(t) > 2 or len(body) % 4 or any(c not in b"ABCDEFGHIJKLMNOPQRSTUVWXYZabcdefghijklmnopqrstuvwxyz0123456789+/" for c in t):
        return None
    try:
        return base64.b64decode(body)
    except Exception:
        return None


def primitive_failures(ctx, h, what):
    """Every primitive call of a request fails in turn (toy build: `pfail=k` makes the k-th call of mac_* / cipher_* / the zlib and
    bzlib entry points return an error): the error and clean-up paths of enc.c / dec.c that no input can reach.  Oracle: the reply is
    the error-only form (nothing of the credential in it), nothing leaks, the descriptor is closed once, a decode that failed this way
    has not consumed the credential, and the daemon goes on serving.  Implementation only (the Lean primitives are total)."""
    r = ctx.rng
    pre = ["cred conf mackey=%s dekkey=%s" % (MK.hex(), DK.hex()), "cred replay-reset"]
    cases = [dict(cipher=c, mac=m, zip=z, ttl=300, auth_uid=cc.ANY, auth_gid=cc.ANY, data=d, realm=b"", uid=21, gid=22, now=1000000, rnd=bytes(range(24)))
             for (c, m, z, d) in [(4, 5, 3, b"compressible " * 12), (2, 3, 2, b"b" * 90), (0, 2, 0, b"plain"), (5, 6, 0, b""), (3, 4, 3, b"x" * 200)]]
    _, res = encode_all(h, cases, pre=pre)
    creds = [rsp.data for e, rsp in res if rsp.ok and rsp.error_num == 0]
    if len(creds) != len(cases):
        ctx.obligation("setup", "primitive failures: seed credentials minted", False, "%d/%d" % (len(creds), len(cases)))
        return
    ops, meta = list(pre), [None, None]
    for ci, (e, cred) in enumerate(zip(cases, creds)):
        for k in range(1, 26):
            ops.append(enc_op(e, " pfail=%d" % k)); meta.append(("enc", ci, k))
            ops.append("cred replay-reset"); meta.append(None)
            ops.append("cred req %s now=1000001 peer=1:1 mem=- pfail=%d" % (cc.hx(cc.dec_req(cred)), k)); meta.append(("dec", ci, k))
            ops.append("cred req %s now=1000001 peer=1:1 mem=-" % cc.hx(cc.dec_req(cred))); meta.append(("again", ci, k))
    rc, out, err = cbuild.run_lines([h], ops)
    ctx.count(len(ops)); ctx.dist("primitive_failures", len([m for m in meta if m]))
    for o in ops:
        ctx.distinct(o)
    bad, fired, prev = None, 0, None
    for i, (m, l) in enumerate(zip(meta, out[:len(ops)])):
        if not m:
            continue
        rsp, kv = cc.rsp_of(l)
        hit = "pcalls" in kv and int(kv["pcalls"]) >= m[2] if m[0] != "again" else False
        fired += 1 if hit else 0
        why = None
        if kv.get("leak") != "0" or "connection-descriptor-closed" in l:
            why = "memory leaked / descriptor mishandled on the failure path"
        elif not rsp.ok:
            why = "no well-formed reply"
        elif m[0] == "enc":
            if hit and (rsp.error_num == 0 or rsp.data):
                why = "an encode whose primitive call %d failed still returned %s" % (m[2], "success" if rsp.error_num == 0 else "credential bytes with the error")
            if not hit and rsp.error_num != 0:
                why = "encode failed although no primitive failed"
        elif m[0] == "dec":
            if hit and rsp.error_num in (0, 15, 16, 17):
                why = "a decode whose primitive call %d failed was answered with code %d" % (m[2], rsp.error_num)
            elif hit and not sanitized(rsp):
                why = "the reply to a decode whose primitive call %d failed carries credential data" % m[2]
            elif not hit and rsp.error_num != 0:
                why = "decode failed although no primitive failed"
            prev = (hit, rsp.error_num)
        elif m[0] == "again":
            want = 0 if (prev and prev[1] != 0) else 17
            if rsp.error_num != want:
                why = ("a decode that failed inside a primitive consumed the credential (next decode: %d)" % rsp.error_num) if want == 0 else \
                      "second decode of a decoded credential returned %d" % rsp.error_num
        if why and not bad:
            bad = (i, why, l)
    crashed = rc != 0 or len(out) != len(ops)
    ctx.obligation("oracle", "primitive failures: %d requests, %d with a primitive call made to fail (every call position of 5 encode and 5 decode pipelines)" % (
        len([m for m in meta if m]), fired), bad is None and not crashed and fired > 50, (bad[1] if bad else "") + (err[-1500:] if crashed else "") + ("" if fired > 50 else " only %d failures fired" % fired))
    if bad or crashed:
        i = bad[0] if bad else len(out)
        ctx.violation("%s: %s" % (what, bad[1] if bad else "crash / sanitizer report on a primitive-failure path"),
                      {"stream": "primitive-failures", "harness": "h_cred_toy", "ops": [ops[0], ops[1]] + ops[max(2, i - 2):i + 1] if i < len(ops) else [], "impl_output": bad[2][:600] if bad else err[-3000:]},
                      found_input=True)
