"""Shared by C05 and C07: build of model + harness, op generators for the replay table and the
daemon-level decode path, and the property oracles.  The oracles are plain python written
from the property statements (a set of keys, a clock, the validity window); they look only at
what the implementation printed, never at the Lean model."""
import json, os
from ..vlib import leanlib, cbuild
from ..gen import g_hash

F7_KEY = "F7-rollback-without-insert"
M32 = 1 << 32
HASH_SIZE = 65537
SOURCES = ["h_hash.c", "src/munged/hash.c", "src/munged/cred.c", "src/munged/base64.c"]
E_SOCKET, E_INVALID, E_EXPIRED, E_REWOUND, E_REPLAYED, E_UNAUTH = 6, 14, 15, 16, 17, 18


def hx(b):
    return bytes(b).hex() if b else "-"


def kv(out):
    return dict(x.split("=", 1) for x in out.split() if "=" in x)


def build(ctx):
    """generator -> driver -> harness.  Returns (driver, harness) (either may be None)."""
    drv = leanlib.driver(ctx)
    ctx.log("driver ready")
    h = cbuild.build(ctx, "h_hash", SOURCES)
    ctx.log("harness ready")
    return drv, h


# ---------------------------------------------------------------------------------------------------------------
# adversarial key material

def mac_pool(r, n_groups):
    """MACs (16..32 bytes) in groups built to collide in every way the table could confuse:
    same first 4 bytes (same hash value), same slot via +k*65537 on the little-endian prefix, same first 16
    bytes with a different tail (must be the SAME key), differing only in byte 15 / only in byte 16,
    bytes around 0x7f/0x80 (signed vs unsigned compare)."""
    pool = []
    for _ in range(n_groups):
        base = bytearray(r.randrange(256) for _ in range(16))
        g = [bytes(base)]
        b = bytearray(base); b[4 + r.randrange(12)] ^= 1 << r.randrange(8); g.append(bytes(b))           # same hash value
        p = int.from_bytes(base[:4], "little")
        q = (p + HASH_SIZE * r.randrange(1, 60000)) % M32
        if q % HASH_SIZE == p % HASH_SIZE:
            b = bytearray(base); b[:4] = q.to_bytes(4, "little"); g.append(bytes(b))                     # same slot, other prefix
        g.append(bytes(base) + bytes(r.randrange(256) for _ in range(r.choice([1, 4, 16]))))             # same key, longer MAC
        b = bytearray(base); b[15] ^= 0x01; g.append(bytes(b))                                           # last kept byte
        g.append(bytes(base) + b"\x01"); g.append(bytes(base) + b"\x02")                                 # first dropped byte
        b = bytearray(base); b[0] = 0x7f; g.append(bytes(b)); b[0] = 0x80; g.append(bytes(b)); b[0] = 0xff; g.append(bytes(b))
        b = bytearray(base); b[8] = 0x7f; g.append(bytes(b)); b[8] = 0x80; g.append(bytes(b))
        pool.append(g)
    return pool


def key_of(mac, t0, ttl):
    return (bytes(mac[:16]), (t0 + ttl) % M32)


# ---------------------------------------------------------------------------------------------------------------
# oracles

class Hit:
    def __init__(self, index, reason, key=None, mac=None, required=None):
        self.index, self.reason, self.key, self.mac, self.required = index, reason, key, mac, required


class RawOracle:
    """hash.c over integer keys: a python set"""
    def __init__(self):
        self.s = None

    def feed(self, op, out):
        w = op.split()[1:]
        o = kv(out)
        if w[0] == "hnew":
            self.s = set()
            return None if out == "ok" else "hash_create failed"
        if self.s is None:
            return None
        if w[0] == "hins":
            k = int(w[1]); new = k not in self.s; self.s.add(k)
            if o.get("r") != ("1" if new else "0"):
                return "hash_insert (%d): key %s but returned %s" % (k, "absent" if new else "present", o.get("r"))
        elif w[0] == "hrem":
            k = int(w[1]); had = k in self.s; self.s.discard(k)
            if o.get("r") != (str(k) if had else "-"):
                return "hash_remove (%d): key %s but returned %s" % (k, "present" if had else "absent", o.get("r"))
        elif w[0] == "hfind":
            k = int(w[1])
            if o.get("r") != (str(k) if k in self.s else "-"):
                return "hash_find (%d): key %s but returned %s" % (k, "present" if k in self.s else "absent", o.get("r"))
            return None
        elif w[0] == "hdel":
            m, r_ = int(w[1]), int(w[2]); gone = {k for k in self.s if k % m == r_}; self.s -= gone
            if o.get("r") != str(len(gone)):
                return "hash_delete_if removed %s items, %d were selected" % (o.get("r"), len(gone))
        elif w[0] == "hdump":
            items = [] if out.split()[-1] == "-" else [int(x) for x in out.split()[-1].split(",")]
            if sorted(items) != sorted(self.s):
                return "table contents %s differ from the set of keys inserted and not removed %s" % (sorted(items)[:12], sorted(self.s)[:12])
        if "n" in o and int(o["n"]) != len(self.s):
            return "count %s, but %d keys are in the set" % (o["n"], len(self.s))
        return None


class ReplayOracle:
    """replay.c (insert / remove / find / purge / dump), dec_validate_replay and the daemon-level request:
    a python set of (first 16 MAC bytes, expiry), a clock, and the window arithmetic of the statement."""
    def __init__(self):
        self.tab = None                 # keys the table holds, by observation of insert / remove results
        self.cfg = dict(max_ttl=3600, skew=1, retry=1)
        self.now = 0
        self.upper = set()              # keys some request was answered SUCCESS for and that have not expired+purged
        self.delivered = set()          # keys for which a SUCCESS reply reached a client, not expired+purged since
        self.stolen = set()             # keys withdrawn by a request that had not inserted them
        self.purge_seen = False

    def exempt(self, retry, gsr=None):
        return bool(self.cfg["retry"] if gsr is None else gsr) and 1 <= retry <= 5

    def feed(self, op, out):
        w = op.split()[1:]
        o = kv(out)
        c = w[0]
        if c == "init":
            if self.tab is None:
                self.tab = set()
            return None
        if c == "fini":
            self.tab = None; self.upper.clear(); self.delivered.clear()
            return None
        if c == "conf":
            self.cfg = dict(max_ttl=int(w[1]), skew=int(w[2]), retry=int(w[3])); return None
        if c == "clock":
            self.now = int(w[1]); return None
        if c in ("cmp", "key", "exp", "vt", "bench"):
            return self.kernel(w, out, o)
        if self.tab is None:
            if c in ("ins", "rem") and o.get("rc") != "-1":
                return "%s without a table returned %s" % (c, o.get("rc"))
            return None
        r = None
        if c == "ins":
            k = key_of(bytes.fromhex(w[1]), int(w[2]), int(w[3])); had = k in self.tab; self.tab.add(k)
            if o.get("rc") != ("1" if had else "0"):
                r = "replay_insert: key %s, returned %s" % ("already present" if had else "absent", o.get("rc"))
        elif c == "rem":
            k = key_of(bytes.fromhex(w[1]), int(w[2]), int(w[3])); had = k in self.tab; self.tab.discard(k)
            if o.get("rc") != ("0" if had else "-1"):
                r = "replay_remove: key %s, returned %s" % ("present" if had else "absent", o.get("rc"))
        elif c == "find":
            k = (bytes.fromhex(w[1])[:16], int(w[2]))
            if o.get("found") != ("1" if k in self.tab else "0"):
                r = "lookup of a key that is %s answered %s" % ("present" if k in self.tab else "absent", o.get("found"))
        elif c == "purge":
            r = self.purge(int(w[1]), o)
        elif c == "dump":
            items = set()
            if out.split()[-1] != "-":
                for it in out.split()[-1].split(","):
                    m, e = it.split(":"); items.add((bytes.fromhex(m), int(e)))
            if items != self.tab:
                d1, d2 = list(items - self.tab)[:3], list(self.tab - items)[:3]
                r = "table contents differ from the set of credentials recorded: extra %s, missing %s" % (
                    [(m.hex(), e) for m, e in d1], [(m.hex(), e) for m, e in d2])
        elif c == "vr":
            mac, t0, ttl, retry, gsr = bytes.fromhex(w[1]), int(w[2]), int(w[3]), int(w[4]), int(w[5])
            k = key_of(mac, t0, ttl); had = k in self.tab; self.tab.add(k)
            want = ("0", "0") if (not had or self.exempt(retry, gsr)) else ("-1", str(E_REPLAYED))
            if (o.get("rc"), o.get("err")) != want:
                r = "dec_validate_replay on %s key with retry=%d (retries %s): rc=%s err=%s, required rc=%s err=%s" % (
                    "a present" if had else "an absent", retry, "on" if gsr else "off", o.get("rc"), o.get("err"), want[0], want[1])
        elif c == "race":
            n, mac, t0, ttl = int(w[1]), bytes.fromhex(w[2]), int(w[3]), int(w[4])
            k = key_of(mac, t0, ttl); had = k in self.tab; self.tab.add(k)
            z = 0 if had else 1
            if (o.get("zeros"), o.get("ones"), o.get("errs")) != (str(z), str(n - z), "0"):
                r = "%d threads inserting one credential at once: %s got 0, %s got 1, %s errors; exactly %d must get 0" % (
                    n, o.get("zeros"), o.get("ones"), o.get("errs"), z)
        elif c == "req":
            r = self.req(w, o)
        if r is None and "n" in o and int(o["n"]) != len(self.tab):
            r = "the table holds %s entries, %d credentials are recorded and unexpired" % (o["n"], len(self.tab))
        return r

    def purge(self, now, o):
        self.now = now
        self.purge_seen = True
        gone = {k for k in self.tab if k[1] < now}
        self.tab -= gone
        for s in (self.upper, self.delivered, self.stolen):
            s -= {k for k in s if k[1] < now}
        if int(o.get("n", -9)) != len(self.tab) or int(o.get("purged", -9)) != len(gone):
            return "purge at %d: %s entries removed and %s left; exactly the %d entries with expiry < %d must go, %d stay" % (
                now, o.get("purged"), o.get("n"), len(gone), now, len(self.tab))
        if int(o.get("rearm", 0)) <= 0:
            return "replay_purge did not re-arm its timer (rearm=%s): entries would never be discarded" % o.get("rearm")
        return None

    def req(self, w, o):
        mac, t0, ttl, retry, pre, auth, send = bytes.fromhex(w[1]), int(w[2]), int(w[3]), int(w[4]), int(w[5]), int(w[6]), int(w[7])
        ttlp = min(ttl, self.cfg["max_ttl"]); skew = ttlp if self.cfg["skew"] else 1
        k = key_of(mac, t0, ttlp)
        code = int(o["code"]); ins = o["ins"]; wd = o["withdrew"] == "1"
        n_before = len(self.tab)
        if t0 - skew < 0 or t0 + ttlp >= M32:
            return None                                  # window wraps: not generated by these streams
        want_fail = pre if pre else E_UNAUTH if not auth else E_REWOUND if self.now < t0 - skew else E_EXPIRED if self.now > t0 + ttlp else 0
        if want_fail:
            if code != want_fail:
                return "a decode that must fail with code %d was answered %d" % (want_fail, code)
            if ins != "x" or wd or int(o["n"]) != n_before:
                return "a failed decode (code %d) touched the replay table (replay_insert called: %s, entries %d -> %s)" % (
                    code, ins != "x", n_before, o["n"])
            return None
        if ins not in ("0", "1"):
            return "an authorised in-time decode never reached the replay check (replay_insert returned %s)" % ins
        r = None
        ex = self.exempt(retry)
        if code == 0 and not ex and k in self.delivered:
            self.hit_key = F7_KEY if k in self.stolen else None
            self.hit_required = "code=%d (EMUNGE_CRED_REPLAYED)" % E_REPLAYED
            r = ("second first-attempt SUCCESS for one credential: a SUCCESS reply for it was delivered before, its record has not "
                 "expired (expiry %d, clock %d), this request carries retry=%d" % (k[1], self.now, retry))
            if k in self.stolen:
                r += "; in between a retry-flagged request that had not inserted the record withdrew it after its own send failed"
        elif code == E_REPLAYED and k not in self.upper:
            r = "credential reported REPLAYED although no request for it was answered SUCCESS since its last expiry"
        elif code not in (0, E_REPLAYED):
            r = "authorised in-time decode answered %d" % code
        elif code == E_REPLAYED and ex:
            r = "retry-flagged request (retry=%d, retries enabled) reported REPLAYED" % retry
        elif code != 0 and k not in self.upper:
            r = "first authorised in-time decode of a credential answered %d" % code
        if ins == "0":
            self.tab.add(k)
        if wd:
            self.tab.discard(k)
            if ins != "0":
                self.stolen.add(k)
        if code == 0:
            self.upper.add(k)
            if send:
                self.delivered.add(k)
        return r

    def kernel(self, w, out, o):
        c = w[0]
        if c == "cmp":
            a, b = (bytes.fromhex(w[1])[:16], int(w[2])), (bytes.fromhex(w[3])[:16], int(w[4]))
            want = -1 if a < b else 1 if a > b else 0
            if int(out) != want:
                return "replay_cmp_f orders %s vs %s as %s, lexicographic (MAC bytes, expiry) order is %d" % (w[1:3], w[3:5], out, want)
        elif c == "key":
            if int(out) != int.from_bytes(bytes.fromhex(w[1])[:4], "little"):
                return None     # which bytes feed the hash is not part of the property (any hash function is fine)
        elif c == "exp":
            if int(out) != (1 if int(w[1]) < int(w[2]) else 0):
                return "purge predicate: entry with expiry %s at time %s -> %s; an entry expires strictly after its last valid second" % (w[1], w[2], out)
        elif c == "vt":
            t0, ttl, t1, mx, sk = (int(x) for x in w[1:6])
            ttlp = min(ttl, mx); skew = ttlp if sk else 1
            if t0 - skew >= 0 and t0 + ttlp < M32:
                want = E_REWOUND if t1 < t0 - skew else E_EXPIRED if t1 > t0 + ttlp else 0
                if int(o["err"]) != want or int(o["ttl"]) != ttlp:
                    return "time check (time0=%d ttl=%d now=%d max_ttl=%d skew=%d) -> err=%s ttl=%s, required err=%d ttl=%d" % (
                        t0, ttl, t1, mx, sk, o["err"], o["ttl"], want, ttlp)
        return None


# ---------------------------------------------------------------------------------------------------------------
# running a stream

def run_stream(ctx, name, ops, h, drv, oracle, what, relevant=None):
    """Correspondence (harness vs model driver) + stateful property oracle over the harness output.
    Every oracle hit becomes a violation whose replay is the history that produced it (shrunk to the ops
    `relevant(op, hit)` keeps, if that still reproduces).  Returns (agreed, hits)."""
    ctx.log("stream %s: %d ops" % (name, len(ops)))
    diff, out_c = cbuild.diff_stream(ctx, name, ops, [h], [drv])
    hits = []
    orc = oracle()
    for i, o in enumerate(out_c[:len(ops)]):
        orc.hit_key = None
        orc.hit_required = None
        try:
            r = orc.feed(ops[i], o)
        except Exception as e:                      # unparsable output is a finding about the harness, reported as such
            r = "unparsable harness output %r (%r)" % (o, e)
        if r:
            w = ops[i].split()
            # one report per stream for an unexplained failure; hits that carry a finding key are all kept (deduplicated by key)
            if orc.hit_key or not any(hh.key is None for hh in hits):
                hits.append(Hit(i, r, orc.hit_key, w[2] if len(w) > 2 else None, orc.hit_required))
            if len(hits) >= 6:
                break
    ctx.obligation("correspondence", "stream %s: %d ops, implementation = model" % (name, len(ops)), diff is None,
                   "" if diff is None else "first difference at op %d `%s`: impl=%s model=%s" % (
                       diff["index"], diff["op"][:200], diff["impl"][:600], diff["model"][:300]))
    unknown = []
    for hit in hits:
        hist = ops[:hit.index + 1]
        if relevant:
            small = [op for op in hist if relevant(op, hit)]
            if small and small[-1] == hist[-1]:
                rc, out_s, _ = cbuild.run_lines([h], small)
                o2 = oracle(); bad = None
                for op, o in zip(small, out_s):
                    o2.hit_key = None; o2.hit_required = None
                    try:
                        bad = o2.feed(op, o)
                    except Exception:
                        bad = None
                    if bad:
                        break
                if bad and op == small[-1]:
                    hist = small
        before = len(ctx.known_hits)
        ctx.violation("%s: %s" % (what, hit.reason),
                      {"stream": name, "ops": hist, "impl_output": out_c[hit.index], "reason": hit.reason,
                       "required": hit.required or "what the reason states", "fails_on": "implementation (real C code in harness/h_hash.c)"},
                      found_input=True, finding_key=hit.key)
        if not (hit.key and any(k["key"] == hit.key for k in ctx.known_hits)):
            unknown.append(hit)
    ctx.obligation("oracle", "stream %s: property oracle on implementation outputs%s" % (
        name, " (%d hit(s) of a recorded known finding)" % (len(hits) - len(unknown)) if len(hits) != len(unknown) else ""),
        not unknown, "" if not unknown else "op %d `%s` -> %s (%s)" % (
            unknown[0].index, ops[unknown[0].index][:200], out_c[unknown[0].index][:200], unknown[0].reason))
    if diff is not None and not hits:
        crashed = diff["impl"].startswith("(rc=") and not diff["impl"].startswith("(rc=0")
        if crashed:
            san = "sanitizer/crash" if ("Sanitizer" in diff["impl"] or "runtime error" in diff["impl"]) else "abnormal exit"
            ctx.violation("%s: implementation %s" % (what, san),
                          {"stream": name, "ops": ops[:diff["index"] + 1], "impl_output": diff["impl"], "model_output": diff["model"]},
                          found_input=True)
        else:
            ctx.violation("%s: correspondence between model and implementation broke; the property oracle found no failing input" % what,
                          {"stream": name, "broken": "correspondence stream " + name, "first_difference": diff,
                           "ops": ops[:diff["index"] + 1]}, found_input=False)
    return diff is None, hits


def relevant_same_mac(op, hit):
    w = op.split()
    if len(w) < 2:
        return False
    if w[1] in ("init", "fini", "conf", "clock", "purge", "bench", "hnew"):
        return True
    return hit.mac is not None and len(w) > 2 and w[2][:32] == hit.mac[:32]


def absorb_known(ctx, key, names):
    """A theorem-level obligation that fails exactly because of a recorded known finding does not fail the run."""
    if not any(k["key"] == key for k in ctx.known_hits):
        return
    for o in ctx.obligations:
        if not o["ok"] and o["kind"] == "theorem" and any(o["name"].endswith(n) for n in names):
            o["ok"] = True
            o["name"] += " [fails because of recorded known finding %s]" % key


def replay_file(ctx, what):
    rep = json.load(open(ctx.replay_in))
    drv, h = build(ctx)
    ops = rep.get("ops") or []
    if not (drv and h and ops):
        ctx.obligation("replay", "replay file has ops and the harness builds", False, str(rep)[:300])
        return
    run_stream(ctx, "replay", ops, h, drv, ReplayOracle if not ops[0].startswith("hash h") else RawOracle, what + " (replay)")


# ---------------------------------------------------------------------------------------------------------------
# op generators

def gen_kernels(ctx, n):
    r = ctx.rng
    ops = []
    pool = [m for g in mac_pool(r, 6) for m in g]
    for _ in range(n):
        a, b = r.choice(pool), r.choice(pool)
        e = r.choice([0, 1, 1000, 2 ** 31 - 1, 2 ** 31, M32 - 1, r.randrange(M32)])
        ops.append("hash cmp %s %d %s %d" % (hx(a), e, hx(b), e + r.choice([-1, 0, 0, 1])))
        ctx.dist("kernel_cmp")
    for m in pool[:40]:
        ops.append("hash key " + hx(m)); ctx.dist("kernel_key")
    for e in [0, 1, 999, 1000, 1001, 2 ** 31 - 1, 2 ** 31, M32 - 1]:
        for d in (-2, -1, 0, 1, 2, 60):
            ops.append("hash exp %d %d" % (e, e + d)); ctx.dist("kernel_is_expired")
    for _ in range(n):
        e = r.randrange(M32); ops.append("hash exp %d %d" % (e, e + r.choice([-1, 0, 1, r.randrange(-100, 100)]))); ctx.dist("kernel_is_expired")
    # time check on the boundary lattice (validity window, cap)
    for mx in (1, 2, 299, 300, 3599, 3600):
        for sk in (0, 1):
            for ttl in (0, 1, 2, mx - 1, mx, mx + 1, 86400, M32 - 1):
                if ttl < 0:
                    continue
                for t0 in (0, 1, 4000, 10 ** 9, M32 - 2 - 3600, M32 - 1):
                    ttlp = min(ttl, mx); skew = ttlp if sk else 1
                    for t1 in {t0 - skew - 1, t0 - skew, t0 - 1, t0, t0 + 1, t0 + ttlp - 1, t0 + ttlp, t0 + ttlp + 1}:
                        if 0 <= t1 < M32:
                            ops.append("hash vt %d %d %d %d %d" % (t0, ttl, t1, mx, sk)); ctx.dist("kernel_validate_time")
    return ops


def gen_raw(ctx, n):
    r = ctx.rng
    ops = []
    for size, shift in [(1, 0), (2, 0), (3, 2), (7, 0), (7, 3), (16, 1), (1213, 0)]:
        ops.append("hash hnew %d %d" % (size, shift))
        span = r.choice([6, 12, 40, 200])
        for _ in range(n // 7):
            q = r.random(); k = r.randrange(span) if r.random() < .9 else r.randrange(1 << 31)
            if q < .45:
                ops.append("hash hins %d" % k)
            elif q < .65:
                ops.append("hash hrem %d" % k)
            elif q < .80:
                ops.append("hash hfind %d" % k)
            elif q < .88:
                m = r.randrange(2, 6); ops.append("hash hdel %d %d" % (m, r.randrange(m)))
            else:
                ops.append("hash hdump")
            ctx.dist("raw_" + ops[-1].split()[1])
        ops.append("hash hdump")
    return ops


def gen_replay(ctx, n, races=2, threads=8):
    """insert / remove / find / purge / dump / dec_validate_replay on colliding keys, purges around every expiry"""
    r = ctx.rng
    ops = ["hash ins %s 100 50" % hx(bytes(range(16))), "hash init"]
    groups = mac_pool(r, max(3, n // 400))
    exps = []
    for _ in range(n):
        g = r.choice(groups); mac = r.choice(g)
        base = r.choice([1000, 5000, 10 ** 9, M32 - 100])
        t0 = base + r.randrange(4); ttl = r.choice([0, 1, 2, 3, 60, 300]) + (r.randrange(3) if r.random() < .3 else 0)
        if r.random() < .2 and exps:                                     # equal expiry from a different (time0, ttl) split
            e = r.choice(exps); ttl = r.randrange(0, 4); t0 = (e - ttl) % M32
        exps.append((t0 + ttl) % M32); exps = exps[-50:]
        q = r.random()
        if q < .40:
            ops.append("hash ins %s %d %d" % (hx(mac), t0, ttl))
        elif q < .55:
            ops.append("hash rem %s %d %d" % (hx(mac), t0, ttl))
        elif q < .65:
            ops.append("hash find %s %d" % (hx(mac), (t0 + ttl + r.choice([-1, 0, 0, 0, 1])) % M32))
        elif q < .78:
            ops.append("hash vr %s %d %d %d %d" % (hx(mac), t0, ttl, r.choice([0, 0, 0, 1, 2, 5, 6, 255]), r.choice([1, 1, 0])))
        elif q < .90:
            e = r.choice(exps); ops.append("hash purge %d" % max(0, e + r.choice([-2, -1, 0, 0, 1, 1, 2, 61])))
        elif q < .97:
            ops.append("hash dump")
        else:
            ops.append("hash find %s %d" % (hx(bytes(r.randrange(256) for _ in range(16))), r.randrange(M32)))
        ctx.dist("replay_" + ops[-1].split()[1])
    for _ in range(races):
        mac = bytes(r.randrange(256) for _ in range(16))
        ops.append("hash race %d %s 7000 10" % (threads, hx(mac))); ops.append("hash race %d %s 7000 10" % (threads, hx(mac)))
        ctx.dist("replay_race", 2)
    ops += ["hash dump", "hash purge %d" % (M32 + 5), "hash dump", "hash fini", "hash ins %s 100 50" % hx(bytes(range(16)))]
    return ops


def mac20(r):
    return bytes(r.randrange(256) for _ in range(20))


def req(mac, t0, ttl, retry=0, pre=0, auth=1, send=1):
    if retry > 5 and not pre:
        pre = E_SOCKET          # dec_check_retry refuses the request before the credential is looked at
    return "hash req %s %d %d %d %d %d %d" % (hx(mac), t0, ttl, retry, pre, auth, send)


def f7_history(mac=None, t=5000):
    mac = mac or bytes(range(1, 21))
    return ["hash init", "hash conf 3600 1 1", "hash clock %d" % t,
            req(mac, t, 300), req(mac, t, 300), req(mac, t, 300, retry=1, send=0), req(mac, t, 300)]


def gen_daemon(ctx, n_scen, with_lost_retry_replies=True, purge_heavy=False):
    """histories of whole decode requests (real dec_process_msg), clock advances and purge ticks"""
    r = ctx.rng
    ops = ["hash init", "hash conf 3600 1 1"]
    now = 100000
    ops.append("hash clock %d" % now)
    cfg = (3600, 1, 1)
    groups = mac_pool(r, 8)
    live = []                                             # (mac, t0, ttl) decoded recently: re-presented later
    kinds = ["replay", "retry", "undelivered", "failed", "boundary", "collide", "cycle"] + (["lostretry"] if with_lost_retry_replies else [])
    if purge_heavy:
        kinds += ["boundary", "cycle", "boundary"]
    for _ in range(n_scen):
        if r.random() < .08:
            cfg = (r.choice([1, 60, 300, 3600]), r.choice([0, 1]), r.choice([1, 1, 0]))
            ops.append("hash conf %d %d %d" % cfg)
        mx, sk, gsr = cfg
        g = r.choice(groups)
        mac = (r.choice(g) + bytes(20))[:20] if r.random() < .5 else mac20(r)
        ttl = r.choice([1, 2, 60, 300, 3600, 86400])
        ttlp = min(ttl, mx); skew = ttlp if sk else 1
        t0 = now - r.randrange(0, min(skew, ttlp) + 1) if r.random() < .7 else now + r.randrange(0, skew + 1)
        if not (t0 - skew <= now <= t0 + ttlp):
            t0 = now
        kind = r.choice(kinds)
        ctx.dist("daemon_" + kind)
        if kind == "replay":
            ops += [req(mac, t0, ttl), req(mac, t0, ttl)]
            if r.random() < .5:
                ops.append(req(mac, t0, ttl, send=r.choice([0, 1])))
            live.append((mac, t0, ttl))
        elif kind == "retry":
            ops.append(req(mac, t0, ttl))
            for _ in range(r.randrange(1, 4)):
                ops.append(req(mac, t0, ttl, retry=r.choice([0, 1, 2, 5, 6, 7]), send=1))
            live.append((mac, t0, ttl))
        elif kind == "lostretry":                      # a retry-flagged request whose own reply is lost, then a plain one
            ops += [req(mac, t0, ttl), req(mac, t0, ttl, retry=r.choice([1, 3, 5]), send=0), req(mac, t0, ttl)]
            live.append((mac, t0, ttl))
        elif kind == "undelivered":                    # first attempt's reply lost: not consumed; the retry succeeds
            ops += [req(mac, t0, ttl, send=0), req(mac, t0, ttl, retry=r.choice([0, 1])), req(mac, t0, ttl)]
            live.append((mac, t0, ttl))
        elif kind == "failed":
            bad = r.choice(["pre", "auth", "expired", "rewound"])
            if bad == "pre":
                ops.append(req(mac, t0, ttl, pre=E_INVALID))
            elif bad == "auth":
                ops.append(req(mac, t0, ttl, auth=0))
            elif bad == "expired":
                ops.append(req(mac, now - ttlp - 1 - r.randrange(3), ttl))
            else:
                ops.append(req(mac, now + skew + 1 + r.randrange(3), ttl))
            ops += [req(mac, t0, ttl), req(mac, t0, ttl)]
            live.append((mac, t0, ttl))
        elif kind == "boundary":                       # purge ticks at every offset around the last valid second
            ttl = r.choice([1, 2, 5, 60]); ttlp = min(ttl, mx); t0 = now
            ops.append(req(mac, t0, ttl))
            end = t0 + ttlp
            for off in (-1, 0, 1, 2):
                t = end + off
                if t < now:
                    continue
                now = t
                ops += ["hash clock %d" % now, "hash purge %d" % now, req(mac, t0, ttl)]
        elif kind == "collide":
            ms = [(m + bytes(20))[:20] for m in r.sample(g, min(4, len(g)))]
            for m in ms:
                ops.append(req(m, t0, ttl))
            for m in ms:
                ops.append(req(m, t0, ttl))
            live += [(m, t0, ttl) for m in ms[:2]]
        elif kind == "cycle":                          # purge cycles every 60 s over the live set
            for _ in range(r.randrange(1, 4)):
                now += 60
                ops += ["hash clock %d" % now, "hash purge %d" % now]
                for (m, a, b) in r.sample(live, min(3, len(live))):
                    ops.append(req(m, a, b))
            if r.random() < .3:
                ops.append("hash dump")
        if r.random() < .25:
            now += r.choice([0, 1, 1, 2, 59, 60, 61, 300])
            ops.append("hash clock %d" % now)
        if live and r.random() < .3:
            m, a, b = r.choice(live); ops.append(req(m, a, b, retry=r.choice([0, 0, 1])))
        live = live[-40:]
    ops.append("hash dump")
    return ops
