"""C04 - UID/GID decode restrictions, enforced silently.  Theorems: lean/Munge/Props/C04.lean over the translated
`dec_validate_auth` and `dec_process_msg`.  Tie: translation validation of the kernel over the cross product of the
quantifier; end-to-end histories on the real pipeline (toy primitives, byte-exact against the model): unauthorised
attempts under each credential state, then an authorised one."""
import itertools, json
from ..vlib import leanlib, cbuild, judge
from ..gen import g_dec
from . import _cred_common as cc
from . import _conf_check

LEVEL = "proof"
ANY = 0xFFFFFFFF
IDS = [0, 1, 1000, 1001, 2 ** 31 - 1, 2 ** 31, ANY - 1, ANY]


def authorized(au, ag, cu, cg, root, mem):
    uok = au == ANY or au == cu or (root and cu == 0)
    gok = ag == ANY or ag == cg or mem
    return uok and gok


def kern_oracle(op, out):
    w = op.split()
    kv = cc.out_fields(out)
    if w[1] != "dec_validate_auth":
        return None
    au, ag, cu, cg, root, mem = map(int, w[2:8])
    ok = authorized(au, ag, cu, cg, root, mem)
    if (int(kv["ret"]) == 0) != ok:
        return "authorisation verdict %s differs from the statement (%s)" % (kv["ret"], "authorised" if ok else "unauthorised")
    if not ok and int(kv["err"]) != 18:
        return "refusal is not reported as EMUNGE_CRED_UNAUTHORIZED"
    return None


def kern_ops(r, thorough):
    ops = []
    for au, ag, cu, cg in itertools.product(IDS, repeat=4):
        for root in (0, 1):
            for mem in (0, 1):
                ops.append("kern dec_validate_auth %d %d %d %d %d %d" % (au, ag, cu, cg, root, mem))
    for _ in range(100000 if thorough else 3000):
        v = [r.choice(IDS + [r.randrange(2 ** 32)]) for _ in range(4)]
        ops.append("kern dec_validate_auth %d %d %d %d %d %d" % (*v, r.randrange(2), r.randrange(2)))
    return ops


def histories(ctx, htoy):
    """encode restricted credentials, then per credential state: unauthorised attempts followed by an authorised one."""
    r = ctx.rng
    n = 24 if ctx.tier == "quick" else 200
    enc_ops, meta = [], []
    for i in range(n):
        au = r.choice([ANY, 1000, 0, 4000000000])
        ag = r.choice([ANY, 50, 0, 4000000001])
        if au == ANY and ag == ANY:
            au = 1000
        data = bytes(r.randrange(256) for _ in range(r.randrange(1, 24)))
        enc_ops.append("cred req %s now=1000000 peer=77:88 rnd=%s maxttl=3600 skew=1 mem=-" % (
            cc.hx(cc.enc_req(data=data, ttl=300, cipher=r.choice([0, 4, 5]), mac=r.choice([3, 5]), zip_=0, auth_uid=au, auth_gid=ag)),
            bytes(r.randrange(256) for _ in range(24)).hex()))
        meta.append((au, ag, data))
    rc, out, err = cbuild.run_lines([htoy], enc_ops)
    ops, expect = list(enc_ops), [None] * len(enc_ops)
    for (au, ag, data), line in zip(meta, out):
        rsp, _ = cc.rsp_of(line)
        if not (rsp.ok and rsp.kind == "enc" and rsp.error_num == 0):
            continue
        good_uid = au if au != ANY else 31337
        good_gid = ag if ag != ANY else 31338
        bad = []
        if au != ANY:
            bad.append((good_uid + 1, good_gid, "-"))
            bad.append((0 if au != 0 else 5, good_gid, "-"))          # root is not exempt
        if ag != ANY:
            bad.append((good_uid, (good_gid + 1) % 2 ** 32, "-"))
            bad.append((good_uid, 12345, "%d:%d" % (good_uid + 7, ag)))  # somebody else is a member
        for state, t1 in (("fresh", 1000010), ("expired", 1000400), ("rewound", 999000), ("decoded", 1000010)):
            ops.append("cred replay-reset"); expect.append(None)
            if state == "decoded":
                ops.append("cred req %s now=%d peer=%d:%d mem=-" % (cc.hx(cc.dec_req(rsp.data)), t1, good_uid, good_gid))
                expect.append(("auth", 0, data))
            for (u, g, mem) in bad:
                for rep in range(2):
                    ops.append("cred req %s now=%d peer=%d:%d mem=%s" % (cc.hx(cc.dec_req(rsp.data)), t1, u, g, mem))
                    expect.append(("unauth",))
            # the refused attempts did not consume the credential: the authorised client (direct, or via group membership) still
            # gets the verdict it would have got without them
            via_group = ag != ANY and r.random() < .5
            ops.append("cred req %s now=%d peer=%d:%d mem=%s" % (
                cc.hx(cc.dec_req(rsp.data)), t1, good_uid, 999 if via_group else good_gid,
                ("%d:%d" % (good_uid, ag)) if via_group else "-"))
            want = {"fresh": 0, "expired": 15, "rewound": 16, "decoded": 17}[state]
            expect.append(("auth", want, data))
    return ops, expect, len(enc_ops)


def run(ctx):
    ctx.rule = ("translation validation of dec_validate_auth on {0,1,1000,1001,2^31-1,2^31,2^32-2,ANY}^4 x root flag x membership answer plus seeded random ids; "
                "end-to-end histories: restricted credentials x {fresh, expired, rewound, already decoded} x unauthorised clients (wrong uid, root, wrong gid, "
                "non-member) twice each, then the authorised client (directly or through group membership). distinct = distinct op lines")
    ctx.assumptions += ["SO_PEERCRED is interposed (getsockopt) in the harness; the kernel's attestation itself is trusted",
                        "group membership is a scripted relation here; that gids_is_member equals the databases is C17"]
    g_dec.generate(ctx)
    if ctx.replay_in:
        rep = json.load(open(ctx.replay_in))
        drv = leanlib.driver(ctx)
        h = cc.build_real(ctx) if rep.get("stream") == "auth-kernel" else cc.build_toy(ctx)
        judge.run_and_judge(ctx, "replay", rep.get("ops") or [], [h], [drv], oracle=kern_oracle, what="authorisation (replay)")
        return
    leanlib.check_props(ctx, "C04")
    drv = leanlib.driver(ctx)
    hreal = cc.build_real(ctx)
    htoy = cc.build_toy(ctx)
    # "root is not exempt unless the daemon was built to allow it": conf->got_root_auth after the real option processing
    _conf_check.run(ctx, "authorisation", {"rootauth"})
    if not drv or not hreal or not htoy:
        return
    ops = kern_ops(ctx.rng, ctx.tier == "thorough")
    for o in ops:
        ctx.distinct(o)
    ctx.dist("kern_dec_validate_auth", len(ops))
    ctx.sample(ops[777]); ctx.sample(ops[-1])
    judge.run_and_judge(ctx, "auth-kernel", ops, [hreal], [drv], oracle=kern_oracle, what="authorisation kernel")
    # "… or whose UID the group database (as last loaded, via the user database) lists as a member of g": the membership answer
    # is a parameter of the theorems above; here the REAL gids_is_member (gids.c/hash.c, scripted databases) is exercised with the
    # C17 machinery so that a membership bug is reported under this property too.
    try:
        from ..gen import g_gids
        from . import c17
        if g_gids.generate(ctx):
            hg = cbuild.build(ctx, "h_gids", c17.SRCS, libs=["-Wl,--wrap=hash_find"])
            if hg:
                gg = c17.Gen(ctx, getattr(ctx, "gids_consts", {}))
                gops = list(c17.FIXED) + [gg.basic() for _ in range(80 if ctx.tier == "quick" else 800)]
                gops = [o for o in gops if o.split()[1] == "gnu"]
                for o in gops:
                    ctx.distinct(o)
                ctx.dist("real_gids_membership_scenarios", len(gops))
                judge.run_and_judge(ctx, "membership-real", gops, [hg], [drv], oracle=c17.Oracle(), what="group membership used for authorisation")
    except Exception as e:      # the C17 cluster is optional for this check
        ctx.log("membership-real stream skipped: %r" % e)
    ops, expect, nenc = histories(ctx, htoy)
    ctx.dist("history_unauthorised_attempts", len([e for e in expect if e and e[0] == "unauth"]))
    ctx.dist("history_authorised_attempts", len([e for e in expect if e and e[0] == "auth"]))

    def oracle(op, outl, _s={"i": 0}):
        i = _s["i"]; _s["i"] += 1
        e = expect[i] if i < len(expect) else None
        if not e:
            return None
        rsp, _ = cc.rsp_of(outl)
        if not rsp.ok or rsp.kind != "dec":
            return "no well-formed decode reply"
        if e[0] == "unauth":
            if rsp.error_num != 18:
                return "unauthorised client got error %d instead of UNAUTHORIZED (18)" % rsp.error_num
            if rsp.data_len or rsp.data or rsp.cred_uid != ANY or rsp.cred_gid != ANY or rsp.auth_uid != ANY or rsp.auth_gid != ANY \
                    or rsp.ttl or rsp.time0 or rsp.time1 or rsp.cipher or rsp.mac or rsp.zip or rsp.addr_len or rsp.realm:
                return "UNAUTHORIZED reply discloses credential data"
        else:
            if rsp.error_num != e[1]:
                return "authorised client got error %d, expected %d (refused attempts must not consume or mask the credential)" % (rsp.error_num, e[1])
            if rsp.data != e[2] or rsp.cred_uid != 77 or rsp.cred_gid != 88:
                return "authorised reply lacks the payload / encoder identity"
        return None
    for o in ops[nenc + 3:nenc + 40:9]:
        ctx.sample(o[:170])
    for o in ops:
        ctx.distinct(o)
    judge.run_and_judge(ctx, "auth-histories", ops, [htoy], [drv], oracle=oracle, what="authorisation histories")
