"""C16 - start-up refuses insecure key, path and file settings; created files are safe.
Model: lean/Munge/Model/Path.lean over lean/Munge/Gen/Path.lean (K+ translation of path_is_secure's loop body,
_conf_open_keyfile, _random_read_seed, _random_read_entropy_from_file, _random_write_seed, lock_create, _lock_stat,
open_logfile, write_pidfile, sock_create, regenerated from the sources by tools/gen/g_path.py);
theorems: lean/Munge/Props/C16.lean; correspondence: harness/h_path.c (scripted stat tables for the real
path_is_secure; real file system, as root, for the key/seed checks and every creation site under an umask sweep)."""
import glob, itertools, json, os, signal, stat as statmod, subprocess, time
from ..vlib import leanlib, cbuild, judge
from ..gen import g_path

LEVEL = "proof"
S_IFDIR, S_IFREG, S_IFLNK, S_IFCHR, S_IFSOCK = 0o040000, 0o100000, 0o120000, 0o020000, 0o140000
SENT = 4294967295
TYPEBITS = {"reg": S_IFREG, "dir": S_IFDIR, "chr": S_IFCHR, "sock": S_IFSOCK}
LIMITS = {"sock": (0o777, True), "lock": (0o200, True), "pid": (0o644, False), "log": (0o640, False), "seed": (0o600, False)}


# ------------------------------------------------------------------ the statement, recomputed in python
def dir_ok(mode, uid, gid, euid, tgid, ignore_gw):
    """None if the directory satisfies the statement, else the reason"""
    if uid != 0 and uid != euid:
        return "owner"
    if mode & 0o020 and not mode & 0o1000:
        trusted = tgid is not None and gid == tgid
        if not (trusted or ignore_gw):
            return "group"
    if mode & 0o002 and not mode & 0o1000:
        return "world"
    return None


def ancestors(path):
    """/a/b/c -> [/a/b/c, /a/b, /a, /]"""
    out = []
    p = path
    while True:
        out.append(p)
        if p == "/":
            return out
        p = p.rsplit("/", 1)[0] or "/"


def kv(out):
    return dict(x.split("=", 1) for x in out.split() if "=" in x)


def fs_dirs_reason(dirs, euid, tgid, ignore_gw=False):
    """scenario directories below <base> (everything above is root 0755): reason of the first insecure one, deepest first"""
    for (mode, uid, gid) in reversed(dirs):
        r = dir_ok(mode, uid, gid, euid, tgid, ignore_gw)
        if r:
            return r
    return None


def parse_dirs(s):
    return [] if s == "-" else [tuple(int(x) for x in e.split(":")) for e in s.split(",")]


def parse_tgid(s):
    return None if s == "-" else int(s)


def oracle(op, out):
    w = op.split()
    try:
        k = kv(out)
        if w[1] == "fsinit":
            return None if out == "ok" else "scratch directory unusable: " + out
        if w[1] == "sec":
            flags, tgid, euid, canon, tbl = int(w[2]), parse_tgid(w[3]), int(w[4]), w[5], w[6]
            if canon == "-":
                return None if k["rc"] == "-1" else "realpath failure must be an error"
            table = {}
            if tbl != "-":
                for e in tbl.split(","):
                    p, m, u, g = e.split(":")
                    table[p] = (int(m), int(u), int(g))
            if canon not in table:
                return None if k["rc"] == "-1" else "a path that cannot be stat'ed must be an error"
            start = canon if table[canon][0] & 0o170000 == S_IFDIR else (canon.rsplit("/", 1)[0])
            if start == "":
                return None        # non-directory directly under "/": nothing to walk (never passed by munged)
            verdict = 1
            for a in ancestors(start):
                if a not in table or table[a][0] & 0o170000 != S_IFDIR:
                    verdict = -1
                    break
                if dir_ok(table[a][0], table[a][1], table[a][2], euid, tgid, bool(flags & 1)):
                    verdict = 0
                    break
            if int(k["rc"]) != verdict:
                if verdict == 0:
                    return "path_is_secure accepted (rc=%s) a path with an insecure ancestor %s" % (k["rc"], a)
                return "path_is_secure returned %s, the statement requires %d" % (k["rc"], verdict)
            return None
        if w[1] == "key":
            force, euid, tgid, ftype, perm, uid, gid, link = int(w[3]), int(w[4]), parse_tgid(w[5]), w[6], int(w[7]), int(w[8]), int(w[9]), w[10] == "1"
            dirs = parse_dirs(w[11])
            bad = []
            if ftype != "reg":
                bad.append("not a regular file")
            if link:
                bad.append("symlink")
            if ftype != "none" and uid != euid:
                bad.append("owner")
            if ftype != "none" and perm & 0o066:
                bad.append("group/other read or write permission")
            r = fs_dirs_reason(dirs, euid, tgid)
            if r:
                bad.append("insecure directory (%s)" % r)
            fatal = k["fatal"] == "1"
            if force == 0 and bad and not fatal:
                return "munged accepted a key file without --force although: " + ", ".join(bad)
            if not bad and fatal:
                return "munged refused a key file that satisfies every condition (site %s)" % k.get("site")
            if force == 1 and ftype == "reg" and fatal:
                return "--force did not override a forceable key-file condition (site %s)" % k.get("site")
            return None
        if w[1] == "seed":
            force, euid, tgid, ftype, perm, uid, gid, link, size = int(w[3]), int(w[4]), parse_tgid(w[5]), w[6], int(w[7]), int(w[8]), int(w[9]), w[10] == "1", int(w[11])
            dirs = parse_dirs(w[12])
            r = fs_dirs_reason(dirs, euid, tgid)
            fatal = k["fatal"] == "1"
            if r and force == 0:
                return None if fatal else "munged accepted a seed file in an insecure directory (%s) without --force" % r
            if fatal:
                return "munged died on a seed file although its directory is secure or --force was given"
            if ftype == "none":
                return None
            badfile = link or ftype != "reg" or uid != euid or perm & 0o066
            if badfile:
                if int(k["added"]) != 0:
                    return "a seed file failing the ownership/permission checks was read into the entropy pool (%s bytes)" % k["added"]
                removable = not (ftype == "dir" and not link)
                if removable and k["exists"] == "1":
                    return "a seed file failing the ownership/permission checks was not removed"
            else:
                if int(k["added"]) != min(size, 1024) and not r:
                    return "a valid seed file was not used (%s of %d bytes)" % (k["added"], min(size, 1024))
                if k["exists"] != "1":
                    return "a valid seed file was removed"
            return None
        if w[1] == "gate":
            site, force, euid, tgid, dirs = w[3], int(w[4]), int(w[5]), parse_tgid(w[6]), parse_dirs(w[7])
            r = fs_dirs_reason(dirs, euid, tgid, ignore_gw=(site == "log"))
            fatal = k["fatal"] == "1"
            if r and force == 0:
                return None if fatal else "munged created its %s file in an insecure directory (%s) without --force" % (site, r)
            inaccessible = site == "sock" and any(d[0] & 0o111 != 0o111 for d in dirs)
            if fatal and not (inaccessible and force == 0):
                return "munged refused to create its %s file although the directory is secure or --force was given (site %s)" % (site, k.get("site"))
            return None
        if w[1] == "mode":
            site, u = w[3], int(w[4])
            if k["mode"] == "-":
                return "creation of the %s file failed under umask %03o: %s" % (site, u, out)
            m = int(k["mode"])
            lim, exact = LIMITS[site]
            if exact and m != lim:
                return "%s created with mode %04o under umask %03o, must be exactly %04o" % (site, m, u, lim)
            if m & ~lim:
                return "%s created with mode %04o under umask %03o, more permissive than %04o" % (site, m, u, lim)
            if int(k["after"]) != u:
                return "umask not restored after creating %s (inherited %03o, now %03o)" % (site, u, int(k["after"]))
            return None
        if w[1] == "seedpre":
            if k["mode"] == "-":
                return "writing the seed over an existing %s failed: %s" % (w[3], out)
            m = int(k["mode"])
            if k["type"] != "reg":
                return "after the seed was written its path is a %s, not a fresh regular file (a %s was there before)" % (k["type"], w[3])
            if k["victim"] != "intact":
                return "writing the seed followed a symlink planted at the seed path and overwrote its target"
            if m & ~0o600 or int(k["uid"]) != 0:
                return "seed file left with mode %04o owner %s (an existing file of mode %04o owner %s was re-used): must be a fresh file no more permissive than 0600" % (
                    m, k["uid"], int(w[4]), w[5])
            return None
        if w[1] == "lockpre":
            perm, uid, euid = int(w[3]), int(w[4]), int(w[5])
            if k["fatal"] == "0" and int(k["mode"]) != 0o200:
                return "munged went on with a lock file of mode %04o (must be exactly 0200)" % int(k["mode"])
            return None
    except Exception as e:
        return "unparsable harness output %r (%r)" % (out, e)
    return None


# ------------------------------------------------------------------ op generation
DIR_CLASSES = [  # (perm, owner class, gid class): the classes that matter for one directory
    (0o755, "root", "other"), (0o755, "euid", "other"), (0o755, "foreign", "other"),
    (0o775, "root", "other"), (0o775, "root", "trusted"), (0o1775, "euid", "other"),
    (0o757, "root", "other"), (0o1777, "root", "other"), (0o777, "euid", "trusted"),
]


def inst(cls, euid, tgid_val, r):
    perm, own, g = cls
    uid = {"root": 0, "euid": euid, "foreign": 4242}[own]
    gid = tgid_val if g == "trusted" else 77
    return perm, uid, gid


def sec_op(flags, tgid, euid, comps, stats, leaf=None, canon_override=None, drop=None):
    """comps: names; stats[i] = (mode incl. type, uid, gid) for '/' (i=0) and each ancestor; leaf: optional non-dir leaf"""
    paths = ["/"]
    cur = ""
    for c in comps:
        cur += "/" + c
        paths.append(cur)
    ents = []
    for i, p in enumerate(paths):
        if drop is not None and i == drop:
            continue
        ents.append("%s:%d:%d:%d" % (p, stats[i][0], stats[i][1], stats[i][2]))
    canon = paths[-1]
    if leaf:
        canon = (canon if canon != "/" else "") + "/" + leaf[0]
        ents.append("%s:%d:%d:%d" % (canon, leaf[1], leaf[2], leaf[3]))
    if canon_override is not None:
        canon = canon_override
    return "path sec %d %s %d %s %s" % (flags, "-" if tgid is None else tgid, euid, canon, ",".join(ents) if ents else "-")


def gen_sec(ctx):
    r = ctx.rng
    thorough = ctx.tier == "thorough"
    ops = []
    names = ["etc", "munge", "run", "var", "lib", "a", "b.d", "x_y", "k"]
    configs = [(0, None, 1000), (0, 500, 1000), (1, None, 1000), (1, 500, 0), (0, 500, 0)]
    maxd = 5 if thorough else 4
    for ci, (flags, tgid, euid) in enumerate(configs):
        tv = tgid if tgid is not None else 500
        depth_hi = maxd if ci < (5 if thorough else 2) else 3
        for d in range(0, depth_hi + 1):
            for combo in itertools.product(range(len(DIR_CLASSES)), repeat=d + 1):
                # the root directory only takes the first 4 + world-writable classes at larger depths to bound the count
                if d >= 3 and combo[0] not in (0, 2, 3, 6):
                    continue
                if d >= 4 and not thorough and sum(1 for c in combo if c != 0) > 2:
                    continue
                stats = []
                for c in combo:
                    perm, uid, gid = inst(DIR_CLASSES[c], euid, tv, r)
                    stats.append((S_IFDIR | perm, uid, gid))
                ops.append(sec_op(flags, tgid, euid, names[:d], stats))
                ctx.dist("sec_exhaustive_depth_%d" % d)
    # random deeper paths, odd modes, sentinel-valued gids, non-directory leaves, missing / non-directory ancestors
    nrand = 20000 if thorough else 4000
    for _ in range(nrand):
        d = r.randrange(0, 9)
        flags = r.choice([0, 1, 0, 1, 2, 3])
        tgid = r.choice([None, 500, 0, 77])
        euid = r.choice([0, 1000, 4242])
        comps = [r.choice(names) + str(r.randrange(3)) for _ in range(d)]
        stats = []
        for i in range(d + 1):
            q = r.random()
            if q < .6:
                perm = r.choice([0o755, 0o700, 0o750, 0o711, 0o555])
            elif q < .9:
                perm = r.choice([0o775, 0o1775, 0o757, 0o1777, 0o777, 0o770, 0o1770, 0o2775, 0o3777, 0o722, 0o1722, 0o020, 0o002, 0o1002])
            else:
                perm = r.randrange(0o10000)
            uid = r.choice([0, 0, euid, euid, 4242, 1, SENT])
            gid = r.choice([77, 500, 0, SENT, 500])
            stats.append((S_IFDIR | perm, uid, gid))
        kind = r.random()
        leaf = None
        drop = None
        canon_override = None
        if kind < .15:
            leaf = ("file", r.choice([S_IFREG, S_IFLNK, S_IFSOCK, S_IFCHR]) | r.choice([0o600, 0o644, 0o666, 0o777]), r.choice([0, euid, 4242]), 77)
        elif kind < .22 and d > 0:
            drop = r.randrange(0, d + 1)
        elif kind < .28 and d > 0:
            i = r.randrange(0, d)
            stats[i] = (S_IFREG | 0o644, stats[i][1], stats[i][2])
        elif kind < .31:
            canon_override = r.choice(["-", "relative/path", "-"])
        ops.append(sec_op(flags, tgid, euid, comps, stats, leaf=leaf, drop=drop, canon_override=canon_override))
        ctx.dist("sec_random_%s" % ("leaf" if leaf else "missing" if drop is not None else "canon" if canon_override else "plain"))
    return ops


def dirs_str(dirs):
    return ",".join("%d:%d:%d" % d for d in dirs) if dirs else "-"


def gen_fs(ctx, base):
    r = ctx.rng
    thorough = ctx.tier == "thorough"
    ops = ["path fsinit %s" % base]
    # --- key file: all modes 0000-0777 on a regular file owned by euid in a secure directory, with and without force
    for force in (0, 1):
        for perm in range(0o1000):
            if force == 1 and not thorough and perm % 7:
                continue
            ops.append("path key %s %d 0 - reg %d 0 0 0 -" % (base, force, perm))
            ctx.dist("key_all_modes")
    # --- key file: types x owner x symlink x force x a few modes x directory chains
    good = (0o755, 0, 0)
    dir_variants = [[], [good], [good, good, good],
                    [(0o775, 0, 77)], [(0o1775, 0, 77)], [(0o757, 0, 0)], [(0o1777, 0, 0)], [(0o755, 4242, 0)],
                    [(0o775, 0, 77), good, good], [good, (0o757, 0, 0), good], [good, good, (0o755, 4242, 0)],
                    [good, good, good, good, (0o775, 0, 500)], [(0o777, 0, 0), good, good, good, good]]
    for ftype in ("reg", "dir", "chr", "sock", "none"):
        for link in (0, 1):
            for uid, euid in ((0, 0), (1000, 1000), (1000, 0), (0, 1000)):
                for force in (0, 1):
                    for perm in (0o600, 0o400, 0o640, 0o604, 0o620, 0o602, 0o666, 0o000):
                        if not thorough and r.random() < .5:
                            continue
                        ops.append("path key %s %d %d - %s %d %d 0 %d -" % (base, force, euid, ftype, perm, uid, link))
                        ctx.dist("key_types")
    for dv in dir_variants:
        for tgid in (None, 77, 500):
            for force in (0, 1):
                for euid in (0, 1000):
                    ops.append("path key %s %d %d %s reg 384 %d 0 0 %s" % (base, force, euid, "-" if tgid is None else tgid, euid, dirs_str(dv)))
                    ctx.dist("key_dirs")
    for _ in range(6000 if thorough else 800):
        depth = r.randrange(0, 6)
        dirs = []
        for _ in range(depth):
            q = r.random()
            perm = 0o755 if q < .6 else r.choice([0o775, 0o1775, 0o757, 0o1777, 0o777, 0o770, 0o700, 0o2775]) if q < .95 else r.randrange(0o10000)
            dirs.append((perm, r.choice([0, 0, 0, 1000, 4242]), r.choice([0, 77, 500])))
        euid = r.choice([0, 1000])
        ftype = r.choice(["reg"] * 6 + ["dir", "chr", "sock", "none"])
        perm = r.choice([0o600, 0o400, 0o600, r.randrange(0o1000)])
        uid = r.choice([euid, euid, euid, 4242])
        ops.append("path key %s %d %d %s %s %d %d %d %d %s" % (base, r.randrange(2), euid, r.choice(["-", "77", "500"]), ftype, perm, uid,
                                                              r.choice([0, 77]), 1 if r.random() < .15 else 0, dirs_str(dirs)))
        ctx.dist("key_random")
    # --- seed file
    for perm in range(0o1000):
        if not thorough and perm % 3 and perm not in (0o600, 0o400, 0o640, 0o604):
            continue
        ops.append("path seed %s 0 0 - reg %d 0 0 0 %d -" % (base, perm, r.choice([0, 1, 100, 1024, 2000])))
        ctx.dist("seed_all_modes")
    for ftype in ("reg", "dir", "chr", "sock", "none"):
        for link in (0, 1):
            for uid, euid in ((0, 0), (1000, 1000), (1000, 0), (0, 1000)):
                for force in (0, 1):
                    for perm in (0o600, 0o640, 0o604, 0o666):
                        ops.append("path seed %s %d %d - %s %d %d 0 %d %d -" % (base, force, euid, ftype, perm, uid, link, r.choice([16, 1024, 1500])))
                        ctx.dist("seed_types")
    for dv in dir_variants:
        for force in (0, 1):
            for perm in (0o600, 0o644):
                ops.append("path seed %s %d 0 - reg %d 0 0 0 512 %s" % (base, force, perm, dirs_str(dv)))
                ctx.dist("seed_dirs")
    # --- the directory gate of the pid, socket and log sites
    for site in ("pid", "sock", "log"):
        for dv in dir_variants:
            for tgid in (None, 77, 500):
                for force in (0, 1):
                    for euid in ((0,) if site == "sock" else (0, 1000)):
                        ops.append("path gate %s %s %d %d %s %s" % (base, site, force, euid, "-" if tgid is None else tgid, dirs_str(dv)))
                        ctx.dist("gate_%s" % site)
        for _ in range(1500 if thorough else 150):
            depth = r.randrange(0, 6)
            dirs = []
            for _ in range(depth):
                q = r.random()
                perm = 0o755 if q < .6 else r.choice([0o775, 0o1775, 0o757, 0o1777, 0o777, 0o770, 0o700, 0o2775, 0o751]) if q < .95 else r.randrange(0o10000)
                dirs.append((perm, r.choice([0, 0, 0, 1000, 4242]), r.choice([0, 77, 500])))
            ops.append("path gate %s %s %d %d %s %s" % (base, site, r.randrange(2), 0 if site == "sock" else r.choice([0, 1000]),
                                                       r.choice(["-", "77", "500"]), dirs_str(dirs)))
            ctx.dist("gate_%s" % site)
    # --- creation sites under every inherited umask
    umasks = list(range(0o1000)) if thorough else sorted(set([0, 0o022, 0o027, 0o077, 0o002, 0o007, 0o777, 0o700, 0o200, 0o400, 0o070, 0o707] +
                                                              [r.randrange(0o1000) for _ in range(40)]))
    for site in ("sock", "lock", "pid", "log", "seed"):
        for u in umasks:
            ops.append("path mode %s %s %d" % (base, site, u))
            ctx.dist("mode_%s" % site)
    # the seed written over something planted at its path (another owner's file of any mode, a symlink)
    for perm in ([0o600, 0o666, 0o644, 0o777, 0o000, 0o4755, 0o400] + [r.randrange(0o10000) for _ in range(40 if thorough else 8)]):
        for uid in (0, 12345):
            ops.append("path seedpre %s reg %d %d %d" % (base, perm, uid, r.choice([0, 0o022, 0o077, 0o777])))
            ctx.dist("seed_preexisting")
    for u in (0, 0o022, 0o077):
        ops.append("path seedpre %s link 0 0 %d" % (base, u))
        ctx.dist("seed_preexisting")
    for perm in ([0o200, 0o600, 0o644, 0o222, 0o000, 0o300, 0o201, 0o1200, 0o4200, 0o2200] + [r.randrange(0o10000) for _ in range(60 if thorough else 20)]):
        for uid, euid in ((0, 0), (1000, 1000), (0, 1000)):
            ops.append("path lockpre %s %d %d %d %d" % (base, perm, uid, euid, r.choice([0, 0o022, 0o077, 0o777])))
            ctx.dist("lock_preexisting")
    return ops


def build_harness(ctx):
    parts = []
    for p in ("CONF", "RANDOM", "MUNGED"):
        f = os.path.join(ctx.work, "h_path_%s.c" % p.lower())
        with open(f, "w") as fh:
            fh.write('#define H_PATH_PART_%s 1\n#include "h_path.c"\n' % p)
        parts.append(f)
    return cbuild.build(ctx, "h_path", ["h_path.c"] + parts + [
        "src/munged/path.c", "src/munged/lock.c", "src/common/query.c", "src/common/xgetgr.c", "src/common/xgetpw.c",
        "src/libcommon/fd.c", "src/libcommon/str.c", "src/libmissing/strlcpy.c"],
        libs=["-Wl,--gc-sections", "-lcrypto", "-ldl"], extra=["-ffunction-sections", "-fdata-sections"])


def build_munged(ctx):
    srcs = []
    for d, skip in (("src/munged", ("_test.c",)), ("src/common", ("_test.c",)), ("src/libcommon", ("_test.c",)), ("src/libmunge", ("_test.c",))):
        for f in sorted(glob.glob(os.path.join(ctx.repo, d, "*.c"))):
            if not any(f.endswith(x) for x in skip):
                srcs.append(os.path.relpath(f, ctx.repo))
    srcs += ["src/libmissing/strlcpy.c", "src/libmissing/strlcat.c"]
    return cbuild.build(ctx, "munged_bin", srcs, libs=["-lcrypto", "-lz", "-lbz2"], sanitize=False)


def binary_layer(ctx):
    """the real munged binary in the foreground under generated trees and an umask sweep; stat what it creates"""
    exe = build_munged(ctx)
    if not exe:
        return
    root = os.path.join(ctx.work, "bin")
    problems, runs = [], 0

    def tree(name, etc_mode=0o755, key_mode=0o600, mid_mode=0o755):
        t = os.path.join(root, name)
        for d in ("mid/etc", "mid/run", "mid/lib", "mid/log"):
            os.makedirs(os.path.join(t, d))
        os.chmod(t, 0o755)
        os.chmod(os.path.join(t, "mid"), mid_mode)
        for d in ("run", "lib", "log"):
            os.chmod(os.path.join(t, "mid", d), 0o755)
        os.chmod(os.path.join(t, "mid/etc"), etc_mode)
        k = os.path.join(t, "mid/etc/key")
        with open(k, "wb") as f:
            f.write(bytes((i * 73 + 5) % 251 for i in range(128)))
        os.chmod(k, key_mode)
        return t

    def start(t, umask, extra=()):
        args = [exe, "-F", "--key-file=%s/mid/etc/key" % t, "--socket=%s/mid/run/sock" % t, "--pid-file=%s/mid/run/pid" % t,
                "--seed-file=%s/mid/lib/seed" % t, "--num-threads=1"] + list(extra)
        return subprocess.Popen(args, stdout=subprocess.PIPE, stderr=subprocess.STDOUT, preexec_fn=lambda: os.umask(umask))

    def mode(p):
        try:
            return statmod.S_IMODE(os.lstat(p).st_mode)
        except OSError:
            return None

    def wait_sock(p, t):
        for _ in range(300):
            if mode("%s/mid/run/sock" % t) is not None and mode("%s/mid/run/pid" % t) is not None:
                return True
            if p.poll() is not None:
                return False
            time.sleep(0.05)
        return False

    def stop(p):
        if p.poll() is None:
            os.kill(p.pid, signal.SIGTERM)
        try:
            out = p.communicate(timeout=10)[0]
        except subprocess.TimeoutExpired:
            os.kill(p.pid, signal.SIGKILL)
            out = p.communicate()[0]
        return out.decode("utf-8", "replace")

    for i, u in enumerate([0, 0o022, 0o077, 0o027, 0o277, 0o707, 0o777]):
        t = tree("u%d" % i)
        p = start(t, u)
        up = wait_sock(p, t)
        got = {k: mode("%s/mid/run/%s" % (t, f)) for k, f in (("sock", "sock"), ("lock", "sock.lock"), ("pid", "pid"))}
        out = stop(p)
        got["seed"] = mode("%s/mid/lib/seed" % t)
        runs += 1
        ctx.count(1)
        if not up:
            problems.append("umask %03o: munged -F did not come up: %s" % (u, out[-300:]))
            continue
        for site, m in got.items():
            lim, exact = LIMITS[site]
            if m is None:
                problems.append("umask %03o: %s file was not created" % (u, site))
            elif (exact and m != lim) or (m & ~lim):
                problems.append("umask %03o: %s has mode %04o (limit %04o%s)" % (u, site, m, lim, ", exact" if exact else ""))
    # refusals: an insecure ancestor two levels above the key, an insecure key; each accepted again with --force
    for name, kw, what in (("gw", dict(mid_mode=0o775), "group-writable ancestor of every file"),
                           ("ow", dict(etc_mode=0o757), "world-writable key directory"),
                           ("key", dict(key_mode=0o640), "group-readable key")):
        for force in (False, True):
            t = tree(name + ("f" if force else ""), **kw)
            p = start(t, 0o022, ["--force"] if force else [])
            up = wait_sock(p, t)
            out = stop(p)
            runs += 1
            ctx.count(1)
            if not force and (up or p.returncode == 0):
                problems.append("munged -F started without --force despite a %s" % what)
            if force and not up:
                problems.append("munged -F --force did not start with a %s: %s" % (what, out[-300:]))
    # the log file is only opened when daemonizing: one background run, stopped through its pid file
    t = tree("bg")
    p = subprocess.Popen([exe, "--key-file=%s/mid/etc/key" % t, "--socket=%s/mid/run/sock" % t, "--pid-file=%s/mid/run/pid" % t,
                          "--seed-file=%s/mid/lib/seed" % t, "--log-file=%s/mid/log/log" % t, "--num-threads=1"],
                         stdout=subprocess.PIPE, stderr=subprocess.STDOUT, preexec_fn=lambda: os.umask(0o002))
    out = p.communicate(timeout=20)[0].decode("utf-8", "replace")
    runs += 1
    ctx.count(1)
    try:
        pid = int(open("%s/mid/run/pid" % t).read().strip())
    except Exception:
        pid = None
    m = mode("%s/mid/log/log" % t)
    if pid is None or m is None:
        problems.append("background munged did not create pid/log files: %s" % out[-300:])
    else:
        if m & ~0o640:
            problems.append("log file has mode %04o (limit 0640)" % m)
        try:
            os.kill(pid, signal.SIGTERM)
            for _ in range(100):
                os.kill(pid, 0)
                time.sleep(0.05)
        except OSError:
            pass
    ctx.cov["streams"]["munged_binary"] = {"ops": runs, "agree": runs - len(problems)}
    ctx.dist("binary_runs", runs)
    ctx.obligation("oracle", "real munged binary: %d runs (umask sweep, insecure trees with/without --force, one daemonized run)" % runs,
                   not problems, "; ".join(problems))
    if problems:
        ctx.violation("real munged binary: " + problems[0], {"binary_layer": problems}, found_input=True)


def run(ctx):
    ctx.rule = ("ops for the real munged code under ASan/UBSan and for the Lean model: (sec) the real path_is_secure over scripted stat tables - every "
                "assignment of 9 owner/mode/group classes to every component of paths of depth <= 4 (thorough: 5) under 5 flag/trusted-group/euid "
                "configurations, plus random deeper paths with arbitrary modes, missing or non-directory ancestors, non-directory leaves, realpath failures; "
                "(key/seed) the real _conf_open_keyfile and _random_read_entropy_from_file on a real scratch file system as root - all modes 0000-0777, "
                "types reg/dir/chr/sock/missing, symlinks, owner = / != euid, with and without --force, directory chains with insecure ancestors; "
                "(mode) every creation site (socket, lock, pid, log, seed) under inherited umasks (quick: 12 fixed + 40 random, thorough: all 512) and "
                "pre-existing lock files; distinct = distinct op lines; non-trivial = all")
    ctx.assumptions += [
        "POSIX/Linux: a created file gets mode & ~umask; fopen creates with 0666 and bind with 0777 (validated on the real file system by the mode stream)",
        "the harness runs as root, so open/unlink permission failures are not exercised; EINTR retries are taken once",
        "realpath(3) returns a canonical absolute path (the scripted layer supplies it; the real layer uses the real one)",
        "python recomputation of the statement (dir_ok / ancestors / file conditions in tools/props/c16.py) is the property oracle",
    ]
    g_path.generate(ctx)
    if ctx.replay_in:
        return replay(ctx)
    leanlib.check_props(ctx, "C16")
    drv = leanlib.driver(ctx)
    h = build_harness(ctx)
    if not drv or not h:
        return
    base = os.path.join(ctx.work, "fs")
    ops_sec = gen_sec(ctx)
    ops_fs = gen_fs(ctx, base)
    for o in ops_sec + ops_fs:
        ctx.distinct(o.replace(base, "<base>"))
    for o in ops_sec[5000:5002] + ops_fs[1500:1502] + ops_fs[-200:-199] + ops_fs[-2:-1]:
        ctx.sample(o.replace(base, "<base>"))
    judge.run_and_judge(ctx, "path_is_secure", ops_sec, [h], [drv], oracle=oracle, what="path security walk")
    judge.run_and_judge(ctx, "startup_fs", ops_fs, [h], [drv], oracle=oracle, what="key/seed vetting and created-file modes")
    binary_layer(ctx)


def replay(ctx):
    rep = json.load(open(ctx.replay_in))
    drv = leanlib.driver(ctx)
    h = build_harness(ctx)
    if not drv or not h:
        return
    base = os.path.join(ctx.work, "fs")
    if rep.get("binary_layer"):
        binary_layer(ctx)
    ops = rep.get("ops") or []
    fixed = []
    for o in ops:
        w = o.split()
        if len(w) > 2 and w[1] in ("key", "seed", "mode", "seedpre", "lockpre", "fsinit", "gate"):
            w[2] = base
        fixed.append(" ".join(w))
    if any(o.split()[1] != "sec" for o in fixed if len(o.split()) > 1):
        fixed = ["path fsinit %s" % base] + fixed
    judge.run_and_judge(ctx, "replay", fixed, [h], [drv], oracle=oracle, what="C16 (replay)")
