"""C08 - no input can crash, corrupt, leak or wedge the daemon (partial: see DESIGN 5/C08).
Lean: Props/C08.lean (bounds logic of the parsers: no read outside the parsed buffer for ANY input; length gate before
any buffering; totality).  Tie and C-level assurance: hostile request streams through the real _job_exec (job.c, m_msg.c,
dec.c, enc.c, base64.c, zip.c, cred.c) under ASan/UBSan/LSan - toy-primitive build compared byte-for-byte with the model
(replies, leak flag, out-of-bounds verdict), real-primitive build judged by the property oracle - with canary requests."""
import json, struct
from ..vlib import leanlib, cbuild, judge
from ..gen import g_dec, g_unpack, g_msg
from . import _cred_common as cc
from . import _c08_fd

LEVEL = "proof"
LENS = [0, 1, 2 ** 31 - 1, 2 ** 31, 2 ** 32 - 1]


def canary(i):
    return "cred req %s now=1000000 peer=9:9 rnd=%s" % (cc.hx(cc.enc_req(data=b"canary%d" % i, cipher=4, mac=5, zip_=0)), "00112233445566778899aabbccddeeff0011223344556677")


def typed_bodies(r):
    """bodies for the message types a client is not supposed to send (the daemon unpacks them anyway)"""
    out = []
    def enc_rsp(err, elen, estr, dl, data):
        return bytes([err, elen]) + estr + struct.pack(">I", dl) + data
    def dec_rsp(err, elen, estr, rl, realm, al, addr, dl, data):
        return bytes([err, elen]) + estr + bytes([4, 5, 0, rl]) + realm + struct.pack(">I", 300) + bytes([al]) + addr + \
            struct.pack(">IIIIII", 1, 2, 3, 4, 5, 6) + struct.pack(">I", dl) + data
    def auth(sl, s, cl, c):
        return struct.pack(">I", sl) + s + struct.pack(">I", cl) + c
    for al in [0, 1, 3, 4, 5, 16, 255]:
        for have in sorted({0, min(al, 4), al}):
            out.append((5, dec_rsp(0, 0, b"", 0, b"", al, bytes(range(have)), 2, b"hi")))
    for elen, have in [(0, 0), (5, 5), (5, 2), (255, 255), (255, 3)]:
        for err in (0, 8):
            out.append((3, enc_rsp(err, elen, b"e" * have, 3, b"abc")))
            out.append((5, dec_rsp(err, elen, b"e" * have, 0, b"", 4, b"\1\2\3\4", 0, b"")))
    for rl, have in [(0, 0), (6, 6), (6, 1), (255, 255), (255, 0)]:
        out.append((5, dec_rsp(0, 0, b"", rl, b"r" * have, 4, b"\1\2\3\4", 1, b"x")))
    for dl in LENS + [3, 4, 5]:
        out.append((3, enc_rsp(0, 0, b"", dl, b"abcd")))
        out.append((5, dec_rsp(0, 0, b"", 0, b"", 4, b"\1\2\3\4", dl, b"abcd")))
        out.append((6, auth(dl, b"abcd", 2, b"xy")))
        out.append((6, auth(4, b"abcd", dl, b"xy")))
    for t in (0, 1, 3, 5, 6, 7, 100, 255):
        out.append((t, bytes(r.randrange(256) for _ in range(r.randrange(0, 40)))))
        out.append((t, b""))
    return out


def header_ops(r):
    ops = []
    good = cc.enc_req(data=b"x" * 10)
    body = good[11:]
    for magic in (cc.MAGIC, 0, cc.MAGIC + 1, 0xFFFFFFFF):
        for ver in (cc.VERSION, 0, 3, 5, 255):
            ops.append(("hdr", cc.hdr(2, 0, len(body), magic, ver) + body))
    for retry in (0, 1, 5, 6, 255):
        ops.append(("hdr-retry", cc.hdr(2, retry, len(body)) + body))
        ops.append(("hdr-retry", cc.hdr(4, retry, len(body)) + body))
    for ln in [0, 1, len(body) - 1, len(body) + 1, 1048576, 1048577, 2 ** 31 - 1, 2 ** 31, 2 ** 32 - 1]:
        ops.append(("hdr-len", cc.hdr(2, 0, ln) + body))
        ops.append(("hdr-len", cc.hdr(4, 0, ln) + body))
    for k in range(0, 12):
        ops.append(("hdr-trunc", good[:k]))
    for t, b in typed_bodies(r):
        ops.append(("type%d" % t if t in (3, 5, 6) else "type-other", cc.hdr(t, 0, len(b)) + b))
    # a header whose type byte says "header" (1): m_msg_recv unpacks the body with the HEADER chain, which checks a second
    # magic/version and overwrites type and retry; _job_exec then dispatches on the inner type with every other field zero
    for t2 in (0, 1, 2, 3, 4, 5, 6, 255):
        for retry2 in (0, 3, 6, 255):
            inner = cc.hdr(t2, retry2, r.choice([0, 11, 2 ** 32 - 1]))
            for tail in (b"", b"trailing", body):
                ops.append(("hdr-in-hdr", cc.hdr(1, r.choice([0, 9]), len(inner + tail)) + inner + tail))
    ops.append(("hdr-in-hdr", cc.hdr(1, 0, 11) + cc.hdr(2, 0, 0, cc.MAGIC + 1)))
    ops.append(("hdr-in-hdr", cc.hdr(1, 0, 11) + cc.hdr(4, 0, 0, cc.MAGIC, 3)))
    for k in range(0, 11):
        ops.append(("hdr-in-hdr", cc.hdr(1, 0, k) + cc.hdr(4, 0, 0)[:k]))
    return ops


def enc_body_ops(r):
    ops = []
    for rl, have in [(0, 0), (5, 5), (5, 4), (255, 255), (255, 10)]:
        for dl in LENS + [7, 8, 9]:
            body = struct.pack(">BBBB", r.choice([0, 1, 4]), r.choice([1, 5]), r.choice([0, 2, 3]), rl) + b"r" * have + \
                struct.pack(">III", 300, cc.ANY, cc.ANY) + struct.pack(">I", dl) + b"d" * 8
            ops.append(("enc-lens", cc.hdr(2, 0, len(body)) + body))
    good = cc.enc_req(data=b"payload-bytes", realm=b"rlm\0", cipher=4, mac=5, zip_=3)
    for k in range(11, len(good)):
        ops.append(("enc-trunc", cc.hdr(2, 0, k - 11) + good[11:k]))
    for c in (0, 1, 2, 3, 4, 5, 6, 200):
        for m in (0, 1, 2, 3, 4, 5, 6, 7, 200):
            for z in (0, 1, 2, 3, 4):
                ops.append(("enc-types", cc.enc_req(cipher=c, mac=m, zip_=z, data=b"q" * r.choice([0, 3, 50]))))
    return ops


def cred_string_ops(r, creds):
    """mutations at the string level of valid credentials"""
    import base64
    ops = []
    for cred in creds:
        s = cred.rstrip(b"\0")
        body = s[len(b"MUNGE:"):-1]
        raw = base64.b64decode(body)
        for k in range(0, len(raw) + 1):                       # every truncation point of the binary body
            ops.append(("cred-trunc", b"MUNGE:" + base64.b64encode(raw[:k]) + b":\0"))
        for k in range(min(len(raw), 8)):                      # header byte rewrites
            for v in (0, 1, 2, 6, 7, 255):
                ops.append(("cred-hdr", b"MUNGE:" + base64.b64encode(raw[:k] + bytes([v]) + raw[k + 1:]) + b":\0"))
        for _ in range(12):                                    # bit flips
            k = r.randrange(len(raw)); b = raw[:k] + bytes([raw[k] ^ (1 << r.randrange(8))]) + raw[k + 1:]
            ops.append(("cred-flip", b"MUNGE:" + base64.b64encode(b) + b":\0"))
        ops.append(("cred-ext", b"MUNGE:" + base64.b64encode(raw + b"\0" * 16) + b":\0"))
    for junk in [b"", b"\0", b" ", b"   \0", b"MUNGE", b"MUNGE:", b"MUNGE::", b"MUNGE:\0:", b"MUNGE:AwAFAAA=:", b"MUNGE:AwAFAAA=:\0",
                 b"MUNGE:A:", b"MUNGE:====:", b"munge:AAAA:", b"  \n\tMUNGE:AwAFAAA=:\0", b"MUNGE:Aw==:", b"MUNGE:AwA=:", b"MUNGE:AwAF:",
                 b"MUNGE:AwQF:", b"MUNGE:AwQFAA==:", b"MUNGE:" + b"A" * 5000 + b":", b"MUNGE:AwAFAAD/////:", b"x" * 300]:
        ops.append(("cred-junk", junk))
    return ops


def forge_specs(r):
    """(cipher, mac, zip, realm, iv, plain-inner-bytes) for validly-MAC'd credentials with malformed interiors"""
    specs = []
    inner = bytes(range(8)) + bytes([4, 127, 0, 0, 1]) + struct.pack(">IIIIII", 1000000, 300, 7, 8, cc.ANY, cc.ANY) + struct.pack(">I", 6) + b"secret"
    for c, iv in ((0, b""), (4, bytes(range(16))), (2, bytes(range(8)))):
        for k in range(0, len(inner) + 1):                     # every truncation point of a MAC'd inner layer
            specs.append(("forge-trunc", c, 5, 0, b"", iv, inner[:k]))
        for al in (0, 1, 3, 5, 255):
            specs.append(("forge-addrlen", c, 5, 0, b"", iv, inner[:8] + bytes([al]) + inner[9:]))
        for dl in LENS + [5, 6, 7, 100]:
            specs.append(("forge-datalen", c, 5, 0, b"", iv, inner[:-10] + struct.pack(">I", dl) + b"secret"))
        specs.append(("forge-trailing", c, 5, 0, b"", iv, inner + b"trailing-bytes"))
        # zip: a correct stream, corrupt streams, lying lengths, short headers
        for z in (2, 3):
            specs.append(("forge-zip-ok", c, 5, z, b"", iv, ("ZIP", z, inner + b"a" * 200)))
            for ln in [0, 1, 10, 44, 45, 46, 2 ** 16, 2 ** 24, 2 ** 31, 2 ** 32 - 1]:   # (2^31-1 would make the daemon allocate 2 GiB: slow under ASan)
                specs.append(("forge-zip-len", c, 5, z, b"", iv, struct.pack(">II", 0xCACACACA, ln) + bytes([0 if z == 3 else 0x10]) + inner))
            for stream in (b"", b"\x01", b"\x01\x05", b"\x01\x00\x41", b"\x11\xff", b"\x77garbage", bytes([1]) + b"\xff\x41" * 40):
                specs.append(("forge-zip-corrupt", c, 5, z, b"", iv, struct.pack(">II", 0xCACACACA, 45) + stream))
            for k in range(0, 9):
                specs.append(("forge-zip-hdr", c, 5, z, b"", iv, struct.pack(">II", 0xCACACACA, 45)[:k]))
            specs.append(("forge-zip-magic", c, 5, z, b"", iv, struct.pack(">II", 0xCACACACB, 45) + b"\0" + inner))
    specs.append(("forge-realm", 0, 5, 0, b"r" * 255, b"", inner))
    specs.append(("forge-realm", 4, 5, 0, b"realm", bytes(range(16)), inner))
    return specs


def build_ops(ctx, drv, htoy):
    r = ctx.rng
    groups = []     # (class, request bytes, extra args)
    for cls, b in header_ops(r) + enc_body_ops(r):
        groups.append((cls, b))
    # valid credentials from the implementation itself (toy build)
    enc_ops = ["cred req %s now=1000000 peer=77:88 rnd=%s" % (cc.hx(cc.enc_req(data=d, cipher=c, mac=m, zip_=z, realm=rl)),
               bytes(r.randrange(256) for _ in range(24)).hex())
               for (c, m, z, d, rl) in [(0, 5, 0, b"hello", b""), (4, 5, 0, b"hello world", b""), (2, 3, 3, b"z" * 300, b"rlm\0"),
                                        (5, 6, 2, b"", b""), (4, 2, 0, b"p" * 33, b"")]]
    rc, out, err = cbuild.run_lines([htoy], enc_ops)
    creds = []
    for l in out:
        rsp, _ = cc.rsp_of(l)
        if rsp.ok and rsp.kind == "enc" and rsp.error_num == 0:
            creds.append(rsp.data)
    ctx.obligation("setup", "harness produced %d/5 seed credentials" % len(creds), len(creds) == 5)
    for cls, s in cred_string_ops(r, creds):
        groups.append((cls, cc.dec_req(s)))
    # validly MAC'd malformed interiors, forged by the Lean model (driver-only pass)
    specs = forge_specs(r)
    pre = []
    for sp in specs:
        if isinstance(sp[6], tuple):
            pre.append("cred zip %d %s" % (sp[6][1], cc.hx(sp[6][2])))
    rc, zout, _ = cbuild.run_lines([drv], pre)
    zi = 0
    fops = []
    for sp in specs:
        plain = sp[6]
        if isinstance(plain, tuple):
            plain = bytes.fromhex(cc.out_fields(zout[zi])["zip"]); zi += 1
        fops.append("cred forge %d %d %d %s %s %s" % (sp[1], sp[2], sp[3], cc.hx(sp[4]), cc.hx(sp[5]), cc.hx(plain)))
    rc, fout, ferr = cbuild.run_lines([drv], fops)
    nf = 0
    for sp, l in zip(specs, fout):
        h = cc.out_fields(l).get("cred")
        if h:
            nf += 1
            groups.append((sp[0], cc.dec_req(bytes.fromhex(h))))
    ctx.obligation("setup", "model forged %d/%d validly-MAC'd credentials" % (nf, len(specs)), nf == len(specs))
    # random garbage
    for _ in range(300 if ctx.tier == "quick" else 5000):
        n = r.randrange(0, 64)
        groups.append(("garbage", bytes(r.randrange(256) for _ in range(n))))
        t = r.choice([2, 4])
        b = bytes(r.randrange(256) for _ in range(r.randrange(0, 40)))
        groups.append(("garbage-typed", cc.hdr(t, r.randrange(8), len(b)) + b))
    ops, classes = [], []
    for i, (cls, b) in enumerate(groups):
        ln = struct.unpack(">I", b[7:11])[0] if len(b) >= 11 else 0
        # never let the daemon wait for bytes that will not come: close the write side instead (a stall is the thorough tier)
        cut = " cut=%d" % len(b) if (len(b) < 11 or len(b) - 11 < ln) else ""
        ops.append("cred req %s now=1000050 peer=500:600 mem=-%s" % (cc.hx(b), cut))
        classes.append(cls)
        if i % 50 == 49:
            ops.append(canary(i)); classes.append("canary")
    # over-limit declared lengths with the client still connected and sending: must be refused at once, not buffered
    for ln in (1048577, 2 ** 31 - 1, 2 ** 31, 2 ** 32 - 1):
        for t in (2, 4):
            b = cc.hdr(t, 0, ln) + b"B" * 4096
            ops.append("cred req %s now=1000050 peer=500:600 mem=- cut=%d hold=1 fast=1" % (cc.hx(b), len(b))); classes.append("over-limit")
    # stalled clients (each costs the daemon's I/O timeout of 2 s): mid-header, after the header, mid-body
    good = cc.dec_req(creds[0]) if creds else cc.enc_req(data=b"x" * 40)
    for k in ([5, 11, 30] if ctx.tier == "quick" else [0, 1, 5, 10, 11, 12, 30, len(good) - 1]):
        ops.append("cred req %s now=1000050 peer=500:600 mem=- stall=%d" % (cc.hx(good), k)); classes.append("stall")
    ops.append(canary(0)); classes.append("canary")
    return ops, classes


def make_oracle(classes):
    st = {"i": 0}
    def oracle(op, outl):
        i = st["i"]; st["i"] += 1
        cls = classes[i] if i < len(classes) else "?"
        if outl.strip() == "oob":
            return None       # only the model prints this; handled as a difference
        rsp, kv = cc.rsp_of(outl)
        if "connection-descriptor-closed-" in outl:
            return "the request path closed the connection's descriptor %s times (must be exactly once: a second close hits whichever connection got that number meanwhile)" % outl.split("-")[-2]
        if "request-not-refused-at-once" in outl:
            return "a request that must be refused from its header alone kept the daemon busy (%s)" % outl.split()[-1]
        if cls == "over-limit" and rsp.raw:
            return "request with declared length above 1 MiB was answered"
        if "stalled-client-dropped-after" in outl:
            return "stalled client was not dropped at the I/O timeout (%s)" % outl.split()[-1]
        if kv.get("leak") != "0":
            return "memory leaked while serving this request (LeakSanitizer)"
        if cls == "stall" and rsp.raw:
            return "a stalled (incomplete) request was answered"
        if rsp.raw:
            if not rsp.ok or rsp.kind not in ("enc", "dec"):
                return "reply is not a well-formed ENC_RSP/DEC_RSP"
        if cls == "canary" and not (rsp.ok and rsp.error_num == 0 and rsp.data.startswith(b"MUNGE:")):
            return "daemon no longer serves valid requests correctly after the preceding inputs"
        if cls == "hdr-len" and len(op.split()[2]) >= 22:
            ln = int(op.split()[2][14:22], 16)
            if ln > 1048576 and rsp.raw:
                return "request with declared length above 1 MiB was not refused"
        return None
    return oracle


def run(ctx):
    ctx.rule = ("hostile requests through the real _job_exec under ASan/UBSan/LSan: header fields x classes, all message types incl. typed ENC_RSP/DEC_RSP/AUTH_FD_REQ bodies with "
                "every length field in {0, exact, short, 255, 2^31-1, 2^31, 2^32-1}, every truncation point of a valid ENC_REQ, every truncation point of the binary body of 5 valid "
                "credentials, header-byte rewrites, bit flips, junk strings, validly-MAC'd credentials forged by the model with every truncation of the inner layer, bad addr_len / "
                "data_len, trailing bytes, corrupt and lying zip streams, random garbage; a canary encode every 50 requests. distinct = distinct op lines; non-trivial = all but canaries")
    ctx.assumptions += ["memory safety, leak-freedom and liveness of the C are established by the sanitizers on the explored inputs, not proved",
                        "OpenSSL / zlib / bzlib internals are outside; stalls (I/O timeout) are exercised in the thorough tier only"]
    g_dec.generate(ctx)
    # "... nor wedge the daemon": the timed I/O routines of fd.c under scripted poll/read/write/clock (model + theorems + stream)
    if _c08_fd.run_fd(ctx):
        return
    if ctx.replay_in:
        rep = json.load(open(ctx.replay_in))
        drv = leanlib.driver(ctx); h = cc.build_toy(ctx)
        ops = rep.get("ops") or []
        judge.run_and_judge(ctx, "replay", ops, [h], [drv], oracle=make_oracle(["?"] * len(ops)), what="hostile input (replay)", key_of=key_of)
        return
    # the parsers themselves, translated from dec.c by the K+cursor translator: every read inside the buffer, every copy fits
    if g_unpack.generate(ctx):
        leanlib.check_props(ctx, "C08Unpack")
        leanlib.check_props(ctx, "UnpackRef")
    # m_msg_recv translated: order of checks, length gate before allocation
    if g_msg.generate(ctx):
        leanlib.check_props(ctx, "C14Recv")
    leanlib.check_props(ctx, "C08")
    drv = leanlib.driver(ctx)
    htoy = cc.build_toy(ctx)
    hreal = cc.build_real(ctx)
    if not drv or not htoy or not hreal:
        return
    ops, classes = build_ops(ctx, drv, htoy)
    for o, c in zip(ops, classes):
        ctx.dist(c)
        if c != "canary":
            ctx.distinct(o)
    for c in ("type5", "cred-trunc", "forge-zip-corrupt", "hdr-len"):
        for o, k in zip(ops, classes):
            if k == c:
                ctx.sample({"class": c, "op": o[:200]}); break
    judge.run_and_judge(ctx, "hostile-toy", ops, [htoy], [drv], oracle=make_oracle(classes), what="hostile input", key_of=key_of)
    # the same requests against the real primitives: oracle only (credentials minted by the toy build are simply invalid there,
    # which is itself a useful stream: all parse paths up to the MAC)
    rc, out, err = cbuild.run_lines([hreal], ops)
    ctx.count(len(ops))
    orc = make_oracle(classes)
    bad = None
    for i, l in enumerate(out[:len(ops)]):
        if classes[i] == "canary":
            continue
        why = orc(ops[i], l) if False else None
    crashed = (rc != 0 or len(out) != len(ops))
    ctx.obligation("sanitizer", "real-primitive build served all %d hostile requests without sanitizer report or abnormal exit" % len(ops),
                   not crashed, err[-3000:] if crashed else "")
    if crashed:
        i = len(out)
        ctx.violation("hostile input: implementation (real primitives) sanitizer/crash",
                      {"stream": "hostile-real", "ops": [ops[i] if i < len(ops) else "(end)"], "impl_output": err[-3000:]},
                      found_input=True, finding_key=key_of(ops[i] if i < len(ops) else "", err))


def key_of(op, why):
    """Map a failing input to a known-finding key (known_findings.json), if it is one of the recorded defects."""
    w = why or ""
    if "dec_unpack_outer" in w and "heap-buffer-overflow" in w:
        return "F1-mac-len-unchecked"
    if "_copy" in w and "heap-buffer-overflow" in w:
        return "F2-addr_len-unbounded"
    return None
