"""The daemon's option processing (src/munged/conf.c: create_conf, parse_cmdline, process_conf) is the glue between the
command line and the `conf` fields that the translated kernels take as inputs (conf->max_ttl, def_ttl, got_root_auth,
got_clock_skew, got_socket_retry, ...).  The theorems quantify over those fields; this check ties the fields to the options:
harness/h_conf.c runs the REAL three functions on an argv and prints the fields.  Oracle written from munged(8) and the
property statements.  The binary runs twice, with fresh heap memory filled with 0x00 and with 0xff: any difference is a
field that create_conf() leaves unset.

`--max-ttl` is checked for EVERY value 1..3600 (the whole range the property quantifies over) and for malformed / out of
range values.  Support for the proof (it is a test of the glue, exhaustive only over that one option's range)."""
import os, re
from ..vlib import cbuild

SRC = ["h_conf.c", "src/libcommon/str.c", "src/munged/zip.c", "src/libcommon/license.c", "src/libcommon/version.c",
       "src/munged/path.c", "src/libmissing/strlcpy.c", "src/munged/clock.c", "src/munged/lock.c", "src/common/query.c",
       "src/common/xgetgr.c", "src/common/xgetpw.c", "src/libcommon/fd.c"]


def _define(repo, name, default):
    try:
        s = open(os.path.join(repo, "src/libcommon/munge_defs.h")).read()
        m = re.search(r"^#\s*define\s+%s\s+(\S+)" % name, s, re.M)
        return int(m.group(1), 0) if m else default
    except Exception:
        return default


def fields(line):
    return dict(x.split("=", 1) for x in line.split()[1:] if "=" in x) if line.startswith("ok") else None


def run(ctx, prop_what, focus):
    """focus: names of the printed fields this property is about (a wrong value of another field is reported by the property
    that owns it; a difference between the two fill runs is reported by every caller)."""
    exe = cbuild.build(ctx, "h_conf", SRC, libs=["-Wl,--gc-sections", "-lz", "-lbz2"], extra=["-ffunction-sections", "-fdata-sections"])
    if not exe:
        return
    r = ctx.rng
    rootflag = 1 if _define(ctx.repo, "MUNGE_AUTH_ROOT_ALLOW_FLAG", 0) else 0
    retryflag = 1 if _define(ctx.repo, "MUNGE_SOCKET_RETRY_FLAG", 1) else 0
    ops, want = [], []
    noise = ["--benchmark", "-f", "--force", "--num-threads=3", "--group-update-time=60", "--group-check-mtime=0", "-F", "--syslog",
             "-M", "--listen-backlog=5", "-v", "--origin=10.0.0.1"]

    def add(args, exp):
        ops.append("conf argv " + " ".join(args) if args else "conf argv"); want.append(exp)
    add([], {"max_ttl": 3600})
    for n in range(1, 3601):                                            # the whole range of the option
        form = n % 3
        a = ["--max-ttl=%d" % n] if form == 0 else ["--max-ttl", "%d" % n] if form == 1 else ["--max-ttl=%04d" % n]
        pre = [x for x in noise if r.random() < .15]
        post = [x for x in noise if r.random() < .15]
        add(pre + a + post, {"max_ttl": n, "bench": int("--benchmark" in pre + post), "force": int(bool({"-f", "--force"} & set(pre + post)))})
    for n in (1, 299, 300, 301, 3600):                                  # repeated: the last one wins
        add(["--max-ttl=%d" % r.randrange(1, 3601), "--max-ttl=%d" % n], {"max_ttl": n})
    for bad in ["0", "-1", "3601", "4294967296", "4294967297", "9223372036854775807", "99999999999999999999", "", "x", "1x", "300.0", "0x10", " ", "-0"]:
        if bad in ("", " "):
            continue
        add(["--max-ttl=%s" % bad], "fatal" if bad != "-0" else "fatal")
    add(["--max-ttl"], "fatal")
    add(["--no-such-option"], "fatal")
    add(["stray"], "fatal")
    for x in noise:
        add([x], {"max_ttl": 3600})
    outs = []
    for fill in ("0", "255"):
        rc, out, err = cbuild.run_lines([exe], ops, env={"ASAN_OPTIONS": "detect_leaks=1:exitcode=99:malloc_fill_byte=%s:max_malloc_fill_size=1048576" % fill})
        outs.append((rc, out, err))
    ctx.count(2 * len(ops))
    for o in ops:
        ctx.distinct(o)
    ctx.dist("conf_argv", len(ops))
    ctx.sample({"stream": "conf-options", "op": ops[1234]})
    bad = None
    crashed = any(rc != 0 or len(out) != len(ops) for rc, out, _ in outs)
    if not crashed:
        for i, (op, exp) in enumerate(zip(ops, want)):
            a, b = outs[0][1][i], outs[1][1][i]
            if a != b:
                fa, fb = fields(a) or {}, fields(b) or {}
                diff = [k for k in fa if fa.get(k) != fb.get(k)] or ["verdict"]
                bad = (i, "conf field(s) %s depend on what the allocator left in memory (unset by create_conf): %s vs %s" % (
                    ",".join(diff), ",".join(fa.get(k, "?") for k in diff), ",".join(fb.get(k, "?") for k in diff)), a + " || " + b)
                break
            f = fields(a)
            if exp == "fatal":
                if f is not None and "max_ttl" in focus:
                    bad = (i, "an invalid --max-ttl / command line was accepted", a); break
                continue
            if f is None:
                bad = (i, "a valid command line was refused", a); break
            full = {"def_ttl": 300, "rootauth": rootflag, "skew": 1, "retry": retryflag, "bench": 0}
            full.update(exp)
            for k, v in full.items():
                if k in focus and int(f[k]) != v:
                    bad = (i, "conf->%s is %s after this command line, expected %d" % (k, f[k], v), a); break
            if bad:
                break
    ctx.obligation("oracle", "option processing (real create_conf/parse_cmdline/process_conf): %d command lines incl. every --max-ttl in 1..3600, x2 heap fills; fields %s"
                   % (len(ops), ",".join(sorted(focus))), bad is None and not crashed,
                   (bad[1] if bad else "") + ("\n".join(e[-1200:] for _, _, e in outs) if crashed else ""))
    if bad or crashed:
        i = bad[0] if bad else min(len(o) for _, o, _ in outs)
        ctx.violation("%s: %s" % (prop_what, bad[1] if bad else "option processing crashed / sanitizer report"),
                      {"stream": "conf-options", "harness": "h_conf", "ops": [ops[i] if i < len(ops) else "(end)"],
                       "impl_output": bad[2] if bad else "\n".join(e[-1500:] for _, _, e in outs)}, found_input=True)
