#!/usr/bin/env python3
"""Aggregate gcov data left in .work/*/obj_* by a VERIF_COV=1 run: per munge source file, lines executed by at least one
harness, and functions never entered.  Writes COVERAGE.md."""
import glob, gzip, json, os, subprocess, sys, collections
V = os.path.dirname(os.path.dirname(os.path.abspath(__file__)))
REPO = os.path.abspath(os.environ.get("MUNGE_REPO", "/repo"))
lines = collections.defaultdict(dict)       # file -> line -> max count
funcs = collections.defaultdict(dict)       # file -> function -> max count
for d in glob.glob(os.path.join(V, ".work", "*", "obj_*")):
    gcda = glob.glob(os.path.join(d, "*.gcda"))
    if not gcda:
        continue
    out = subprocess.run(["gcov", "--json-format", "--stdout"] + gcda, cwd=d, stdout=subprocess.PIPE, stderr=subprocess.DEVNULL).stdout
    for doc in out.decode("utf-8", "replace").split("\n"):
        doc = doc.strip()
        if not doc.startswith("{"):
            continue
        try:
            j = json.loads(doc)
        except Exception:
            continue
        for f in j.get("files", []):
            fn = os.path.normpath(os.path.join(d, f["file"])) if not os.path.isabs(f["file"]) else os.path.normpath(f["file"])
            if not fn.startswith(REPO + "/src/"):
                continue
            rel = fn[len(REPO) + 1:]
            for l in f.get("lines", []):
                lines[rel][l["line_number"]] = max(lines[rel].get(l["line_number"], 0), l["count"])
            for fu in f.get("functions", []):
                funcs[rel][fu["name"]] = max(funcs[rel].get(fu["name"], 0), fu["execution_count"])
out = ["# Which lines of munge the quick-tier correspondence streams execute (tools/coverage.sh; diagnostic, regenerate at will)\n",
       "Only files compiled into at least one harness appear.  A function that is never entered is outside the *dynamic* tie; it may",
       "still be covered by translation (the generator reads it) - see DESIGN 2.2 / 9.1.\n",
       "| file | lines executed / executable | functions never entered |", "|---|---|---|"]
tot_e = tot_x = 0
for rel in sorted(lines):
    ex = sum(1 for c in lines[rel].values() if c > 0); al = len(lines[rel])
    tot_e += ex; tot_x += al
    never = sorted(n for n, c in funcs[rel].items() if c == 0)
    out.append("| %s | %d / %d (%d%%) | %s |" % (rel, ex, al, 100 * ex // max(al, 1), ", ".join(never) or "-"))
out.append("\nTotal: %d / %d executable lines (%d%%) of the files listed." % (tot_e, tot_x, 100 * tot_e // max(tot_x, 1)))
allsrc = [os.path.relpath(p, REPO) for p in glob.glob(os.path.join(REPO, "src", "*", "*.c")) if not p.endswith("_test.c")]
missing = sorted(s for s in allsrc if s not in lines)
out.append("\nSource files compiled into no harness: " + (", ".join(missing) or "none"))
open(os.path.join(V, "COVERAGE.md"), "w").write("\n".join(out) + "\n")
print("\n".join(out[-3:]))
# uncovered lines with their text, for reading (not committed)
with open(os.path.join(V, ".work", "cov", "uncovered.txt"), "w") as f:
    for rel in sorted(lines):
        try:
            src = open(os.path.join(REPO, rel), errors="replace").read().split("\n")
        except OSError:
            continue
        un = sorted(l for l, c in lines[rel].items() if c == 0)
        if un:
            f.write("== %s\n" % rel)
            for l in un:
                f.write("%5d  %s\n" % (l, src[l - 1] if l - 1 < len(src) else ""))
