#!/usr/bin/env python3
"""Round 3: writes seeded/Cxx-r3m1/meta.json from the confirmation logs (.work/r3confirm*.log) and the table below (what
tools/seedcheck.sh reported; recorded by hand) and prints the DESIGN.md table rows."""
import json, os, re, sys
V = os.path.dirname(os.path.dirname(os.path.abspath(__file__)))
R3 = {
 "C01": ("GID restriction compared with the encoder's GID (`cred_gid`) instead of the decoder's in `dec_validate_auth()`",
         "a GID-restricted credential whose encoder is not in that group, decoded by a client whose primary group it is",
         [("C01", True), ("C04", True)], ""),
 "C02": ("`crypto_memcmp()` word-at-a-time with a 32-bit accumulator: MAC bytes 4-7, 12-15, ... never compared",
         "unencrypted credential, alteration confined to the upper half of an 8-byte word of the MAC",
         [("C02", True)], ""),
 "C03": ("de-duplication refactoring: one `auth_recv_client()` that tests the retry limit before asking the kernel and returns positive codes the callers test with `< 0`",
         "a raw ENC_REQ whose header retry byte is 6..255 (libmunge never sends one)",
         [("C03", True), ("C13", False), ("C04", False)],
         "first reported WITHOUT an input by all three (the refactoring removes the static functions the harness' kernel-call table names: nothing built); "
         "h_cred now falls back to a build without that table (HC_NO_KERN), C03 sends every class of the client-controlled retry byte and demands that a refused encode carries no credential - reported with the request and the uid 0 / gid 0 credential"),
 "C04": ("user-name -> UID cache of the group-map builder kept for the life of the daemon (only negative entries purged)",
         "group map enabled, a member's name gets a different UID while munged runs, then a refresh",
         [("C17", True), ("C04", False)], "lives in gids.c: C17's refresh streams (databases that change between loads) give the failing (uid, gid) query; C04 reports the correspondence break of its real-gids_is_member stream without an input"),
 "C05": ("`replay_cmp_f()` fast path returns an unsigned difference as int (non-transitive order)",
         ">= 3 live entries in one replay bucket with leading MAC words spread round the 32-bit circle, one presented again",
         [("C05", True), ("C07", True)], "reported at the comparator: the translation-validation lattice contains MAC pairs >= 2^31 apart"),
 "C06": ("last two decode stages swapped: replay recorded before the time check",
         "two presentations of one credential, an earlier one outside the window",
         [("C06", True), ("C05", True), ("C07", True)],
         "first MISSED by C06 (its end-to-end stream cleared the replay cache before every decode; stage order was only in C04/C05's theorems): theorem "
         "C06.out_of_window_is_not_recorded on the translated dec_process_msg, and presentation histories with the cache kept (early, early, late, inside, late, ...)"),
 "C07": ("`hash_delete_if()` single pass that reverses the surviving chain (lookups stop at the first greater node)",
         "two live records in one bucket, an odd number of purge ticks, the smaller one presented again",
         [("C07", True), ("C05", True)], ""),
 "C08": ("short-write resume in `fd_timed_write_iov()` advances the only handle on the malloc'd iovec copy: `free()` of an interior pointer",
         "a reply larger than the socket send buffer (payload > ~150 kB)",
         [("C08", True), ("C01", True)], ""),
 "C09": ("`dec_validate_auth()` rewritten without goto; the UNAUTHORIZED text is formatted with the credential's uid/gid instead of the client's",
         "restricted credential decoded by an unauthorised client other than its encoder",
         [("C09", True), ("C04", False)],
         "first reported without an input (text differs from the model; the oracle only checked the error-only FORM): C09 now presents two restricted credentials "
         "of different encoders to unauthorised clients - the replies must be byte-identical and name neither encoder"),
 "C10": ("a failing compression back end no longer fails the encode: falls back to uncompressed WITHOUT patching the zip byte of the packed outer header",
         "zlib / bzlib requested and the back end fails (out of memory)",
         [("C10", True), ("C09", True)],
         "first MISSED by C10 and C01 (no primitive ever failed in their streams; C09's primitive-failure stream reported it): C10 now makes each primitive call of 5 "
         "encodes fail in turn and requires whatever IS emitted to be structurally v3 and to decode"),
 "C11": ("group map detached and destroyed BEFORE the new one is built (no map during a rebuild)",
         "a GID-restricted decode by a supplementary member while a refresh is rebuilding the map",
         [("C17", True), ("C11", True)],
         "first MISSED by C11 (its request harness stubs gids_is_member; the refresh clause was an assumption): C11 now runs lookups from inside a running refresh "
         "of the real gids.c (C17's harness); while verifying, two defects of the harness itself surfaced in the TSan tier and were repaired (shared fault counter in toy_prims.c; purger thread starving the request threads)"),
 "C12": ("`WORK_IS_IDLE` macro clean-up drops `|| work_head != NULL` from the wait loops of `work_wait()` / `work_fini()`",
         "stop while items are queued but no worker has dequeued yet",
         [("C12", True)], ""),
 "C13": ("`m_msg_send()` caches header+body in one buffer: a retried request goes out with the first attempt's retry byte (0)",
         "a decode whose reply is lost after the daemon sent it, then the client's retry",
         [("C13", True), ("C14", False)], ""),
 "C14": ("`_alloc (uint32_t len)`: `malloc (len + 1)` wraps for 0xFFFFFFFF and the NUL is stored 4 GiB away",
         "a 32-bit length field of 0xFFFFFFFF in any received body",
         [("C14", True), ("C08", True)], ""),
 "C15": ("`sock_create()` length check relaxed from `>=` to `>`: a 108-byte socket name is silently truncated by strlcpy",
         "--socket pathname of exactly sizeof (sun_path) bytes",
         [("C15", True)],
         "first MISSED (every scenario used one short path): C15 now starts daemons on socket names of 106..109 bytes - refused leaving nothing behind, or served on the configured name through SIGKILL, restart and clean stop"),
 "C16": ("three directory checks folded into one helper that remembers the last directory that passed - keyed on the name, not on the flags it passed under",
         "daemon mode, log file and socket in one group-writable directory",
         [("C16", True)], ""),
 "C17": ("`gids_is_member()` holds the mutex only to snapshot the map pointer; `_gids_map_update()` destroys the old map after the swap",
         "a refresh completing between a lookup's snapshot and its list walk",
         [("C17", True), ("C11", True)],
         "first reported at theorem level only (the generated lock certificate of gids_is_member, C17.atomicity_certificates): the harness now has a forced schedule - "
         "the lookup runs on a second thread and is parked inside hash_find (linker --wrap) while a whole refresh runs; on the changed tree the resumed lookup walks the destroyed map (ASan)"),
 "C18": ("`timer_set_relative()` with msec <= 0 stores the epoch as expiry instead of 'now'",
         "an overdue timer still on the active list when a zero-offset timer is set (slow callback, SIGHUP)",
         [("C18", True)],
         "first reported without an input (stored expiry differs from the model): the harness got a callback kind during which the clock moves on and which then sets a "
         "zero-offset timer, and the order oracle now also covers timers set from callbacks"),
 "C19": ("`base64_encode_update()` carry-over recomputed as the tail of `src`: with 1 byte carried and a 1-byte chunk it copies `src[-1]`",
         "a 1-byte update while 1 byte is carried, chunks in separate buffers",
         [("C19", True)], "ASan (exact-size buffers): the read before the chunk"),
 "C20": ("mungekey: `if (rv < sizeof (key))` on an int - a failing entropy read (-1) is converted to SIZE_MAX and passes",
         "getrandom() and /dev/urandom both unavailable",
         [("C20", True)],
         "first MISSED (the harness' entropy source never failed): `_create_key_secret` is now translated (Gen/Key.lean; theorems no_entropy_no_key, "
         "failing_step_no_key, success_means_every_step break on the signed/unsigned comparison) and the create_key stream makes the entropy / salt read fail"),
}
confirm = {}
for f in (".work/r3confirm1.log", ".work/r3confirm2.log"):
    p = os.path.join(V, f)
    if os.path.exists(p):
        for l in open(p):
            m = re.match(r"/verif/seeded/(C\d\d)-r3m1: (suite .*)", l)
            if m:
                confirm[m.group(1)] = m.group(2).strip()
rows = []
for k, (what, needs, caught, note) in sorted(R3.items()):
    d = os.path.join(V, "seeded", k + "-r3m1")
    meta = {"property_broken": k, "origin": "independent sub-agent given only the property text, the one-line descriptions of the earlier changes for it, and a scratch worktree",
            "summary": what, "needs_to_manifest": needs + " (details: README.md)", "round": 3,
            "confirmed_by_me": confirm.get(k, "?"),
            "what_i_ran": ["tools/seedconfirm.sh <dir>  (scratch worktree: demo on clean tree, git apply, make, make check, demo with the change)",
                           "tools/seedcheck.sh <Cxx> <dir> [other checks]  (scratch worktree with the change, MUNGE_REPO=<worktree> ./check Cxx)"],
            "caught_by": [{"check": c, "failing_input_found": fi} for c, fi in caught], "note": note}
    if os.path.isdir(d):
        json.dump(meta, open(os.path.join(d, "meta.json"), "w"), indent=1)
    cb = ", ".join("%s %s" % (c, "input" if fi else "thm") for c, fi in caught)
    rows.append("| %s-r3m1 | %s | %s%s |" % (k, what.replace("|", "\\|"), cb, (" — " + note.replace("|", "\\|")) if note else ""))
print("\n".join(rows))
