"""Lean side: lake build under a global lock, theorem listing, axiom audit,
forbidden-token scan, driver binary."""
import os, re, json
from .core import VERIF, LEAN, GlobalLock, sh, write_if_changed

ALLOWED_AXIOMS = {"propext", "Classical.choice", "Quot.sound"}
FORBIDDEN = [r"\bsorry\b", r"\badmit\b", r"^\s*axiom\s", r"\bnative_decide\b", r"\bbv_decide\b",
             r"\bimplemented_by\b", r"\bunsafe\s", r"maxHeartbeats\s+0\b", r"\bextern\b"]


def strip_comments(src):
    # remove /- ... -/ (nested) and -- line comments
    out = []
    i, depth, n = 0, 0, len(src)
    while i < n:
        if src.startswith("/-", i):
            depth += 1; i += 2; continue
        if depth and src.startswith("-/", i):
            depth -= 1; i += 2; continue
        if depth:
            if src[i] == "\n":
                out.append("\n")
            i += 1; continue
        if src.startswith("--", i):
            while i < n and src[i] != "\n":
                i += 1
            continue
        if src[i] == '"':
            j = i + 1
            while j < n and src[j] != '"':
                j += 2 if src[j] == "\\" else 1
            out.append('""'); i = j + 1; continue
        out.append(src[i]); i += 1
    return "".join(out)


def lake_build(ctx, targets, timeout=3000):
    with GlobalLock("lean"):
        rc, out = sh(["lake", "build"] + list(targets), cwd=LEAN, timeout=timeout)
    return rc == 0, out


def lean_errors(out):
    """Extract (file, line, message) triples from lake/lean output."""
    errs = []
    for m in re.finditer(r"^error: ([^\s:]+\.lean):(\d+):(\d+): (.*)$", out, re.M):
        errs.append((m.group(1), int(m.group(2)), m.group(4)))
    return errs


def theorems_of(path):
    """Names (with namespace) of the theorems declared in a Props file, with line numbers."""
    src = open(path).read()
    ns = []
    res = []
    for ln, line in enumerate(src.split("\n"), 1):
        m = re.match(r"^namespace\s+(\S+)", line)
        if m:
            ns.append(m.group(1)); continue
        m = re.match(r"^end\s+(\S+)", line)
        if m and ns and ns[-1].split(".")[-1] == m.group(1).split(".")[-1]:
            ns.pop(); continue
        m = re.match(r"^(?:@\[[^\]]*\]\s*)?(?:private\s+|protected\s+)?theorem\s+(\S+)", line)
        if m:
            res.append((".".join(ns + [m.group(1)]), ln))
    return res


def theorem_at(thms, line):
    cur = None
    for name, ln in thms:
        if ln <= line:
            cur = name
    return cur


def props_path(prop):
    return os.path.join(LEAN, "Munge", "Props", "%s.lean" % prop)


def module_files(prop):
    """Transitive closure of local imports of Props/<prop>.lean (paths)."""
    seen, todo = [], [props_path(prop)]
    while todo:
        p = todo.pop()
        if p in seen or not os.path.exists(p):
            continue
        seen.append(p)
        for m in re.finditer(r"^import\s+(Munge\.\S+|Driver\.\S+)", open(p).read(), re.M):
            todo.append(os.path.join(LEAN, m.group(1).replace(".", "/") + ".lean"))
    return seen


def check_props(ctx, prop, extra_targets=()):
    """Build the property's theorem module, one obligation per theorem, then the
    axiom audit and forbidden-token scan.  Returns list of failed theorem names."""
    ppath = props_path(prop)
    thms = theorems_of(ppath)
    ok, out = lake_build(ctx, ["Munge.Props.%s" % prop] + list(extra_targets))
    failed = {}
    if not ok:
        errs = lean_errors(out)
        for f, ln, msg in errs:
            if os.path.abspath(os.path.join(LEAN, f)) == os.path.abspath(ppath) or f.endswith("Props/%s.lean" % prop):
                t = theorem_at(thms, ln) or "(file)"
                failed.setdefault(t, "%s:%d: %s" % (f, ln, msg))
            else:
                failed.setdefault("(dependency %s)" % f, "%s:%d: %s" % (f, ln, msg))
        if not failed:
            failed["(build)"] = out[-1500:]
    for name, ln in thms:
        if name in failed:
            ctx.obligation("theorem", name, False, failed[name])
        elif any(k.startswith("(") for k in failed):
            # a dependency failed: nothing in this module was checked
            ctx.obligation("theorem", name, False, "not checked: " + "; ".join(v for k, v in failed.items() if k.startswith("(")))
        else:
            ctx.obligation("theorem", name, True)
    for k, v in failed.items():
        if k.startswith("("):
            ctx.obligation("theorem", k, False, v)
    # forbidden tokens
    bad = []
    for p in module_files(prop):
        src = strip_comments(open(p).read())
        for pat in FORBIDDEN:
            for m in re.finditer(pat, src, re.M):
                bad.append("%s: %s" % (os.path.relpath(p, LEAN), m.group(0).strip()))
    ctx.obligation("audit", "no sorry/admit/axiom/native_decide/bv_decide/implemented_by/unsafe in %d files" % len(module_files(prop)),
                   not bad, "; ".join(bad))
    # axioms
    if ok and thms:
        tmp = os.path.join(ctx.work, "Axioms_%s.lean" % prop)
        with open(tmp, "w") as f:
            f.write("import Munge.Props.%s\n" % prop)
            for name, _ in thms:
                f.write("#print axioms %s\n" % name)
        rc, aout = sh(["lake", "env", "lean", tmp], cwd=LEAN, timeout=600)
        axioms = {}
        cur = None
        for m in re.finditer(r"'([^']+)' depends on axioms: \[([^\]]*)\]|'([^']+)' does not depend on any axioms", aout):
            if m.group(1):
                axioms[m.group(1)] = [a.strip() for a in m.group(2).replace("\n", " ").split(",") if a.strip()]
            else:
                axioms[m.group(3)] = []
        extra = {t: [a for a in ax if a not in ALLOWED_AXIOMS] for t, ax in axioms.items()}
        extra = {t: a for t, a in extra.items() if a}
        missing = [n for n, _ in thms if n not in axioms]
        ctx.obligation("audit", "axioms of %d theorems within {propext, Classical.choice, Quot.sound}" % len(thms),
                       rc == 0 and not extra and not missing,
                       "extra=%s missing=%s %s" % (extra, missing, aout[-500:] if rc else ""))
        used = sorted({a for ax in axioms.values() for a in ax})
        ctx.trusted.append("axioms used by the %d theorems of Props/%s.lean: %s" % (len(thms), prop, ", ".join(used) or "none"))
        ctx.cov["axioms"] = axioms
    ctx.cov["theorems"] = [n for n, _ in thms]
    if ctx.tier == "thorough" and ok:
        rc, lout = sh(["lake", "env", "leanchecker", "Munge.Props.%s" % prop], cwd=LEAN, timeout=1800)
        ctx.obligation("audit", "leanchecker Munge.Props.%s" % prop, rc == 0, lout[-800:])
    return [k for k in failed]


def driver(ctx):
    """Build and return the path of the compiled model driver."""
    ok, out = lake_build(ctx, ["munge_driver"])
    exe = os.path.join(LEAN, ".lake", "build", "bin", "munge_driver")
    ctx.obligation("build", "model driver (lean_exe munge_driver)", ok and os.path.exists(exe), out[-1500:])
    return exe if ok else None


def gen_write(module, content):
    """Write lean/Munge/Gen/<module>.lean if changed."""
    path = os.path.join(LEAN, "Munge", "Gen", module + ".lean")
    return write_if_changed(path, content)
