"""Core of the munge verification framework: run context, obligations,
evidence, violation reporting.  Standard library only."""
import fcntl, hashlib, json, os, random, re, shutil, subprocess, sys, time

VERIF = os.path.dirname(os.path.dirname(os.path.dirname(os.path.abspath(__file__))))
LEAN = os.path.join(VERIF, "lean")
NCPU = os.cpu_count() or 4

TRUSTED_BASE_COMMON = [
    "Lean 4.33.0 kernel (theorems re-checked by `lake build`; thorough tier also by leanchecker)",
    "generator tools/gen (clang-14 JSON AST, K translator, compile-and-print probes built from /repo's working tree)",
    "correspondence harnesses under harness/ (gcc 12 -fsanitize=address,undefined) and the differ in tools/vlib",
]


def sh(cmd, cwd=None, timeout=None, env=None, input=None):
    """Run a command; returns (rc, stdout+stderr)."""
    e = dict(os.environ)
    if env:
        e.update(env)
    try:
        p = subprocess.run(cmd, cwd=cwd, shell=isinstance(cmd, str), stdout=subprocess.PIPE,
                           stderr=subprocess.STDOUT, timeout=timeout, env=e, input=input)
        return p.returncode, p.stdout.decode("utf-8", "replace")
    except subprocess.TimeoutExpired as ex:
        out = ex.stdout.decode("utf-8", "replace") if ex.stdout else ""
        return 124, out + "\n[timeout]"


class GlobalLock:
    """Serialises generator + lake build across concurrently running checks."""
    def __init__(self, name="lean"):
        self.path = os.path.join(VERIF, ".%s.lock" % name)
    def __enter__(self):
        self.f = open(self.path, "w")
        fcntl.flock(self.f, fcntl.LOCK_EX)
        return self
    def __exit__(self, *a):
        fcntl.flock(self.f, fcntl.LOCK_UN)
        self.f.close()


def _work_base():
    """Scratch base: <verif>/.work, unless an ancestor of it is not searchable by everybody (e.g. a snapshot under /root):
    the real munged refuses key/socket/pid paths below such a directory, so the binary layers could not run there."""
    d = VERIF
    ok = True
    while True:
        try:
            if not (os.stat(d).st_mode & 0o001):
                ok = False
        except OSError:
            ok = False
        if d == "/":
            break
        d = os.path.dirname(d)
    if ok:
        return os.path.join(VERIF, ".work")
    base = "/tmp/verif-work-%d" % os.getuid()
    os.makedirs(base, exist_ok=True)
    return base


class Ctx:
    def __init__(self, prop, tier, seed, repo, replay=None, level="proof"):
        self.prop = prop
        self.tier = tier
        self.seed = seed
        self.repo = repo
        self.replay_in = replay
        self.level = level
        self.rng = random.Random(seed)
        self.t0 = time.time()
        self.work = os.path.join(_work_base(), "%s-%d" % (prop, os.getpid()))
        shutil.rmtree(self.work, ignore_errors=True)
        os.makedirs(self.work)
        self.obligations = []        # dicts: kind,name,ok,detail
        self.violations = []         # dicts
        self.known_hits = []
        self.assumptions = []
        self.trusted = list(TRUSTED_BASE_COMMON)
        self.cov = {"evaluations": 0, "samples": [], "streams": {}, "distribution": {}}
        self._distinct = set()
        self.rule = ""
        self.checker_cmd = ""
        self.known = load_known()
        self.logf = open(os.path.join(self.work, "log.txt"), "w")

    # ---- logging
    def log(self, *a):
        s = " ".join(str(x) for x in a)
        print("[%s %6.1fs] %s" % (self.prop, time.time() - self.t0, s), flush=True)
        self.logf.write(s + "\n")

    # ---- obligations
    def obligation(self, kind, name, ok, detail=""):
        self.obligations.append({"kind": kind, "name": name, "ok": bool(ok), "detail": detail[:2000]})
        if not ok:
            self.log("OBLIGATION FAILED %s:%s %s" % (kind, name, detail[:400]))
        return ok

    def failed_obligations(self):
        return [o for o in self.obligations if not o["ok"]]

    # ---- coverage
    def count(self, n=1):
        self.cov["evaluations"] += n

    def distinct(self, key):
        self._distinct.add(key if isinstance(key, (str, int)) else hashlib.sha1(repr(key).encode()).hexdigest())

    def sample(self, s, cap=8):
        if len(self.cov["samples"]) < cap:
            self.cov["samples"].append(s)

    def dist(self, key, n=1):
        d = self.cov["distribution"]
        d[key] = d.get(key, 0) + n

    # ---- violations
    def violation(self, what, replay, found_input=True, finding_key=None):
        """Record a violation.  `replay` is a JSON-able dict.  If finding_key
        matches an entry of known_findings.json it is reported as KNOWN-FINDING."""
        if finding_key:
            for k in self.known.get("findings", []):
                if k.get("property") == self.prop and k.get("key") == finding_key:
                    if finding_key not in [h["key"] for h in self.known_hits]:
                        self.known_hits.append({"key": finding_key, "what": k.get("what", what)})
                    return
        for v in self.violations:      # one line per distinct key
            if finding_key and v.get("key") == finding_key:
                return
        os.makedirs(os.path.join(VERIF, "replays"), exist_ok=True)
        idx = len(self.violations)
        path = os.path.join("replays", "%s-%d-%d.json" % (self.prop, self.seed, idx))
        rep = {"property": self.prop, "what": what, "found_failing_input": bool(found_input),
               "seed": self.seed, "tier": self.tier, "key": finding_key,
               "replay_cmd": "./check %s --replay %s" % (self.prop, path)}
        rep.update(replay)
        with open(os.path.join(VERIF, path), "w") as f:
            json.dump(rep, f, indent=1, default=str)
        self.violations.append({"what": what, "path": path, "found": bool(found_input), "key": finding_key})

    # ---- finishing
    def finish(self):
        wall = time.time() - self.t0
        nob = len(self.obligations)
        ndis = len([o for o in self.obligations if o["ok"]])
        cov = self.cov
        cov["distinct_nontrivial"] = len(self._distinct)
        cov["rule"] = self.rule
        cov["obligations"] = nob
        cov["discharged"] = ndis
        cov["checker_cmd"] = self.checker_cmd or "lake build Munge.Props.%s (in /verif/lean) + #print axioms audit + correspondence streams" % self.prop
        cov["trusted_base"] = self.trusted
        cov["obligation_list"] = [{"kind": o["kind"], "name": o["name"], "ok": o["ok"]} for o in self.obligations]
        cov["failed"] = [o for o in self.obligations if not o["ok"]]
        cov["known_findings_hit"] = self.known_hits
        if not cov["samples"]:
            cov["samples"] = [o["name"] for o in self.obligations[:5]] or ["(none)"]
        ev = {"property_id": self.prop, "tier": self.tier, "seed": self.seed, "level": self.level,
              "coverage": cov, "assumptions": self.assumptions, "wall_s": round(wall, 2),
              "violations": len(self.violations)}
        os.makedirs(os.path.join(VERIF, "evidence"), exist_ok=True)
        with open(os.path.join(VERIF, "evidence", "%s.json" % self.prop), "w") as f:
            json.dump(ev, f, indent=1, default=str)
        for h in self.known_hits:
            print("KNOWN-FINDING: property=%s %s" % (self.prop, h["what"]), flush=True)
        for v in self.violations:
            tail = "" if v["found"] else " no-failing-input-found"
            print("VIOLATION property=%s replay=%s%s" % (self.prop, v["path"], tail), flush=True)
        self.log("done: %d/%d obligations, %d evaluations, %d distinct, %d violations, %.1fs" %
                 (ndis, nob, cov["evaluations"], cov["distinct_nontrivial"], len(self.violations), wall))
        self.logf.close()
        if not os.environ.get("VERIF_KEEP"):
            shutil.rmtree(self.work, ignore_errors=True)
        return 1 if self.violations else 0


def load_known():
    p = os.path.join(VERIF, "known_findings.json")
    if os.path.exists(p):
        with open(p) as f:
            return json.load(f)
    return {"findings": [], "fixed": []}


def write_if_changed(path, content):
    old = None
    if os.path.exists(path):
        with open(path) as f:
            old = f.read()
    if old != content:
        os.makedirs(os.path.dirname(path), exist_ok=True)
        tmp = path + ".tmp%d" % os.getpid()
        with open(tmp, "w") as f:
            f.write(content)
        os.replace(tmp, path)
        return True
    return False


def file_hash(path):
    h = hashlib.sha256()
    with open(path, "rb") as f:
        h.update(f.read())
    return h.hexdigest()[:16]
