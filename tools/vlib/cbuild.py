"""C side: compile harnesses from /repo's current working tree, run line-protocol
streams against harness and Lean driver, diff."""
import os, subprocess, concurrent.futures as cf
from .core import VERIF, NCPU, sh

SAN = ["-fsanitize=address,undefined", "-fno-sanitize=alignment", "-fno-sanitize-recover=all", "-fno-omit-frame-pointer"]


def cflags(repo, defines=()):
    inc = ["-I" + repo] + ["-I%s/src/%s" % (repo, d) for d in
                           ("common", "libcommon", "libmissing", "libmunge", "munged", "mungekey", "munge")]
    d = ["-DHAVE_CONFIG_H", '-DDATE="verif"', "-DWITH_PTHREADS", "-D_GNU_SOURCE", "-DNDEBUG",
         '-DLOCALSTATEDIR="/tmp/mv/var"', '-DRUNSTATEDIR="/tmp/mv/run"', '-DSYSCONFDIR="/tmp/mv/etc"',
         "-DMUNGE_VERIF=1"]
    return inc + d + ["-D" + x for x in defines] + ["-I" + os.path.join(VERIF, "harness")]


def build(ctx, name, sources, libs=(), defines=(), sanitize=True, opt="-O1", extra=(), cc="gcc"):
    """Compile `sources` (absolute paths or repo-relative 'src/...' or harness-relative) into an executable
    under ctx.work.  Each source is its own TU, compiled in parallel.  Returns exe path or None."""
    objs, jobs = [], []
    cov = ["--coverage", "-DHX_COV"] if os.environ.get("VERIF_COV") else []      # tools/coverage.sh: which lines of /repo do the streams execute?
    flags = cflags(ctx.repo, defines) + ["-g", opt, "-w"] + (SAN if sanitize else []) + list(extra) + cov
    odir = os.path.join(ctx.work, "obj_" + name)
    os.makedirs(odir, exist_ok=True)
    for s in sources:
        if os.path.isabs(s):
            p = s
        elif s.startswith("src/"):
            p = os.path.join(ctx.repo, s)
        else:
            p = os.path.join(VERIF, "harness", s)
        o = os.path.join(odir, p.replace("/", "_") + ".o")
        objs.append(o)
        jobs.append([cc] + flags + ["-c", p, "-o", o])
    errs = []
    with cf.ThreadPoolExecutor(NCPU) as ex:
        for (rc, out), j in zip(ex.map(lambda j: sh(j, timeout=600), jobs), jobs):
            if rc != 0:
                errs.append(" ".join(j[-3:]) + "\n" + out[-1500:])
    exe = os.path.join(ctx.work, name)
    if not errs:
        rc, out = sh([cc] + (SAN if sanitize else []) + cov + objs + ["-o", exe] + list(libs) + ["-lpthread"], timeout=600)
        if rc != 0:
            errs.append(out[-2000:])
    ctx.obligation("build", "harness %s from %s" % (name, ctx.repo), not errs, "\n".join(errs))
    return None if errs else exe


def run_lines(cmd, lines, timeout=1200, env=None, cwd=None):
    """Feed lines to a process; returns (rc, list of output lines, stderr text)."""
    e = dict(os.environ)
    e.setdefault("ASAN_OPTIONS", "detect_leaks=1:abort_on_error=0:exitcode=99:allocator_may_return_null=1:max_allocation_size_mb=4200")
    e.setdefault("UBSAN_OPTIONS", "print_stacktrace=1:halt_on_error=1:exitcode=98")
    if env:
        e.update(env)
    data = ("\n".join(lines) + "\n").encode()
    try:
        p = subprocess.run(cmd, input=data, stdout=subprocess.PIPE, stderr=subprocess.PIPE, timeout=timeout, env=e, cwd=cwd)
        return p.returncode, p.stdout.decode("utf-8", "replace").split("\n")[:-1], p.stderr.decode("utf-8", "replace")
    except subprocess.TimeoutExpired as ex:
        return 124, (ex.stdout or b"").decode("utf-8", "replace").split("\n"), "[timeout]"


def diff_stream(ctx, name, lines, harness_cmd, driver_cmd, env=None, canon=None, chunk=None):
    """Run the same op lines through the C harness and the Lean driver.  Each op line must produce exactly one
    output line on both sides.  Returns None if they agree, else dict describing the first difference."""
    rc_c, out_c, err_c = run_lines(harness_cmd, lines, env=env)
    rc_l, out_l, err_l = run_lines(driver_cmd, lines)
    if canon:
        out_c = [canon(x) for x in out_c]
        out_l = [canon(x) for x in out_l]
    ctx.count(len(lines))
    st = ctx.cov["streams"].setdefault(name, {"ops": 0, "agree": 0})
    st["ops"] += len(lines)
    diff = None
    n = min(len(out_c), len(out_l), len(lines))
    for i in range(n):
        if out_c[i] != out_l[i]:
            diff = {"stream": name, "index": i, "op": lines[i], "impl": out_c[i], "model": out_l[i]}
            break
    if diff is None and (len(out_c) != len(lines) or len(out_l) != len(lines) or rc_c != 0 or rc_l != 0):
        i = n
        diff = {"stream": name, "index": i, "op": lines[i] if i < len(lines) else "(end)",
                "impl": "(rc=%d, %d/%d lines) %s" % (rc_c, len(out_c), len(lines), err_c[-3000:]),
                "model": "(rc=%d, %d/%d lines) %s" % (rc_l, len(out_l), len(lines), err_l[-1500:])}
    st["agree"] += (diff["index"] if diff else len(lines))
    if diff is None:
        return None, out_c
    return diff, out_c
