"""Turning stream results into verdicts (DESIGN section 4)."""
from . import cbuild


def run_and_judge(ctx, name, lines, harness_cmd, driver_cmd, oracle=None, env=None, key_of=None, what=""):
    """Run a correspondence stream.  `oracle(op, impl_out)` returns None if the implementation's
    answer satisfies the property's own oracle, else a string saying what is wrong.
    Returns True if stream agreed and the oracle passed everywhere."""
    if not lines:
        return True
    diff, out_c = cbuild.diff_stream(ctx, name, lines, harness_cmd, driver_cmd, env=env)
    bad = None
    if oracle:
        for i, o in enumerate(out_c[:len(lines)]):
            r = oracle(lines[i], o)
            if r:
                bad = (i, r, o)
                break
    ctx.obligation("correspondence", "stream %s: %d ops, implementation = model" % (name, len(lines)), diff is None,
                   "" if diff is None else "first difference at op %d `%s`: impl=%s model=%s" % (
                       diff["index"], diff["op"][:200], diff["impl"][:600], diff["model"][:300]))
    if oracle:
        ctx.obligation("oracle", "stream %s: property oracle on implementation outputs" % name, bad is None,
                       "" if bad is None else "op `%s` -> %s (%s)" % (lines[bad[0]][:200], bad[2][:200], bad[1]))
    if bad is not None:
        i, r, o = bad
        ctx.violation("%s: %s" % (what or name, r),
                      {"stream": name, "ops": [lines[i]], "impl_output": o, "reason": r,
                       "model_output": None if diff is None else diff.get("model")},
                      found_input=True, finding_key=key_of(lines[i], r) if key_of else None)
        return False
    if diff is not None:
        crashed = diff["impl"].startswith("(rc=") and not diff["impl"].startswith("(rc=0")
        if crashed:
            san = "sanitizer/crash" if ("Sanitizer" in diff["impl"] or "runtime error" in diff["impl"]) else "abnormal exit"
            ctx.violation("%s: implementation %s on input" % (what or name, san),
                          {"stream": name, "ops": [diff["op"]], "impl_output": diff["impl"], "model_output": diff["model"]},
                          found_input=True, finding_key=key_of(diff["op"], san) if key_of else None)
        else:
            ctx.violation("%s: correspondence between model and implementation broke; the property oracle found no failing input" % (what or name),
                          {"stream": name, "broken": "correspondence stream " + name, "first_difference": diff},
                          found_input=False)
        return False
    return True
