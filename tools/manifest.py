#!/usr/bin/env python3
"""Regenerates /verif/MANIFEST.json from the table below (single source of truth for what is claimed)."""
import json, os
V = os.path.dirname(os.path.dirname(os.path.abspath(__file__)))
PROPS = [json.loads(l)["id"] for l in open(os.path.join(V, "properties.jsonl"))]

COMMON_NOTE = ("Trusted: Lean 4.33 kernel (+ axioms propext, Classical.choice, Quot.sound only; no native_decide/bv_decide/sorry, audited every run); "
               "the generator (clang-14 AST, K translator, probes) and the correspondence harness + differ; gcc/ASan/UBSan. ")

CRED_TXT = 'Credential model lean/Munge/Model/Cred.lean (job_exec -> recv -> enc/dec_process_msg -> send) over abstract primitives: its decision kernels, stage orchestration, constants and error texts are regenerated from dec.c/enc.c/headers every run, its credential parsers (unpackOuter / unpackInner) are PROVED equal to dec_unpack_outer / dec_unpack_inner as re-translated from dec.c every run by the K+cursor translator (Props/UnpackRef.lean), the stage functions that drive the primitives (enc_init, enc_timestamp, enc_compress, enc_mac, enc_encrypt, enc_armor, dec_decrypt, dec_validate_mac, dec_decompress) and the packers are re-translated every run with each call an event and each result a fresh input (Props/C02Stages.lean, Props/C10Pack.lean), its other parsers/packers are hand-written mirrors tied byte-for-byte to the real job.c/m_msg.c/enc.c/dec.c/base64.c/zip.c/cred.c/replay.c/auth_recv.c by harness/h_cred.c (toy primitives with Lean twins; OpenSSL/zlib/bzlib build judged by oracle). '

CLAIMS = {
 "C19": dict(
   text="Proof. Ten Lean theorems over an executable model of base64.c whose tables, class constants and length formulas are regenerated from the C source on every run: "
        "decode(encode x) = x, encoder = an independent RFC 4648 definition, chunking independence of both streaming coders, exact encode bound, decode bound for every input, "
        "decoder accepts exactly the strict well-formed strings. Tie: the real base64.c (#included) under ASan/UBSan is diffed against the model on ~116k ops per run "
        "(exhaustive <=2 bytes, all partitions <=6 bytes, all class strings <=5/7) and judged by an independent oracle (python base64 + strict reference decoder).",
   note=COMMON_NOTE + "Hand-written part of the model (loop structure of encode/decode) is tied by correspondence, not generated; bounds on the C side are observed by ASan with exact-size buffers on explored inputs.",
   technique="Lean 4 theorems (induction, decide +kernel over generated tables) + model regenerated from source + differential correspondence under ASan",
   ref="5/C19"),

 "C06": dict(
   text="Proof. Theorems over the decision kernels dec_validate_time and enc_validate_msg and the orchestration of dec_process_msg, which are re-translated from dec.c/enc.c "
        "(clang typed AST -> Lean, C integer semantics explicit) on every run: acceptance only inside t0-skew<=t<=t0+min(ttl,max-ttl) over the integers (unconditionally, "
        "including 32-bit wrap, which only rejects more), exact window/EXPIRED/REWOUND verdicts where no wrap occurs, decode-side TTL cap, encode-side TTL resolution "
        "(0->default, >max->max), soft errors keep the payload (no reset), an out-of-window presentation never reaches the replay stage (the clock decides every presentation). Tie: translation validation of the real static kernels on a boundary lattice (~30k tuples) and "
        "end-to-end encode/decode (retry 0/1/5) with the clock interposed, byte-exact against the Lean credential model, incl. presentation histories with the replay cache kept (early, early, late, inside, late ...); the real option processing for every --max-ttl.",
   note=COMMON_NOTE + "The --max-ttl option reaches conf->max_ttl through the real conf.c (create_conf/parse_cmdline/process_conf in harness/h_conf.c): every value 1..3600 and malformed values are run, not proved; conf_fields_as_modelled ties the configuration fields dec.c/enc.c consult to the model's; time() is the only clock source and is interposed.",
   technique="Lean 4 theorems (omega over if-trees) on kernels translated from the C source each run + translation validation + end-to-end differential run",
   ref="5/C06"),
 "C04": dict(
   text="Proof. Theorems over the translated dec_validate_auth (accepts exactly: uid restriction ANY/equal/root-exemption-flag AND gid restriction ANY/equal/member; every refusal is "
        "UNAUTHORIZED; root not exempt with the compile-time flag as generated) and over the translated dec_process_msg orchestration (authorisation runs after MAC+unpack and before "
        "the time and replay stages; a refusal never reaches replay insert/remove and is reset before the single send). Tie: kernel validated on the full cross product of boundary ids; "
        "end-to-end histories (unauthorised attempts x {fresh, expired, rewound, already decoded} then an authorised attempt) on the real pipeline, byte-exact against the model.",
   note=COMMON_NOTE + "Group membership is a parameter of the theorems (C17 proves it equals the databases; the real gids_is_member is also streamed here); got_root_auth after the REAL create_conf/parse_cmdline is checked under two heap fills (h_conf.c); SO_PEERCRED is interposed.",
   technique="Lean 4 theorems on kernels/orchestration translated from the C source each run + translation validation + history-based differential run",
   ref="5/C04"),

 "C16": dict(
   text="Proof. 20 Lean theorems over kernels that tools/gen/g_path.py re-translates from path.c, conf.c, random.c, lock.c and munged.c on every run (per-directory decision of path_is_secure, "
        "_conf_open_keyfile, _random_read_seed, the creation sites with their mode and umask expressions, which failures are fatal vs forceable, the arguments start-up passes): the "
        "per-directory predicate equals the statement's condition; path_is_secure is the conjunction over EVERY ancestor up to / (any depth; the string-stripping loop is proved to enumerate "
        "exactly the ancestors); key file must be regular, non-symlink, owned by euid, no group/other r/w; refusal without --force; for all 512 umasks socket=0777, lock=0200 exactly, "
        "pid within 0644, log within 0640, seed within 0600; a seed failing vetting is not read and is unlinked; the seed is written to a FRESH file (unlink immediately before the creating open, for every input). Tie: real path.c/conf.c/random.c/munged.c/lock.c functions under "
        "ASan with interposed lstat/realpath/geteuid on ~24k scripted stat tables + ~3.6k real-file-system cases + 14 runs of the real munged binary (umask sweep, insecure trees), "
        "judged by an independent python oracle.",
   note=COMMON_NOTE + "Linux mode & ~umask semantics and the 0666/0777 defaults of fopen/bind are model assumptions validated by the real-FS stream; the harness runs as root so permission failures of open/unlink are not exercised; path_dirname/path_is_accessible are covered end-to-end only.",
   technique="Lean 4 theorems (omega, decide over 512 umasks, induction over path components) on kernels translated from the C source each run + differential correspondence + real binary runs",
   ref="5/C16"),

 "C20": dict(
   text="Proof. Theorems (Props/C20.lean) over a model whose expand loop, extract inputs, bounds, --bits arithmetic, open flags/mode, force-unlink and create_subkeys digest program are "
        "regenerated from hkdf.c, mungekey/{conf,key}.c and munged/conf.c every run: HKDF model = an independent RFC 5869 definition for every MAC with hashLen-byte tags, key, salt, info "
        "and L <= 255*hashLen; output exactly L bytes; --bits b in 256..8192 gives exactly ceil(b/8) bytes and anything else is refused; the key file holds exactly the HKDF output; no "
        "group/other permission bit for every umask; O_EXCL never replaces an existing file unless --force unlinked it; subkeys are H(file||'1'), H(file||'2') of the ENTIRE file for every "
        "read chunking and EINTR pattern; files shorter than 32 bytes refused; identical files => identical subkeys, converse under a named no-collision hypothesis. Tie: real hkdf.c over a toy "
        "MAC byte-exact against the model; real OpenSSL path, RFC vectors, create_key/create_subkeys in-process and the rebuilt mungekey binary judged by python hmac/hashlib and os.stat oracles. Props/C20Key.lean on _create_key_secret AS TRANSLATED from key.c each run: a failing entropy or salt read, or any failing step, yields -1 and HKDF never runs; success means every step ran once, in order; the HKDF context is destroyed once on every path; the create_key stream also makes the entropy / salt read fail.",
   note=COMMON_NOTE + "HMAC/SHA are parameters (OpenSSL tied only by the python oracle); strtol option syntax not modelled; the step from equal subkeys to credential acceptance is C02/C10 and is exercised here only by the thorough-tier two-daemon run.",
   technique="Lean 4 theorems (induction over expand rounds and read chunks) on a model regenerated from the C source + differential correspondence + python RFC 5869 oracle",
   ref="5/C20"),

 "C14": dict(
   text="Proof. Theorems (Props/C14.lean) over generic pack/unpack/length interpreters applied to per-type field-descriptor lists that tools/gen/g_wire.py re-extracts from _msg_length/_msg_pack/"
        "_msg_unpack, m_msg_recv/send, m_msg_reset and m_msg.h on every run: the three lists agree for all 6 types; unpack(pack m) = m and length = bytes produced for every well-formed message; "
        "for EVERY byte string, type code 0..255 and malloc behaviour unpack reads only inside the buffer and writes each variable field only inside its destination (decidable `guarded` "
        "predicate on the generated lists + generic proof); header strictness; the recv length gate precedes any allocation/read; send gate; set_err first-wins; reset. Tie: real m_msg.c "
        "(#included) under ASan/UBSan diffed against the model on ~19k ops (round trips, every truncation, every length class, all 256 type codes, garbage) and judged by an independent "
        "python reference codec that also checks that members the packet never reaches stay untouched. Bridge (Props/WireCred.lean, 12 theorems): the credential model's request parser and reply "
        "builders (Cred.recvMsg / encRsp / decRsp, used by C01-C10) equal Wire.recv / Wire.send over the generated lists for every byte string. Client side: ~700 scripted replies (well-formed of "
        "each type incl. combinations a daemon never sends, every length field lying, truncations, wrong type) through the REAL munge_decode / munge_encode under ASan. Props/C14Recv.lean on m_msg_recv AS TRANSLATED from m_msg.c each run: the length gate (unsigned comparison with a positive limit) precedes the allocation and the body read; a successful receive read 11 + pkt_len bytes, allocated exactly pkt_len and freed it once; only four outcomes.",
   note=COMMON_NOTE + "_pack/_unpack/_alloc/_copy themselves and the step order inside recv/send are hand-modelled and tied by correspondence and the chain-order theorem; a socket is modelled as bytes followed by EOF. Found F2 and F8 (fixed).",
   technique="Lean 4 theorems (generic interpreter proofs + decide on field lists regenerated from the C source) + differential correspondence under ASan + python reference codec",
   ref="5/C14"),

 "C01": dict(
   text="Proof. " + CRED_TXT + "Theorems (Props/C01.lean): ROUND TRIP - for every primitive table satisfying PrimLaws, sane configuration, well-formed request (payload <= 1 MiB, any cipher/MAC/zip/TTL/"
        "restriction), salt/IV, identity and clock: a successful encode followed by a decode by an authorised client inside the window on a daemon that has not seen it returns the byte-identical "
        "payload and length, the encoder's uid/gid, restrictions, resolved cipher/MAC/zip, capped TTL, encode time, origin address; option resolution (defaults, empty payload => no zip, TTL); "
        "requests above MUNGE_MAXIMUM_REQ_LEN are refused with no reply. PrimLaws is proved for the toy instance (Lemmas/ToyLaws.lean). Tie per run: ~800 encode+decode pairs byte-exact (toy), "
        "~400 on the real primitives by oracle incl. 64 KiB payloads, compressed / incompressible payloads at the top of the accepted range, the same round trip through the real libmunge, five size-limit requests around 1 MiB.",
   note=COMMON_NOTE + "PrimLaws for OpenSSL/zlib/bzlib is validated by the real-primitive stream, not proved; libmunge's client-side size check is not modelled (daemon-side gate is).",
   technique="Lean 4 theorems (parse∘print = id chains, generic in the primitives) + kernels regenerated from source + byte-exact differential correspondence under ASan",
   ref="5/C01"),
 "C02": dict(
   text="Proof. " + CRED_TXT + "Theorems: Props/C02Stages.lean on dec_validate_mac / dec_decrypt AS TRANSLATED from dec.c each run (every primitive call an event with the lengths it is given, its result an input): "
        "the MAC stage returns 0 iff every MAC call succeeded, the digest length equals mac_len, the comparison over mac_len bytes reports equality and no earlier stage left an error; on that path the MAC is "
        "keyed with the daemon key and fed exactly outer (outer_len) then inner (inner_len); a mismatch is EMUNGE_CRED_INVALID; a padding failure in dec_decrypt is recorded but deferred behind the MAC; "
        "scratch buffers are sized inner_len + block and freed once on failure; the model's MAC stage accepts exactly when that kernel does. Props/C02Memcmp.lean: crypto_memcmp (loop header checked on the AST, body translated) returns 0 exactly for identical strings. Props/C02.lean: a decode that discloses anything (success / expired / rewound / replayed) implies the credential parsed as OUTER||MAC||INNER, padding "
        "removal succeeded and MAC = mac(macKey, OUTER || decrypted still-compressed INNER) compared over the whole digest; a MAC mismatch or any parse failure before the MAC is a hard error whose "
        "message carries no payload, uid, gid, ttl, times (and leaves the replay state unchanged); under the NAMED hypothesis Unforgeable every accepted credential's MAC'd content was emitted by a "
        "key holder; under KeySeparation a credential MAC'd under another key is never accepted. Tie per run: ~3k byte-level edits (bit flips, every truncation, extensions, block swaps, splices, "
        "header rewrites, armor variants, foreign key; seed credentials include pure-padding last blocks) on toy (byte-exact) and real builds (oracle: hard error, sanitised reply), plus 70-200 kB credentials altered around 2^16 and in the tail on the real primitives.",
   note=COMMON_NOTE + "Cryptographic strength is assumed only through the explicit hypotheses Unforgeable / KeySeparation of reject_altered / reject_foreign_key; the logic (MAC coverage, order of checks, full-length comparison, sanitised reply) is what is proved.",
   technique="Lean 4 theorems over the credential model with named cryptographic hypotheses + differential correspondence on exhaustive byte-level edits",
   ref="5/C02"),
 "C03": dict(
   text="Proof. " + CRED_TXT + "Theorems (Props/C03.lean): no wire field of an encode/decode request sets a client or credential identity; the inner layer carries be32(uid)||be32(gid) of the PEER at the "
        "documented offset for every request; requests differing only in identity-looking fields get the same reply bytes; changing the peer changes exactly those 8 bytes; no peer => no credential; "
        "the identity reaching the authorisation kernel is the peer's and the middle stages preserve it. Tie per run: getsockopt(SO_PEERCRED) interposed over 200 (euid, egid) pairs incl. 0, >= 2^31, "
        "0xFFFFFFFE, ordinary and crafted ENC_REQs (uid/gid-looking payloads, trailing fields, every class of the client-controlled retry byte; a refused encode must not carry a credential), credentials read back by an independent python v3 reference (real build) and byte-exact vs model (toy).",
   note=COMMON_NOTE + "SO_PEERCRED semantics (the kernel's attestation) are trusted; the real auth_recv.c runs with getsockopt interposed. The real-primitive stream also runs with the benchmark flag set, conf_fields_as_modelled pins the configuration fields enc.c consults, and the client-level stream checks what the real munge_decode hands to the application (identities up to 2^32-2).",
   technique="Lean 4 non-interference theorems over the credential model + differential correspondence with interposed peer credentials + independent format reference",
   ref="5/C03"),
 "C08": dict(
   text="Proof (PARTIAL: bounds and state logic proved; memory safety / leaks / liveness of the C shown by sanitizers on explored inputs). " + CRED_TXT + "Theorems: Props/C08Unpack.lean on the parsers AS TRANSLATED FROM dec.c each run (K+cursor translator: every read through the cursor is an event with offset and length) - "
        "for every buffer content, every int length and every answer of the cipher/MAC tables all reads of dec_unpack_outer / dec_unpack_inner lie inside the buffer, the copies into iv/mac/salt/addr fit "
        "(table bounds proved for the probed tables), the realm block is used inside its allocation, outer layer || MAC || inner layer tile the buffer, the payload pointer stays inside the inner layer; "
        "Props/UnpackRef.lean: the model's parsers equal those kernels; Props/C08.lean (also C14.unpack_safe, C19.decode_bound): for EVERY byte string the outer and inner credential parsers never read outside the buffer (the model tests a bound only where the C does and routes every access through "
        "checked accessors that would yield `oob`), the payload handed to the reply lies inside it, a whole decode never reads out of bounds; the length gate applies to the header alone; a failed "
        "request never changes the replay state and a successful one adds exactly its key; every transaction ends in a well-formed reply or a closed connection. Tie per run: ~2.5k hostile requests "
        "through the real _job_exec under ASan/UBSan/LSan (all header fields x classes, all message types with typed bodies, every truncation of requests and of 5 credentials, bit flips, junk, "
        "validly-MAC'd forged interiors incl. corrupt and lying zip streams) byte-exact vs model incl. per-request leak flag, the same on the OpenSSL build, canary request every 50.",
   note=COMMON_NOTE + "No allocation ledger theorem (leak-freedom is LeakSanitizer per request). Stalls/timeouts: sub-check Fd - the timed I/O routines of fd.c are translated (Gen/Fd.lean) and 27 theorems (Props/C08Fd.lean) bound every wait by the remaining time + 1998 us, give count-or-error returns, no busy spin and exact bytes for read/write/iovec, tied by harness/h_fd.c (real fd.c over scripted poll/read/write/clock, ~4k ops); a watchdog and a per-request close() count guard the request harness. OpenSSL/zlib internals outside. Found F1 F2 F4 F8 F9 (fixed). Misaligned zip-header access (zip.c) is UB on strict-alignment targets; alignment checking is disabled in the harness and the observation is recorded in DESIGN.",
   technique="Lean 4 theorems on the parsers' bounds logic + byte-exact differential correspondence under ASan/UBSan/LSan on hostile streams",
   ref="5/C08"),
 "C09": dict(
   text="Proof. " + CRED_TXT + "Theorems (Props/C09.lean; also C06.soft_errors_keep_payload and C04.unauthorized_reply_is_reset on the translated orchestration, and C02Stages.padding_failure_is_deferred / mac_mismatch_is_invalid / deferred_error_refuses on the translated dec_decrypt / dec_validate_mac): every decode that fails for a reason other "
        "than expired/rewound/replayed sends exactly errorOnlyRsp(retry, code, text) - payload length 0, ids at the ANY sentinel, cipher/MAC/zip/TTL/times/address zero, no realm/address/payload bytes; "
        "a failed encode likewise; for an encrypted credential a padding-removal failure and a MAC mismatch produce THE SAME reply bytes (EMUNGE_CRED_INVALID, default text) and the MAC is still "
        "computed on the padding-failure path. Tie per run: ~850 ops - control decodes and hard failures with full reply bytes vs the error-only form, every byte of the last cipher block flipped, "
        "previous block, MAC field, removed/added whole and partial blocks on AES/Blowfish/CAST credentials (three with a pure-padding last block) (toy byte-exact; OpenSSL by oracle: all replies of one credential identical); two restricted credentials of different encoders presented by unauthorised clients must get byte-identical replies naming neither encoder; every primitive call of 5 encodes / 5 decodes failing in turn.",
   note=COMMON_NOTE + "Timing indistinguishability is not a property of the model and is not claimed.",
   technique="Lean 4 theorems over the credential model and the translated orchestration + byte-exact differential correspondence on failure replies",
   ref="5/C09"),
 "C10": dict(
   text="Proof. " + CRED_TXT + "SpecV3 (Model/SpecV3.lean) is written from doc/credential_v3_format.txt alone (own byte order, own base64, own layout). Theorems (Props/C10.lean): for every request/"
        "configuration/environment/primitive table the credential the daemon model emits equals SpecV3.emit of the resolved fields; every SpecV3 credential of well-formed fields is accepted by the "
        "daemon model with the same field values; the streaming armor equals RFC 4648 on the concatenation; Props/C10Pack.lean on enc_pack_outer / enc_pack_inner AS TRANSLATED from enc.c each run: the stores tile the allocation exactly (no byte uninitialised or outside), in the documented field order, and outer_zip_ref is the zip byte. Tie per run: toy build byte-exact vs model; real build both ways against an independent "
        "python reference (hashlib/hmac/zlib/bz2 + openssl enc) over every supported cipher x MAC x zip; the suite's frozen credential; credentials emitted while each primitive call fails in turn must still be structurally v3 and decode.",
   note=COMMON_NOTE + "The python reference is support, not proof; PrimLaws for the real primitives is validated, not proved.",
   technique="Lean 4 refinement theorems between the daemon model and an independent format specification + byte-exact correspondence + two-way cross-check with a python reference",
   ref="5/C10"),
 "C05": dict(
   text="Proof. Theorems (Props/C05.lean) over models of hash.c / replay.c and the decode tail whose comparators, chain-walk operators, link position, key bytes, retry gate, stage order and the "
        "roll-back condition of dec_process_msg are regenerated from the C source every run: the hash table refines a finite set for every comparator/hash/size/op sequence; replay_insert returns 1 "
        "iff present; failed decodes never consume; distinct keys never interfere; the generated roll-back condition implies 'this request inserted'; hence for every sequential history and EVERY "
        "interleaving of request steps at most one first-attempt SUCCESS per credential while its record is live (retry-flagged requests are the documented exception). Tie per run: ~66k ops on the "
        "real hash.c/replay.c/dec.c tail (adversarial keys, bucket collisions, equal MAC different expiry) vs model, python-set oracle; groups of credentials minted by identical requests in one second (real enc.c) each decode once; thorough: 16-thread insert races.",
   note=COMMON_NOTE + "The mutex's exclusion is trusted (structural lock/unlock certificates are generated and checked); distinctness of credentials is up to the 16 kept MAC bytes + expiry second. Found F7 (fixed).",
   technique="Lean 4 refinement + invariant-over-interleavings theorems on a model regenerated from the C source + differential correspondence",
   ref="5/C05"),
 "C07": dict(
   text="Proof. Theorems (Props/C07.lean): replay_purge at `now` removes exactly the records with t_expired < now (strict, operator as generated); it re-arms every MUNGE_REPLAY_PURGE_SECS; a request "
        "that passes the time check has now <= t_expired; hence once decoded, at every later time at which the credential still passes the time check its record is present whatever purges happened and a "
        "second non-retry presentation is REPLAYED up to and including the last valid second; after a purge nothing expired remains, so a record present at `now` was decoded within ttl' + skew + one "
        "purge period. Tie per run: ~62k ops on the real replay.c/hash.c with interposed time(), purge ticks at every offset around the expiry second.",
   note=COMMON_NOTE + "Periodic recurrence of the purge timer itself is C18; future-dated credentials live up to 2*ttl' (stated in the theorem).",
   technique="Lean 4 history theorems on a model regenerated from the C source + differential correspondence with interposed clock",
   ref="5/C07"),
 "C12": dict(
   text="Proof. Theorems (Props/C12.lean) over a transition system whose atomic steps are the mutex sections of work.c and whose wait/signal predicates, idle test, cancel-disable bracket and event "
        "orders are regenerated from work.c/job.c every run - any number of workers and items, every step sequence, spurious wake-ups, deferred cancellation: each wait loop waits exactly while "
        "something is queued or in progress (= negation of the signal predicate); accepted = queued + held + done with each item dequeued once; whenever work_wait / the wait of work_fini(w,1) is "
        "left nothing is queued or in progress; at cancellation every accepted item is done; no lost wake-up; progress variant. Acceptor side (Props/C12Job.lean over the loop body of job_accept "
        "translated from job.c every run): EMFILE/ENFILE/ENOBUFS/ENOMEM always wait for the backlog exactly once before the next accept whatever the log rate limiter decides; an accepted connection "
        "is queued exactly once or released exactly once. Tie per run: ~17k forced schedules on the real work.c (emulated condition variables, no sleeps) line-exact vs model + oracle; the real "
        "job_accept against ~500 scripted accept()/time()/work-crew outcomes vs the translated kernel + oracle.",
   note=COMMON_NOTE + "pthread mutex/condvar/cancellation semantics as written into the model are assumed; single acceptor thread as in job_accept; liveness is enabledness + variant, not a temporal theorem. Found F3 (fixed).",
   technique="Lean 4 invariant proofs over a transition system with predicates regenerated from the C source + forced-schedule differential correspondence",
   ref="5/C12"),
 "C18": dict(
   text="Proof. 20 theorems (Props/C18.lean) over arbitrary traces of set/cancel/tick/scan/run with comparator, insert-walk polarity, head-change signal tests, id bump, lock/dispatch event order, "
        "re-arm sites of the three periodic services and the caller classes regenerated from timer.c/clock.c/replay.c/gids.c/random.c every run: sorted stable list invariant; each timer fires at most "
        "once and exactly once if never cancelled and a scan happens at now >= ts; never early; order by (expiry, set order); cancel semantics; callbacks may set/cancel (lock released during "
        "dispatch); self-re-arming services stay pending forever for every clock sequence incl. forward jumps and cannot spin inside one scan; no expired timer is left waiting. Tie per run: the REAL "
        "timer thread under virtual time (clock_gettime / pthread_cond_* interposed), ~71k ops line-exact vs model, python oracle; real replay_purge/_gids_map_update/_random_stir_entropy recurrence.",
   note=COMMON_NOTE + "External ops are issued while the thread is at rest (plus set/cancel from callbacks); interleavings at critical-section granularity rest on the generated lock certificates. _timer_id++ at LONG_MAX is signed overflow (unreachable: 2^63 sets).",
   technique="Lean 4 trace-invariant theorems on a model regenerated from the C source + virtual-time differential correspondence on the real timer thread",
   ref="5/C18"),

 "C15": dict(
   text="Proof (PARTIAL: file-system/lock semantics are model assumptions; real interleavings are sampled). 17 theorems (Props/C15.lean) over a process/file-system transition system whose start-up and "
        "shutdown syscall programs (open/fstat/F_SETLK/unlink/socket/bind/listen/pid file/seed, flags, modes, guards, whether lock_create re-validates the locked inode against the name) are "
        "regenerated from lock.c/munged.c/conf.c/random.c every run: exclusive non-blocking whole-file write lock; lock failure is fatal; lock precedes the socket unlink; for every schedule of any "
        "number of start-ups, overlapping clean shutdowns and crashes at any point at most one owner, holding the lock on the inode the name refers to (full strength, requires the generated "
        "lockRevalidates = true); a loser never touches the owner's socket/lock/pid names; restart after any crash succeeds; clean stop leaves no socket/lock/pid and a seed. Tie: the REAL munged "
        "built from the working tree under strace - syscall order vs the generated program, second start refused with the owner untouched and serving, ~20 SIGKILL injection points each followed "
        "by a restart, concurrent starts with injected delays, and the lock-file window schedule (both orders) with the model's prediction and an oracle from the statement.",
   note=COMMON_NOTE + "POSIX fcntl-lock / namespace semantics are assumptions; --force and background mode are not modelled; outcomes count only if they reproduce on an immediate re-run. Found F5 (fixed). Observations outside the statement: the pid file is unlinked after the lock is released (a daemon started during another's shutdown tail can lose its pid file); a SIGTERM between the got_terminate test and accept() is seen only at the next connection.",
   technique="Lean 4 invariant proofs over a transition system with programs regenerated from the C source + strace-scheduled runs of the real binary",
   ref="5/C15"),

 "C17": dict(
   text="Proof. 17 theorems (Props/C17.lean) over a model whose comparators, loop fragments (membership walk, sorted insert, scan loop with its errno dispatch and restart), one pass of xgetgrent/xgetpwnam, "
        "the mtime test, the swap section and max_inits are K-translated from gids.c / xgetgr.c / xgetpw.c every run: isMember(build g p) u gid <=> some entry with that gid lists a name the user "
        "database maps to u (u not the sentinel), for every database; per-uid lists strictly increasing; lookup errors only under-approximate (fail closed); any number of ERANGE restarts yields the "
        "clean scan's map, the max_inits-th gives up; a failed build keeps the old map and load time; a successful refresh with mtime > last load installs build(current databases); the scan is skipped "
        "only if not newer; in every interleaving of lookups, SIGHUPs, edits and refresh micro-steps each lookup is answered from one complete map (old or new); lock certificates for "
        "gids_is_member / gids_update / _gids_map_update. Tie: real gids.c/hash.c/xgetgr.c/xgetpw.c with scripted getgrent_r/getpwnam_r/stat/time (duplicates, unknown users, sentinel uid, "
        "empty/huge groups, forced ERANGE, hash collisions) ~1.5k scenarios vs model, python oracle from the statement.",
   note=COMMON_NOTE + "hash.c is tied only by correspondence here (C05 proves the table refines a set); no real threads or live NSS; allocation failures not exercised. Observations: double destroy of the lookup buffers if the second gettimeofday of _gids_map_create fails (unreachable without a failing gettimeofday); a SIGHUP during a running refresh leaves a second refresh chain.",
   technique="Lean 4 theorems (fold/induction over databases, interleaving invariant) on kernels and loop fragments translated from the C source each run + differential correspondence with scripted NSS",
   ref="5/C17"),

 "C11": dict(
   text="Proof (PARTIAL: isolation and serialisability are proved at the granularity of mutex-protected sections; data races in the C are shown by ThreadSanitizer on explored schedules only). "
        "Theorems (Props/C11.lean) over a system of m in-flight requests built on the credential model (private record + program counter over recv / front+mid / gid lookup / replay insert / send / "
        "roll-back; shared = replay set, gid-map version, PRNG stream): ISOLATION - a request's private record and reply are a function of its own bytes, peer, clock reads and its own observations "
        "of shared state, whatever the other requests are, for every schedule; no_foreign_bytes; SERIALISABLE - when every reply is deliverable the replies and final replay set of any schedule equal "
        "the sequential execution in linearisation order; the exact statement that still holds with undeliverable replies; and rollback_anomaly: the full-strength statement is FALSE of the code "
        "when a send fails (known finding F10). Generated every run from the 38 translation units: thread roots, the 38 mutable globals each classified init-only / mutex-guarded (with lock "
        "certificates) / sync object / atomic flag / confined, the request path cut at the shared-state interface; `decide` theorems over that data (shared_vars_covered etc.). Tie: k real "
        "_job_exec calls on k threads with per-thread scripted environment and gates forcing the schedule, ~3000 forced scenarios byte-exact vs model + per-client oracle, 120 free-running "
        "scenarios under ASan; thorough: the same harness under ThreadSanitizer (8-16 threads, concurrent purge, gid swaps, logging).",
   note=COMMON_NOTE + "Mutex exclusion is trusted; no alias analysis in the shared-variable extraction; gids_is_member is a mutex-guarded stub in this harness (the real one is certified statically and exercised in C17/C04); TSan runs in the thorough tier (quick: only when a generated obligation breaks). Known finding F10 (rollback anomaly, design-level) is listed in known_findings.json; F11 (log latch race) found and fixed.",
   technique="Lean 4 frame/serialisability theorems over interleavings + decide over shared-variable and lock data regenerated from the C source + forced-schedule differential correspondence + ThreadSanitizer",
   ref="5/C11"),

 "C13": dict(
   text="Proof. 13 theorems (Props/C13.lean) over the client loop of m_msg_client_xfer - whose initial counter, exit tests and their order, retry assignment, back-off and which calls are retried are "
        "regenerated from m_msg_client.c every run - composed with the daemon model (Cred.jobExec) over per-attempt fault schedules (request cut after N bytes / daemon's send fails / reply cut after "
        "N bytes / ok): for EVERY schedule of at most 4 faults, any offsets and order, munge_decode returns SUCCESS with the fault-free payload, identity and metadata (never REPLAYED: a lost reply's "
        "retry carries retry>0 and is exempted) and munge_encode returns the same credential; 5 faults => EMUNGE_SOCKET with every output untouched; the client never emits retry > 4 and the daemon "
        "refuses > 5; an undeliverable first decode withdraws its record and a later fresh decode succeeds; an exempted retry whose own reply is undeliverable leaves the record; a message is "
        "received only from a complete header+body. Tie per run: the REAL libmunge (munge_encode/munge_decode) against the real _job_exec through an in-process fault-injecting proxy, every class "
        "sequence of 0..5 faults with offsets at message-structure boundaries (thorough: every byte offset), a probe decode after every transaction; toy build byte-exact vs model (outputs, "
        "attempts, retry bytes seen, back-off), OpenSSL build by oracle.",
   note=COMMON_NOTE + "connect() refusals (retried inside _m_msg_client_connect) are exercised on the implementation only (stream connect-backoff: same result, connections and retry bytes as without refusals; ten refusals = socket error with nothing sent), the model has no connect step; sleep failures not modelled; all attempts of one call share one environment; replies are assumed shorter than 4 GiB.",
   technique="Lean 4 theorems over fault schedules (client loop regenerated from the C source x daemon model) + differential correspondence through a fault-injecting proxy with the real libmunge",
   ref="5/C13"),
}
NA_REASON = "check not built yet (work in progress, see DESIGN.md section 7 staging)"

def main():
    checks = []
    for p in PROPS:
        if p in CLAIMS:
            c = CLAIMS[p]
            checks.append({
                "property_id": p,
                "quick_cmd": "./check %s --tier quick" % p,
                "thorough_cmd": "./check %s --tier thorough" % p,
                "evidence_file": "evidence/%s.json" % p,
                "replay_cmd_template": "./check %s --replay {path}" % p,
                "engine": "lean",
                "level_claimed": {"category": c.get("category", "proof"), "text": c["text"], "design_ref": "DESIGN.md section " + c["ref"]},
                "level_note": c["note"],
                "technique": c["technique"]})
    m = {"version": 1,
         "setup_cmd": "./setup.sh",
         "hooks": {"guard": "MUNGE_VERIF",
                   "enable": "harnesses compile /repo/src/**.c directly with -DMUNGE_VERIF=1; no hook in munge's sources is needed (statics are reached by #include, the environment by interposition)",
                   "baseline_off_cmd": "cd /repo && make check",
                   "source_commits": [], "add_only": True},
         "engines": [{"name": "lean", "path": "lean/", "serves_properties": sorted(CLAIMS),
                      "kind_free_text": "Lean 4.33 library Munge (hand-written models, parts regenerated from /repo each run, one theorem file per property) + compiled line-protocol model driver; python orchestrator ./check; C harnesses under harness/"}],
         "checks": checks,
         "notes": "See DESIGN.md. Every check: regenerate model parts from /repo, lake build the property's theorems, audit axioms, build harnesses from /repo under ASan/UBSan, diff implementation against model, run the property oracle; known genuine defects are listed in known_findings.json.",
         "not_applicable": [{"property_id": p, "reason": NA_REASON} for p in PROPS if p not in CLAIMS]}
    json.dump(m, open(os.path.join(V, "MANIFEST.json"), "w"), indent=1)
    print("claimed:", sorted(CLAIMS))

main()
