#!/usr/bin/env python3
"""Regenerates /verif/MANIFEST.json from the table below (single source of truth for what is claimed)."""
import json, os
V = os.path.dirname(os.path.dirname(os.path.abspath(__file__)))
PROPS = [json.loads(l)["id"] for l in open(os.path.join(V, "properties.jsonl"))]

COMMON_NOTE = ("Trusted: Lean 4.33 kernel (+ axioms propext, Classical.choice, Quot.sound only; no native_decide/bv_decide/sorry, audited every run); "
               "the generator (clang-14 AST, K translator, probes) and the correspondence harness + differ; gcc/ASan/UBSan. ")

CLAIMS = {
 "C19": dict(
   text="Proof. Ten Lean theorems over an executable model of base64.c whose tables, class constants and length formulas are regenerated from the C source on every run: "
        "decode(encode x) = x, encoder = an independent RFC 4648 definition, chunking independence of both streaming coders, exact encode bound, decode bound for every input, "
        "decoder accepts exactly the strict well-formed strings. Tie: the real base64.c (#included) under ASan/UBSan is diffed against the model on ~116k ops per run "
        "(exhaustive <=2 bytes, all partitions <=6 bytes, all class strings <=5/7) and judged by an independent oracle (python base64 + strict reference decoder).",
   note=COMMON_NOTE + "Hand-written part of the model (loop structure of encode/decode) is tied by correspondence, not generated; bounds on the C side are observed by ASan with exact-size buffers on explored inputs.",
   technique="Lean 4 theorems (induction, decide +kernel over generated tables) + model regenerated from source + differential correspondence under ASan",
   ref="5/C19"),

 "C06": dict(
   text="Proof. Theorems over the decision kernels dec_validate_time and enc_validate_msg and the orchestration of dec_process_msg, which are re-translated from dec.c/enc.c "
        "(clang typed AST -> Lean, C integer semantics explicit) on every run: acceptance only inside t0-skew<=t<=t0+min(ttl,max-ttl) over the integers (unconditionally, "
        "including 32-bit wrap, which only rejects more), exact window/EXPIRED/REWOUND verdicts where no wrap occurs, decode-side TTL cap, encode-side TTL resolution "
        "(0->default, >max->max), soft errors keep the payload (no reset). Tie: translation validation of the real static kernels on a boundary lattice (~30k tuples) and "
        "end-to-end encode/decode with the clock interposed, byte-exact against the Lean credential model.",
   note=COMMON_NOTE + "The --max-ttl option parser's range test (1..3600) is assumed (constant MUNGE_MAXIMUM_TTL is generated); time() is the only clock source and is interposed.",
   technique="Lean 4 theorems (omega over if-trees) on kernels translated from the C source each run + translation validation + end-to-end differential run",
   ref="5/C06"),
 "C04": dict(
   text="Proof. Theorems over the translated dec_validate_auth (accepts exactly: uid restriction ANY/equal/root-exemption-flag AND gid restriction ANY/equal/member; every refusal is "
        "UNAUTHORIZED; root not exempt with the compile-time flag as generated) and over the translated dec_process_msg orchestration (authorisation runs after MAC+unpack and before "
        "the time and replay stages; a refusal never reaches replay insert/remove and is reset before the single send). Tie: kernel validated on the full cross product of boundary ids; "
        "end-to-end histories (unauthorised attempts x {fresh, expired, rewound, already decoded} then an authorised attempt) on the real pipeline, byte-exact against the model.",
   note=COMMON_NOTE + "Group membership is a parameter here (C17 proves it equals the databases); SO_PEERCRED is interposed.",
   technique="Lean 4 theorems on kernels/orchestration translated from the C source each run + translation validation + history-based differential run",
   ref="5/C04"),

 "C16": dict(
   text="Proof. 19 Lean theorems over kernels that tools/gen/g_path.py re-translates from path.c, conf.c, random.c, lock.c and munged.c on every run (per-directory decision of path_is_secure, "
        "_conf_open_keyfile, _random_read_seed, the creation sites with their mode and umask expressions, which failures are fatal vs forceable, the arguments start-up passes): the "
        "per-directory predicate equals the statement's condition; path_is_secure is the conjunction over EVERY ancestor up to / (any depth; the string-stripping loop is proved to enumerate "
        "exactly the ancestors); key file must be regular, non-symlink, owned by euid, no group/other r/w; refusal without --force; for all 512 umasks socket=0777, lock=0200 exactly, "
        "pid within 0644, log within 0640, seed within 0600; a seed failing vetting is not read and is unlinked. Tie: real path.c/conf.c/random.c/munged.c/lock.c functions under "
        "ASan with interposed lstat/realpath/geteuid on ~24k scripted stat tables + ~3.6k real-file-system cases + 14 runs of the real munged binary (umask sweep, insecure trees), "
        "judged by an independent python oracle.",
   note=COMMON_NOTE + "Linux mode & ~umask semantics and the 0666/0777 defaults of fopen/bind are model assumptions validated by the real-FS stream; the harness runs as root so permission failures of open/unlink are not exercised; path_dirname/path_is_accessible are covered end-to-end only.",
   technique="Lean 4 theorems (omega, decide over 512 umasks, induction over path components) on kernels translated from the C source each run + differential correspondence + real binary runs",
   ref="5/C16"),

 "C20": dict(
   text="Proof. Theorems (Props/C20.lean) over a model whose expand loop, extract inputs, bounds, --bits arithmetic, open flags/mode, force-unlink and create_subkeys digest program are "
        "regenerated from hkdf.c, mungekey/{conf,key}.c and munged/conf.c every run: HKDF model = an independent RFC 5869 definition for every MAC with hashLen-byte tags, key, salt, info "
        "and L <= 255*hashLen; output exactly L bytes; --bits b in 256..8192 gives exactly ceil(b/8) bytes and anything else is refused; the key file holds exactly the HKDF output; no "
        "group/other permission bit for every umask; O_EXCL never replaces an existing file unless --force unlinked it; subkeys are H(file||'1'), H(file||'2') of the ENTIRE file for every "
        "read chunking and EINTR pattern; files shorter than 32 bytes refused; identical files => identical subkeys, converse under a named no-collision hypothesis. Tie: real hkdf.c over a toy "
        "MAC byte-exact against the model; real OpenSSL path, RFC vectors, create_key/create_subkeys in-process and the rebuilt mungekey binary judged by python hmac/hashlib and os.stat oracles.",
   note=COMMON_NOTE + "HMAC/SHA are parameters (OpenSSL tied only by the python oracle); strtol option syntax not modelled; the step from equal subkeys to credential acceptance is C02/C10 and is exercised here only by the thorough-tier two-daemon run.",
   technique="Lean 4 theorems (induction over expand rounds and read chunks) on a model regenerated from the C source + differential correspondence + python RFC 5869 oracle",
   ref="5/C20"),

 "C14": dict(
   text="Proof. Theorems (Props/C14.lean) over generic pack/unpack/length interpreters applied to per-type field-descriptor lists that tools/gen/g_wire.py re-extracts from _msg_length/_msg_pack/"
        "_msg_unpack, m_msg_recv/send, m_msg_reset and m_msg.h on every run: the three lists agree for all 6 types; unpack(pack m) = m and length = bytes produced for every well-formed message; "
        "for EVERY byte string, type code 0..255 and malloc behaviour unpack reads only inside the buffer and writes each variable field only inside its destination (decidable `guarded` "
        "predicate on the generated lists + generic proof); header strictness; the recv length gate precedes any allocation/read; send gate; set_err first-wins; reset. Tie: real m_msg.c "
        "(#included) under ASan/UBSan diffed against the model on ~19k ops (round trips, every truncation, every length class, all 256 type codes, garbage) and judged by an independent "
        "python reference codec that also checks that members the packet never reaches stay untouched.",
   note=COMMON_NOTE + "_pack/_unpack/_alloc/_copy themselves and the step order inside recv/send are hand-modelled and tied by correspondence and the chain-order theorem; a socket is modelled as bytes followed by EOF. Found F2 and F8 (fixed).",
   technique="Lean 4 theorems (generic interpreter proofs + decide on field lists regenerated from the C source) + differential correspondence under ASan + python reference codec",
   ref="5/C14"),
}
NA_REASON = "check not built yet (work in progress, see DESIGN.md section 7 staging)"

def main():
    checks = []
    for p in PROPS:
        if p in CLAIMS:
            c = CLAIMS[p]
            checks.append({
                "property_id": p,
                "quick_cmd": "./check %s --tier quick" % p,
                "thorough_cmd": "./check %s --tier thorough" % p,
                "evidence_file": "evidence/%s.json" % p,
                "replay_cmd_template": "./check %s --replay {path}" % p,
                "engine": "lean",
                "level_claimed": {"category": c.get("category", "proof"), "text": c["text"], "design_ref": "DESIGN.md section " + c["ref"]},
                "level_note": c["note"],
                "technique": c["technique"]})
    m = {"version": 1,
         "setup_cmd": "./setup.sh",
         "hooks": {"guard": "MUNGE_VERIF",
                   "enable": "harnesses compile /repo/src/**.c directly with -DMUNGE_VERIF=1; no hook in munge's sources is needed (statics are reached by #include, the environment by interposition)",
                   "baseline_off_cmd": "cd /repo && make check",
                   "source_commits": [], "add_only": True},
         "engines": [{"name": "lean", "path": "lean/", "serves_properties": sorted(CLAIMS),
                      "kind_free_text": "Lean 4.33 library Munge (hand-written models, parts regenerated from /repo each run, one theorem file per property) + compiled line-protocol model driver; python orchestrator ./check; C harnesses under harness/"}],
         "checks": checks,
         "notes": "See DESIGN.md. Every check: regenerate model parts from /repo, lake build the property's theorems, audit axioms, build harnesses from /repo under ASan/UBSan, diff implementation against model, run the property oracle; known genuine defects are listed in known_findings.json.",
         "not_applicable": [{"property_id": p, "reason": NA_REASON} for p in PROPS if p not in CLAIMS]}
    json.dump(m, open(os.path.join(V, "MANIFEST.json"), "w"), indent=1)
    print("claimed:", sorted(CLAIMS))

main()
