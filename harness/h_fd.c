/* Correspondence harness for the timed I/O routines of src/libcommon/fd.c (C08 sub-check "Fd") and for
 * `_get_timeval` of src/libcommon/m_msg.c.  The real fd.c is linked as its own translation unit; m_msg.c is
 * #included (to reach the static `_get_timeval`).  The environment -- poll, read, write, writev, gettimeofday --
 * is DEFINED HERE and follows the event script of the op line under a virtual clock (nothing sleeps):
 *
 *   fd rd <fd> <ptr> <n> <skip> <when> <start> <data> <pollQ> <ioQ>     fd_timed_read_n; <data> = the peer's byte stream
 *   fd wr <fd> <ptr> <n> <skip> <when> <start> <data> <pollQ> <ioQ>     fd_timed_write_n; <data> = the user buffer (>= n bytes)
 *   fd wv <fd> <ptr> <chunks> <skip> <when> <start> <pollQ> <ioQ>       fd_timed_write_iov; <chunks> = hex,hex,.. (`-` empty, `none` = no element)
 *   fd gtv <now> <msecs> <rv>                                           _get_timeval at wall clock <now> us (rv = gettimeofday's result)
 *   <when> = null | sec,usec      <start> = wall clock at entry, us      <ptr> = 0: pass NULL
 *   <pollQ> = - | r<dt>:<revents> | f<dt>:<errno> | j<delta>, comma separated
 *             r: the descriptor is ready dt us after the poll in progress began; f: poll fails then (EINTR..);
 *             j: the wall clock steps by delta us before it is next consulted
 *   <ioQ>   = - | x<k> | e<errno>, comma separated:  the kernel transfers at most k bytes / the call fails
 *   An exhausted poll queue never becomes ready (poll times out; with an infinite timeout it fails with ENOSYS);
 *   an exhausted I/O queue fails with ENOSYS.
 *   answer: ret= errno= out=<hex: user buffer (rd) / bytes the peer received (wr, wv)> ngt=<clock readings>
 *           tmo=<timeout argument of every poll, ;-separated> nio=<I/O calls> wall=<final clock> blocked=<us spent in poll>
 * User buffers are heap blocks of exactly the advertised size (AddressSanitizer sees any overrun). */
#include "hx.h"
#include <errno.h>
#include <poll.h>
#include <setjmp.h>
#include <stdint.h>
#include <sys/syscall.h>
#include <sys/time.h>
#include <sys/uio.h>
#include <unistd.h>
#include "m_msg.c"

#define ESCRIPT 38
#define MAXEV 4096

enum { P_READY, P_FAIL, P_JUMP };
struct pev { int kind; long long a; long long b; };
struct iev { int fail; long long v; };

static int g_active;                     /* inside a call of the routine under test */
static struct pev g_pq[MAXEV]; static int g_pn, g_pi;
static struct iev g_iq[MAXEV]; static int g_in, g_ii;
static long long g_wall, g_blocked;
static int g_ngt, g_nio, g_npoll, g_gtv_rv;
static int g_tmo[MAXEV];
static long g_calls, g_limit;
static jmp_buf g_jb;
static const unsigned char *g_src; static size_t g_srclen, g_srcpos;
static unsigned char *g_sink; static size_t g_sinklen, g_sinkcap;

static void tick (void) {
    if (++g_calls > g_limit) longjmp (g_jb, 1);
}
static void drain (void) {
    while (g_pi < g_pn && g_pq[g_pi].kind == P_JUMP) g_wall += g_pq[g_pi++].a;
}
static long long fdiv (long long a, long long b) { long long q = a / b; if ((a % b) && ((a < 0) != (b < 0))) q--; return q; }

int gettimeofday (struct timeval *tv, void *tz) {
    (void) tz;
    if (!g_active) {
        struct timespec ts; syscall (SYS_clock_gettime, 0, &ts);
        tv->tv_sec = ts.tv_sec; tv->tv_usec = ts.tv_nsec / 1000; return 0;
    }
    tick ();
    g_ngt++;
    if (g_gtv_rv < 0) { errno = EFAULT; return -1; }
    drain ();
    tv->tv_sec = (time_t) fdiv (g_wall, 1000000);
    tv->tv_usec = (suseconds_t) (g_wall - (long long) tv->tv_sec * 1000000);
    return 0;
}

int poll (struct pollfd *fds, nfds_t nfds, int timeout) {
    long long lim = 1000LL * timeout;
    struct pev *e;
    if (!g_active) return (int) syscall (SYS_poll, fds, nfds, timeout);
    tick ();
    if (g_npoll < MAXEV) g_tmo[g_npoll] = timeout;
    g_npoll++;
    drain ();
    if (nfds != 1) { errno = EINVAL; return -1; }
    fds[0].revents = 0;
    if (g_pi >= g_pn) {
        if (timeout < 0) { errno = ESCRIPT; return -1; }
        g_wall += lim; g_blocked += lim;
        return 0;
    }
    e = &g_pq[g_pi];
    if (timeout < 0 || e->a <= lim) {
        g_wall += e->a; g_blocked += e->a;
        g_pi++;
        if (e->kind == P_READY) { fds[0].revents = (short) e->b; return 1; }
        errno = (int) e->b;
        return -1;
    }
    e->a -= lim;
    g_wall += lim; g_blocked += lim;
    return 0;
}

static int next_io (long long *k) {
    g_nio++;
    if (g_ii >= g_in) { errno = ESCRIPT; return -1; }
    if (g_iq[g_ii].fail) { errno = (int) g_iq[g_ii++].v; return -1; }
    *k = g_iq[g_ii++].v;
    return 0;
}

ssize_t read (int fd, void *buf, size_t count) {
    long long k; size_t m;
    if (!g_active) return syscall (SYS_read, fd, buf, count);
    tick ();
    if (next_io (&k) < 0) return -1;
    m = (size_t) k;
    if (m > count) m = count;
    if (m > g_srclen - g_srcpos) m = g_srclen - g_srcpos;
    memcpy (buf, g_src + g_srcpos, m);
    g_srcpos += m;
    return (ssize_t) m;
}

static void sink_put (const void *p, size_t m) {
    if (g_sinklen + m > g_sinkcap) { g_sinkcap = (g_sinklen + m) * 2 + 16; g_sink = realloc (g_sink, g_sinkcap); }
    memcpy (g_sink + g_sinklen, p, m);
    g_sinklen += m;
}

ssize_t write (int fd, const void *buf, size_t count) {
    long long k; size_t m;
    if (!g_active) return syscall (SYS_write, fd, buf, count);
    tick ();
    if (next_io (&k) < 0) return -1;
    m = (size_t) k;
    if (m > count) m = count;
    sink_put (buf, m);
    return (ssize_t) m;
}

ssize_t writev (int fd, const struct iovec *iov, int cnt) {
    long long k; size_t m, tot = 0, left; int i;
    if (!g_active) return syscall (SYS_writev, fd, iov, cnt);
    tick ();
    if (next_io (&k) < 0) return -1;
    for (i = 0; i < cnt; i++) tot += iov[i].iov_len;
    m = (size_t) k;
    if (m > tot) m = tot;
    left = m;
    for (i = 0; i < cnt && left > 0; i++) {
        size_t t = iov[i].iov_len < left ? iov[i].iov_len : left;
        sink_put (iov[i].iov_base, t);
        left -= t;
    }
    return (ssize_t) m;
}

/* ---- op parsing */
static int parse_pq (char *s) {
    char *t, *sv = NULL;
    g_pn = g_pi = 0;
    if (!strcmp (s, "-")) return 0;
    for (t = strtok_r (s, ",", &sv); t; t = strtok_r (NULL, ",", &sv)) {
        struct pev *e = &g_pq[g_pn];
        char *c;
        if (g_pn >= MAXEV) return -1;
        if (t[0] == 'j') { e->kind = P_JUMP; e->a = strtoll (t + 1, NULL, 10); e->b = 0; g_pn++; continue; }
        if (t[0] != 'r' && t[0] != 'f') return -1;
        e->kind = t[0] == 'r' ? P_READY : P_FAIL;
        c = strchr (t, ':');
        if (!c) return -1;
        e->a = strtoll (t + 1, NULL, 10);
        e->b = strtoll (c + 1, NULL, 10);
        g_pn++;
    }
    return 0;
}
static int parse_iq (char *s) {
    char *t, *sv = NULL;
    g_in = g_ii = 0;
    if (!strcmp (s, "-")) return 0;
    for (t = strtok_r (s, ",", &sv); t; t = strtok_r (NULL, ",", &sv)) {
        if (g_in >= MAXEV) return -1;
        if (t[0] != 'x' && t[0] != 'e') return -1;
        g_iq[g_in].fail = t[0] == 'e';
        g_iq[g_in].v = strtoll (t + 1, NULL, 10);
        g_in++;
    }
    return 0;
}
static int parse_when (char *s, struct timeval *tv, struct timeval **p) {
    char *c;
    if (!strcmp (s, "null")) { *p = NULL; return 0; }
    c = strchr (s, ',');
    if (!c) return -1;
    tv->tv_sec = strtoll (s, NULL, 10);
    tv->tv_usec = strtoll (c + 1, NULL, 10);
    *p = tv;
    return 0;
}
static void reset_env (long long start) {
    g_wall = start; g_blocked = 0;
    g_ngt = g_nio = g_npoll = 0; g_gtv_rv = 0;
    g_calls = 0; g_limit = 4L * (g_pn + g_in) + 64;
    g_srcpos = 0; g_sinklen = 0;
}
static void report (long ret, int err, const unsigned char *out, long outlen) {
    int i;
    printf ("ret=%ld errno=%d out=", ret, err);
    hx_print (out, outlen);
    printf (" ngt=%d tmo=", g_ngt);
    if (!g_npoll) fputs ("-", stdout);
    for (i = 0; i < g_npoll && i < MAXEV; i++) printf ("%s%d", i ? ";" : "", g_tmo[i]);
    printf (" nio=%d wall=%lld blocked=%lld\n", g_nio, g_wall, g_blocked);
}

static void op_rw (int is_read, char **w) {
    int fd = atoi (w[0]), ptr = atoi (w[1]), skip = atoi (w[3]);
    long n = atol (w[2]);
    struct timeval tv, *when;
    unsigned char *data = NULL, *buf = NULL;
    long dl = hx_parse (w[6], &data);
    volatile long ret = 0; volatile int err = 0;
    if (dl < 0 || n < 0 || parse_when (w[4], &tv, &when) < 0 || parse_pq (w[7]) < 0 || parse_iq (w[8]) < 0
            || (!is_read && dl < n)) {
        puts ("bad-op"); free (data); return;
    }
    reset_env (atoll (w[5]));
    if (is_read) {
        buf = calloc (n ? n : 1, 1);
        g_src = data; g_srclen = (size_t) dl;
    }
    else {
        buf = malloc (n ? n : 1);        /* exactly n bytes of the user data */
        memcpy (buf, data, n);
    }
    if (setjmp (g_jb)) {
        g_active = 0;
        puts ("diverged");
    }
    else {
        errno = 0;
        g_active = 1;
        ret = is_read ? fd_timed_read_n (fd, ptr ? buf : NULL, n, when, skip)
                      : fd_timed_write_n (fd, ptr ? buf : NULL, n, when, skip);
        err = errno;
        g_active = 0;
        if (is_read) report (ret, err, buf, n); else report (ret, err, g_sink, (long) g_sinklen);
    }
    free (buf); free (data);
}

static void op_wv (char **w) {
    int fd = atoi (w[0]), ptr = atoi (w[1]), skip = atoi (w[3]);
    struct timeval tv, *when;
    struct iovec iov[64];
    unsigned char *blk[64];
    int cnt = 0, i;
    char *t, *sv = NULL;
    volatile long ret = 0; volatile int err = 0;
    if (strcmp (w[2], "none"))
        for (t = strtok_r (w[2], ",", &sv); t && cnt < 64; t = strtok_r (NULL, ",", &sv)) {
            long l = hx_parse (t, &blk[cnt]);
            if (l < 0) { puts ("bad-op"); while (cnt) free (blk[--cnt]); return; }
            iov[cnt].iov_base = blk[cnt]; iov[cnt].iov_len = (size_t) l; cnt++;
        }
    if (parse_when (w[4], &tv, &when) < 0 || parse_pq (w[6]) < 0 || parse_iq (w[7]) < 0) {
        puts ("bad-op"); while (cnt) free (blk[--cnt]); return;
    }
    reset_env (atoll (w[5]));
    if (setjmp (g_jb)) {
        g_active = 0;
        puts ("diverged");
    }
    else {
        errno = 0;
        g_active = 1;
        ret = fd_timed_write_iov (fd, ptr ? iov : NULL, cnt, when, skip);
        err = errno;
        g_active = 0;
        report (ret, err, g_sink, (long) g_sinklen);
    }
    for (i = 0; i < cnt; i++) free (blk[i]);
}

static void op_gtv (char **w) {
    struct timeval tv;
    tv.tv_sec = 0; tv.tv_usec = 0;
    g_pn = g_pi = g_in = g_ii = 0;
    reset_env (atoll (w[0]));
    g_gtv_rv = atoi (w[2]);
    g_active = 1;
    _get_timeval (&tv, atoi (w[1]));
    g_active = 0;
    printf ("tv=%lld,%lld\n", (long long) tv.tv_sec, (long long) tv.tv_usec);
}

int main (void) {
    char *line;
    while ((line = hx_getline (stdin))) {
        char *w[16];
        int n = hx_split (line, w, 16);
        if (n == 11 && !strcmp (w[0], "fd") && !strcmp (w[1], "rd")) op_rw (1, w + 2);
        else if (n == 11 && !strcmp (w[0], "fd") && !strcmp (w[1], "wr")) op_rw (0, w + 2);
        else if (n == 10 && !strcmp (w[0], "fd") && !strcmp (w[1], "wv")) op_wv (w + 2);
        else if (n == 5 && !strcmp (w[0], "fd") && !strcmp (w[1], "gtv")) op_gtv (w + 2);
        else puts ("bad-op");
        fflush (stdout);
        free (line);
    }
    free (g_sink);
    return 0;
}
