/* Correspondence harness for src/munged/timer.c + clock.c (C18).
 *
 * The REAL timer thread runs, under VIRTUAL time: this file defines clock_gettime (CLOCK_REALTIME),
 * time, pthread_cond_wait, pthread_cond_timedwait and pthread_cond_signal for the whole executable.
 * The virtual clock only moves when the script says so; a timed wait ends with ETIMEDOUT when the
 * virtual clock reaches its deadline, or with 0 when the condition is signalled while the thread is
 * blocked (a signal sent while nobody waits is lost, as with a real condition variable).
 * After every operation the main thread waits until the timer thread is blocked again, then prints
 * what happened: deterministic, no sleeps.  A watchdog (alarm) turns a hang into a `HANG` line.
 *
 * Built in three flavours from this one file (see tools/props/c18.py):
 *   (default)            timer.c + the script interpreter
 *   -DH_SVC_REPLAY       a TU that #includes the real replay.c        (periodic purge)
 *   -DH_SVC_GIDS         a TU that #includes the real gids.c          (periodic group-map refresh)
 *   -DH_SVC_RANDOM       a TU that #includes the real random.c        (periodic PRNG stirring)
 */
#if defined(H_SVC_REPLAY)
#include "replay.c"
void h_svc_replay_cb (void (**f)(void)) { *f = (void (*)(void)) replay_purge; }
#elif defined(H_SVC_GIDS)
/* `timer svc gids <secs> <dostat> <mtime>`: with do_group_stat on, stat () of the group file reports this modification time
 * (-1: the real one), so that the "group file unchanged since the last refresh" path of _gids_map_update runs as well */
#include <sys/stat.h>
long h_svc_group_mtime = -1;
static int hx_group_stat (const char *path, struct stat *st) {
    int rc = (stat) (path, st);
    if (rc == 0 && h_svc_group_mtime >= 0) st->st_mtime = (time_t) h_svc_group_mtime;
    return rc;
}
#define stat(p, s) hx_group_stat (p, s)
#include "gids.c"
#undef stat
void h_svc_gids_cb (void (**f)(void)) { *f = (void (*)(void)) _gids_map_update; }
#elif defined(H_SVC_RANDOM)
#include "random.c"
void h_svc_random_cb (void (**f)(void)) { *f = (void (*)(void)) _random_stir_entropy; }
void h_svc_random_start (int secs) { _random_stir_secs = secs; _random_stir_entropy (NULL); }
int h_svc_random_secs (void) { return _random_stir_secs; }
long h_svc_random_timer (void) { return _random_timer_id; }
#else

#include "hx.h"
#include <errno.h>
#include <pthread.h>
#include <semaphore.h>
#include <signal.h>
#include <stdarg.h>
#include <time.h>
#include <unistd.h>
#include <dlfcn.h>
#include <sys/syscall.h>
#include "timer.c"

/* ------------------------------------------------------------------ virtual time + wrapped waits */
enum { TH_RUNNING, TH_WAIT, TH_TIMEDWAIT };
static pthread_mutex_t H = PTHREAD_MUTEX_INITIALIZER;
static struct timespec vnow;                 /* virtual CLOCK_REALTIME */
static int th_state = TH_RUNNING;
static struct timespec th_deadline;
static int th_timedout;
static sem_t sem_wake, sem_quiet;
static pthread_t main_tid;

static int ts_le (const struct timespec *a, const struct timespec *b)
{
    return (a->tv_sec < b->tv_sec) || (a->tv_sec == b->tv_sec && a->tv_nsec <= b->tv_nsec);
}

int clock_gettime (clockid_t id, struct timespec *tp)
{
    if (id != CLOCK_REALTIME)
        return (int) syscall (SYS_clock_gettime, id, tp);
    pthread_mutex_lock (&H); *tp = vnow; pthread_mutex_unlock (&H);
    return 0;
}

static char *logbuf; static size_t loglen, logcap;
static void logf_ (const char *fmt, ...)
{
    va_list ap; char tmp[256]; int n;
    va_start (ap, fmt); n = vsnprintf (tmp, sizeof tmp, fmt, ap); va_end (ap);
    pthread_mutex_lock (&H);
    if (loglen + n + 1 > logcap) { logcap = (loglen + n + 1) * 2; logbuf = realloc (logbuf, logcap); }
    memcpy (logbuf + loglen, tmp, n + 1); loglen += n;
    pthread_mutex_unlock (&H);
}

time_t time (time_t *t)
{
    time_t r;
    pthread_mutex_lock (&H); r = vnow.tv_sec; pthread_mutex_unlock (&H);
    if (t) *t = r;
    return r;
}

static void relock (void *m) { pthread_mutex_lock ((pthread_mutex_t *) m); }

static int foreign_wait (pthread_cond_t *c, pthread_mutex_t *m)
{
    int (*f)(pthread_cond_t *, pthread_mutex_t *) = dlvsym (RTLD_NEXT, "pthread_cond_wait", "GLIBC_2.3.2");
    return f ? f (c, m) : EINVAL;
}

/* block the calling (timer) thread; returns 1 if the wait timed out */
static int block_here (pthread_mutex_t *mutex, int state, const struct timespec *dl)
{
    int to;
    pthread_mutex_lock (&H);
    th_state = state; th_timedout = 0;
    if (dl) th_deadline = *dl;
    pthread_mutex_unlock (mutex);            /* atomically with becoming a waiter (both under H) */
    pthread_mutex_unlock (&H);
    sem_post (&sem_quiet);
    pthread_cleanup_push (relock, mutex);
    while (sem_wait (&sem_wake) != 0 && errno == EINTR) ;       /* cancellation point */
    pthread_cleanup_pop (1);
    pthread_mutex_lock (&H); to = th_timedout; pthread_mutex_unlock (&H);
    return to;
}

int pthread_cond_wait (pthread_cond_t *cond, pthread_mutex_t *mutex)
{
    if (cond != &_timer_cond) return foreign_wait (cond, mutex);
    block_here (mutex, TH_WAIT, NULL);
    return 0;
}

int pthread_cond_timedwait (pthread_cond_t *cond, pthread_mutex_t *mutex, const struct timespec *abstime)
{
    int expired;
    if (cond != &_timer_cond) return EINVAL;
    if (abstime->tv_nsec < 0 || abstime->tv_nsec >= 1000000000L) return EINVAL;
    pthread_mutex_lock (&H); expired = ts_le (abstime, &vnow); pthread_mutex_unlock (&H);
    if (expired) return ETIMEDOUT;
    return block_here (mutex, TH_TIMEDWAIT, abstime) ? ETIMEDOUT : 0;
}

static long n_signals;
int pthread_cond_signal (pthread_cond_t *cond)
{
    if (cond != &_timer_cond) {
        int (*f)(pthread_cond_t *) = dlvsym (RTLD_NEXT, "pthread_cond_signal", "GLIBC_2.3.2");
        return f ? f (cond) : EINVAL;
    }
    pthread_mutex_lock (&H);
    n_signals++;
    if (th_state != TH_RUNNING) { th_state = TH_RUNNING; sem_post (&sem_wake); }
    pthread_mutex_unlock (&H);
    return 0;
}

static void advance_to (long sec, long nsec)
{
    struct timespec t = { sec, nsec };
    pthread_mutex_lock (&H);
    if (ts_le (&vnow, &t)) {
        vnow = t;
        if (th_state == TH_TIMEDWAIT && ts_le (&th_deadline, &vnow)) {
            th_timedout = 1; th_state = TH_RUNNING; sem_post (&sem_wake);
        }
    }
    pthread_mutex_unlock (&H);
}

static void wait_quiescent (void)
{
    for (;;) {
        int st;
        pthread_mutex_lock (&H); st = th_state; pthread_mutex_unlock (&H);
        if (st != TH_RUNNING) return;
        while (sem_wait (&sem_quiet) != 0 && errno == EINTR) ;
    }
}

static void on_alarm (int sig)
{
    static const char m[] = "HANG timer thread (or a caller) did not come to rest within the watchdog time\n";
    (void) sig;
    fflush (stdout);
    if (write (1, m, sizeof m - 1) < 0) {}
    _exit (3);
}

/* ------------------------------------------------------------------ log stubs (log.c is not linked) */
static int fatal_seen;
static void note_fatal (int pri, const char *fmt)
{
    if (pri <= 3 /* LOG_ERR */) { fatal_seen = 1; logf_ ("FATAL(%s)", fmt); }
}
void log_msg (int pri, const char *fmt, ...)
{
    /* service flavours: remember the periodic work */
    if (!strncmp (fmt, "Stirring PRNG", 13)) logf_ ("stir@%ld,", (long) time (NULL));
    if (!strncmp (fmt, "Purged", 6)) logf_ ("purged@%ld,", (long) time (NULL));
}
void log_err (int st, int pri, const char *fmt, ...) { note_fatal (pri, fmt); }
void log_errno (int st, int pri, const char *fmt, ...) { note_fatal (pri, fmt); }
void log_err_or_warn (int force, const char *fmt, ...) { }

/* ------------------------------------------------------------------ scripted callbacks */
struct desc { int k; int kind; long a1, a2; };
static struct desc **descs; static int ndesc, capdesc;

static struct desc *new_desc (int kind, long a1, long a2)
{
    struct desc *d = malloc (sizeof *d);
    pthread_mutex_lock (&H);
    if (ndesc == capdesc) { capdesc = capdesc ? capdesc * 2 : 64; descs = realloc (descs, capdesc * sizeof *descs); }
    d->k = ndesc; d->kind = kind; d->a1 = a1; d->a2 = a2;
    descs[ndesc++] = d;
    pthread_mutex_unlock (&H);
    return d;
}

static void cb (void *arg)
{
    struct desc *d = arg, *nd;
    struct timespec now, ts;
    long id;
    clock_gettime (CLOCK_REALTIME, &now);
    logf_ ("k%d@%ld.%ld", d->k, (long) now.tv_sec, (long) now.tv_nsec);
    switch (d->kind) {
    case 'c': logf_ (":c%d", timer_cancel (d->a1)); break;
    case 's': nd = new_desc ('p', 0, 0); id = timer_set_relative (cb, nd, d->a1); logf_ (":s%ld", id); break;
    case 'a': nd = new_desc ('p', 0, 0); ts.tv_sec = d->a1; ts.tv_nsec = d->a2;
              id = timer_set_absolute (cb, nd, &ts); logf_ (":s%ld", id); break;
    case 'r': id = timer_set_relative (cb, d, d->a1); logf_ (":s%ld", id); break;
    case 'j': /* a slow callback: the clock moves on by a1 ms while it runs (timers that expire meanwhile stay on the active
               * list, overdue), then it sets a zero-offset timer - what gids_update() does on SIGHUP */
              pthread_mutex_lock (&H);
              vnow.tv_nsec += (d->a1 % 1000) * 1000000L; vnow.tv_sec += d->a1 / 1000 + vnow.tv_nsec / 1000000000L; vnow.tv_nsec %= 1000000000L;
              pthread_mutex_unlock (&H);
              nd = new_desc ('p', 0, 0); id = timer_set_relative (cb, nd, 0); logf_ (":j%ld:s%ld", d->a1, id); break;
    case 'x': nd = new_desc ('p', 0, 0); id = timer_set_relative (cb, nd, d->a1);       /* set, then cancel it again */
              logf_ (":s%ld:c%d", id, timer_cancel (id)); break;
    default: break;
    }
    logf_ (",");
}

/* ------------------------------------------------------------------ real services (optional TUs) */
extern void h_svc_replay_cb (void (**f)(void)) __attribute__((weak));
extern void h_svc_gids_cb (void (**f)(void)) __attribute__((weak));
extern long h_svc_group_mtime __attribute__((weak));
extern void h_svc_random_cb (void (**f)(void)) __attribute__((weak));
extern void h_svc_random_start (int secs) __attribute__((weak));
extern int h_svc_random_secs (void) __attribute__((weak));
#include "conf.h"
#include "gids.h"
#include "replay.h"
#pragma weak replay_init
#pragma weak replay_fini
#pragma weak gids_create
#pragma weak gids_update
#pragma weak gids_destroy
static gids_t the_gids;
/* the services want a global `conf` (all zero: no benchmark mode, no --force) */
static struct conf conf_storage;
conf_t conf = &conf_storage;

static const char *cb_name (callback_f f, void *arg, char *tmp)
{
    void (*g)(void);
    if (f == cb) { sprintf (tmp, "k%d", ((struct desc *) arg)->k); return tmp; }
    if (h_svc_replay_cb) { h_svc_replay_cb (&g); if ((void *) f == (void *) g) return "replay_purge"; }
    if (h_svc_gids_cb) { h_svc_gids_cb (&g); if ((void *) f == (void *) g) return "gids_map_update"; }
    if (h_svc_random_cb) { h_svc_random_cb (&g); if ((void *) f == (void *) g) return "random_stir"; }
    return "?";
}

/* ------------------------------------------------------------------ output */
static void print_state (void)
{
    timer_p t; char tmp[32]; int first = 1;
    pthread_mutex_lock (&H);
    if (loglen && logbuf[loglen - 1] == ',') logbuf[--loglen] = 0;
    printf (" log=[%s]", loglen ? logbuf : "");
    loglen = 0; if (logbuf) logbuf[0] = 0;
    pthread_mutex_unlock (&H);
    printf (" pend=[");
    pthread_mutex_lock (&_timer_mutex);
    for (t = _timer_active; t; t = t->next) {
        printf ("%s%ld/%s@%ld.%ld", first ? "" : ",", t->id, cb_name (t->f, t->arg, tmp), (long) t->ts.tv_sec, (long) t->ts.tv_nsec);
        first = 0;
    }
    pthread_mutex_unlock (&_timer_mutex);
    printf ("]");
    pthread_mutex_lock (&H);
    if (th_state == TH_WAIT) printf (" thr=W");
    else if (th_state == TH_TIMEDWAIT) printf (" thr=T:%ld.%ld", (long) th_deadline.tv_sec, (long) th_deadline.tv_nsec);
    else printf (" thr=R");
    pthread_mutex_unlock (&H);
    printf ("\n");
    fflush (stdout);
}

static void do_reset (void)
{
    int i;
    if (replay_fini && 0) replay_fini ();
    timer_fini ();
    if (the_gids && gids_destroy) { gids_destroy (the_gids); the_gids = NULL; }
    if (replay_fini) replay_fini ();
    for (i = 0; i < ndesc; i++) free (descs[i]);
    ndesc = 0;
    sem_destroy (&sem_wake); sem_destroy (&sem_quiet);
    sem_init (&sem_wake, 0, 0); sem_init (&sem_quiet, 0, 0);
    pthread_mutex_lock (&H);
    vnow.tv_sec = 0; vnow.tv_nsec = 0; th_state = TH_RUNNING; loglen = 0; if (logbuf) logbuf[0] = 0;
    pthread_mutex_unlock (&H);
    timer_init ();
    wait_quiescent ();
}

static int kind_args (char **w, int n, int i, int *kind, long *a1, long *a2)
{
    *a1 = *a2 = 0;
    if (i >= n) return -1;
    *kind = w[i][0];
    switch (*kind) {
    case 'p': return i + 1 == n ? 0 : -1;
    case 'c': case 's': case 'r': case 'x': case 'j': if (i + 2 != n) return -1; *a1 = atol (w[i + 1]); return 0;
    case 'a': if (i + 3 != n) return -1; *a1 = atol (w[i + 1]); *a2 = atol (w[i + 2]); return 0;
    }
    return -1;
}

int main (void)
{
    char *line;
    main_tid = pthread_self ();
    signal (SIGALRM, on_alarm);
    sem_init (&sem_wake, 0, 0); sem_init (&sem_quiet, 0, 0);
    timer_init ();
    wait_quiescent ();
    while ((line = hx_getline (stdin))) {
        char *w[16]; int n = hx_split (line, w, 16), kind; long a1, a2;
        alarm (6);
        if (n < 2 || strcmp (w[0], "timer")) { puts ("bad-op"); fflush (stdout); }
        else if (!strcmp (w[1], "reset") && n == 2) { do_reset (); printf ("ok"); print_state (); }
        else if (!strcmp (w[1], "seta") && n >= 5 && !kind_args (w, n, 4, &kind, &a1, &a2)) {
            struct timespec ts = { atol (w[2]), atol (w[3]) };
            struct desc *d = new_desc (kind, a1, a2);
            long id = timer_set_absolute (cb, d, &ts);
            wait_quiescent ();
            printf ("id=%ld k=%d", id, d->k); print_state ();
        }
        else if (!strcmp (w[1], "setr") && n >= 4 && !kind_args (w, n, 3, &kind, &a1, &a2)) {
            struct desc *d = new_desc (kind, a1, a2);
            long id = timer_set_relative (cb, d, atol (w[2]));
            wait_quiescent ();
            printf ("id=%ld k=%d", id, d->k); print_state ();
        }
        else if (!strcmp (w[1], "cancel") && n == 3) {
            int rc; errno = 0; rc = timer_cancel (atol (w[2]));
            wait_quiescent ();
            printf ("rc=%d", rc); print_state ();
        }
        else if (!strcmp (w[1], "adv") && n == 4) {
            advance_to (atol (w[2]), atol (w[3]));
            wait_quiescent ();
            printf ("ok"); print_state ();
        }
        else if (!strcmp (w[1], "setid") && n == 3) {
            pthread_mutex_lock (&_timer_mutex); _timer_id = atol (w[2]); pthread_mutex_unlock (&_timer_mutex);
            printf ("ok"); print_state ();
        }
        else if (!strcmp (w[1], "guard") && n == 4) {
            struct timespec ts = { 0, 0 }; long rc; int c = atoi (w[2]), t = atoi (w[3]);
            if (c && t) { puts ("bad-op"); fflush (stdout); }
            else { errno = 0; rc = timer_set_absolute (c ? cb : NULL, NULL, t ? &ts : NULL); printf ("rc=%ld errno=%d", rc, errno); print_state (); }
        }
        else if (!strcmp (w[1], "le") && n == 6) {           /* translation validation of clock_is_timespec_le */
            struct timespec a = { atol (w[2]), atol (w[3]) }, b = { atol (w[4]), atol (w[5]) };
            printf ("%d\n", clock_is_timespec_le (&a, &b)); fflush (stdout);
        }
        else if (!strcmp (w[1], "addms") && n == 5) {        /* … and of clock_get_timespec's arithmetic */
            struct timespec sv, r; int rc;
            pthread_mutex_lock (&H); sv = vnow; vnow.tv_sec = atol (w[2]); vnow.tv_nsec = atol (w[3]); pthread_mutex_unlock (&H);
            rc = clock_get_timespec (&r, atol (w[4]));
            pthread_mutex_lock (&H); vnow = sv; pthread_mutex_unlock (&H);
            printf ("rc=%d %ld.%ld\n", rc, (long) r.tv_sec, (long) r.tv_nsec); fflush (stdout);
        }
        else if (!strcmp (w[1], "svc") && n >= 3) {          /* real periodic services; no model counterpart */
            if (!strcmp (w[2], "replay") && replay_init) { replay_init (); wait_quiescent (); printf ("ok"); print_state (); }
            else if (!strcmp (w[2], "gids") && (n == 4 || n == 6) && gids_create) {
                if (n == 6 && &h_svc_group_mtime) h_svc_group_mtime = atol (w[5]);
                the_gids = gids_create (atoi (w[3]), n == 6 ? atoi (w[4]) : 0); wait_quiescent (); printf ("ok"); print_state ();
            }
            else if (!strcmp (w[2], "hup") && gids_update && the_gids) { gids_update (the_gids); wait_quiescent (); printf ("ok"); print_state (); }
            else if (!strcmp (w[2], "random") && n == 4 && h_svc_random_start) { h_svc_random_start (atoi (w[3])); wait_quiescent (); printf ("ok secs=%d", h_svc_random_secs ()); print_state (); }
            else { puts ("bad-op"); fflush (stdout); }
        }
        else { puts ("bad-op"); fflush (stdout); }
        alarm (0);
        free (line);
    }
    alarm (6);
    timer_fini ();
    if (the_gids && gids_destroy) gids_destroy (the_gids);
    if (replay_fini) replay_fini ();
    { int i; for (i = 0; i < ndesc; i++) free (descs[i]); free (descs); free (logbuf); }
    return 0;
}
#endif
