/* Correspondence harness for src/libcommon/m_msg.c (C14).  The real file is #included so that the
 * static _msg_length/_msg_pack/_msg_unpack are reachable.  Every op is self-contained (fresh message,
 * exact-size heap buffers so that AddressSanitizer sees any over-read or over-write).
 *
 *   wire rt <t> <fields>           _msg_length, _msg_pack into malloc(n), _msg_unpack of those bytes
 *   wire unpack <t> <hex>          _msg_unpack of <hex> as type t (0..255) into a fresh message
 *   wire recv <type> <maxlen> <hex>  m_msg_recv from a socketpair that delivers <hex> then EOF
 *   wire send <t> <maxlen> <fields>  m_msg_send into a socketpair
 *   wire seterr <e:hex|e:null>,..  m_msg_set_err sequence on a fresh message
 *   wire reset <fields>            m_msg_reset
 *   wire limit <n>                 documents the run condition "malloc (k) fails iff k > n" (ASAN_OPTIONS
 *                                  max_allocation_size_mb, allocator_may_return_null); tells the model
 * <fields> = name=value ...: decimal for integer members, hex for pointer members and addr.
 */
#include "hx.h"
#include <pthread.h>
#include <sys/socket.h>
#include <fcntl.h>
#include "m_msg.c"

static int set_field (m_msg_t m, const char *k, const char *v) {
    unsigned long u = strtoul (v, NULL, 10);
#define I(f) if (!strcmp (k, #f)) { m->f = u; return 0; }
    I(type) I(retry) I(pkt_len) I(cipher) I(mac) I(zip) I(realm_len) I(ttl) I(addr_len) I(time0) I(time1)
    I(client_uid) I(client_gid) I(cred_uid) I(cred_gid) I(auth_uid) I(auth_gid) I(data_len) I(auth_s_len)
    I(auth_c_len) I(error_num) I(error_len) I(realm_is_copy) I(data_is_copy)
#undef I
#define P(f) if (!strcmp (k, #f)) { unsigned char *b; long n = hx_parse (v, &b); if (n < 0) return -1; m->f = (void *) b; return 0; }
    P(realm_str) P(data) P(auth_s_str) P(auth_c_str) P(error_str)
#undef P
    if (!strcmp (k, "addr")) {
        unsigned char *b; long n = hx_parse (v, &b);
        if (n < 0) return -1;
        memcpy (&m->addr, b, n < (long) sizeof (m->addr) ? (size_t) n : sizeof (m->addr));
        free (b);
        return 0;
    }
    return -1;
}

static int set_fields (m_msg_t m, char **w, int n) {
    int i;
    for (i = 0; i < n; i++) {
        char *eq = strchr (w[i], '=');
        if (!eq) return -1;
        *eq = 0;
        if (set_field (m, w[i], eq + 1) < 0) return -1;
    }
    return 0;
}

static void dump_ptr (const char *name, const void *p, unsigned long len, int full) {
    printf (" %s=", name);
    if (!p) { fputs ("null", stdout); return; }
    if (!full) { fputs ("set", stdout); return; }
    hx_print (p, (long) len);
}

/* full: every member, pointer members as the first <len> bytes; otherwise (failed call, block contents
 * may be uninitialised and the error text is not part of the property) pointers as null/set and no error_len/str */
static void dump (m_msg_t m, int full) {
#define I(f) printf (" " #f "=%lu", (unsigned long) m->f);
    I(type) I(retry) I(pkt_len) I(cipher) I(mac) I(zip) I(realm_len) I(ttl) I(addr_len) I(time0) I(time1)
    I(client_uid) I(client_gid) I(cred_uid) I(cred_gid) I(auth_uid) I(auth_gid) I(data_len) I(auth_s_len)
    I(auth_c_len) I(error_num)
    if (full) I(error_len)
#undef I
    printf (" addr="); hx_print ((unsigned char *) &m->addr, sizeof (m->addr));
    dump_ptr ("realm_str", m->realm_str, m->realm_len, full);
    dump_ptr ("data", m->data, m->data_len, full);
    dump_ptr ("auth_s_str", m->auth_s_str, m->auth_s_len, full);
    dump_ptr ("auth_c_str", m->auth_c_str, m->auth_c_len, full);
    if (full) dump_ptr ("error_str", m->error_str, m->error_len, full);
}

/* after a successful unpack every block made by _alloc is NUL-terminated at [len] */
static void check_nul (m_msg_t m) {
    if (m->realm_str && m->realm_str[m->realm_len]) fputs (" !nul:realm_str", stdout);
    if (m->data && ((char *) m->data)[m->data_len]) fputs (" !nul:data", stdout);
    if (m->auth_s_str && m->auth_s_str[m->auth_s_len]) fputs (" !nul:auth_s_str", stdout);
    if (m->auth_c_str && m->auth_c_str[m->auth_c_len]) fputs (" !nul:auth_c_str", stdout);
    if (m->error_str && m->error_str[m->error_len]) fputs (" !nul:error_str", stdout);
}

static void do_unpack (const char *ts, const char *h) {
    unsigned char *src; long n = hx_parse (h, &src); m_msg_t m; munge_err_t e;
    if (n < 0 || m_msg_create (&m) != EMUNGE_SUCCESS) { puts ("bad-op"); return; }
    e = _msg_unpack (m, (m_msg_type_t) atoi (ts), src, (int) n);
    printf ("rc=%d", (int) e);
    dump (m, e == EMUNGE_SUCCESS);
    if (e == EMUNGE_SUCCESS) check_nul (m);
    putchar ('\n');
    m_msg_destroy (m);
    free (src);
}

static void do_rt (const char *ts, char **w, int nw) {
    m_msg_t m, m2; int t = atoi (ts), n; munge_err_t e; unsigned char *buf;
    if (m_msg_create (&m) != EMUNGE_SUCCESS) { puts ("bad-op"); return; }
    if (set_fields (m, w, nw) < 0) { puts ("bad-op"); m_msg_destroy (m); return; }
    n = _msg_length (m, (m_msg_type_t) t);
    printf ("n=%d", n);
    if (n > 0) {
        buf = malloc (n);
        e = _msg_pack (m, (m_msg_type_t) t, buf, n);
        printf (" rc=%d", (int) e);
        if (e != EMUNGE_SUCCESS) printf (" err=%d", (int) m->error_num);
        else {
            printf (" out="); hx_print (buf, n);
            if (m_msg_create (&m2) != EMUNGE_SUCCESS) { puts (" bad-op"); return; }
            e = _msg_unpack (m2, (m_msg_type_t) t, buf, n);
            printf (" urc=%d", (int) e);
            dump (m2, e == EMUNGE_SUCCESS);
            if (e == EMUNGE_SUCCESS) check_nul (m2);
            m_msg_destroy (m2);
        }
        free (buf);
    }
    putchar ('\n');
    m_msg_destroy (m);
}

struct feed { int fd; unsigned char *b; long n; };

static void *writer (void *arg) {
    struct feed *f = arg; long off = 0;
    while (off < f->n) {
        ssize_t k = write (f->fd, f->b + off, f->n - off);
        if (k <= 0) break;
        off += k;
    }
    shutdown (f->fd, SHUT_WR);
    return NULL;
}

static void *reader (void *arg) {
    struct feed *f = arg; long cap = 1 << 16;
    f->b = malloc (cap); f->n = 0;
    for (;;) {
        ssize_t k;
        if (f->n == cap) { cap *= 2; f->b = realloc (f->b, cap); }
        k = read (f->fd, f->b + f->n, cap - f->n);
        if (k <= 0) break;
        f->n += k;
    }
    return NULL;
}

static void do_recv (const char *ts, const char *ml, const char *h) {
    unsigned char *src; long n = hx_parse (h, &src), left = 0; m_msg_t m; munge_err_t e;
    int sv[2]; pthread_t th; struct feed f; unsigned char tmp[4096]; ssize_t k;
    if (n < 0 || m_msg_create (&m) != EMUNGE_SUCCESS || socketpair (AF_UNIX, SOCK_STREAM, 0, sv) < 0) { puts ("bad-op"); return; }
    f.fd = sv[1]; f.b = src; f.n = n;
    if (n <= 65536) writer (&f);        /* fits the socket buffer: no thread needed */
    else pthread_create (&th, NULL, writer, &f);
    m_msg_bind (m, sv[0]);
    e = m_msg_recv (m, (m_msg_type_t) atoi (ts), atoi (ml));
    while ((k = read (sv[0], tmp, sizeof (tmp))) > 0) left += k;
    if (n > 65536) pthread_join (th, NULL);
    printf ("rc=%d pkt=%s left=%ld", (int) e, m->pkt ? "set" : "null", left);
    dump (m, e == EMUNGE_SUCCESS);
    if (e == EMUNGE_SUCCESS) check_nul (m);
    putchar ('\n');
    m_msg_destroy (m);                  /* closes sv[0] */
    close (sv[1]);
    free (src);
}

static void do_send (const char *ts, const char *ml, char **w, int nw) {
    m_msg_t m; munge_err_t e; int sv[2]; pthread_t th; struct feed f;
    if (m_msg_create (&m) != EMUNGE_SUCCESS || socketpair (AF_UNIX, SOCK_STREAM, 0, sv) < 0) { puts ("bad-op"); return; }
    if (set_fields (m, w, nw) < 0) { puts ("bad-op"); m_msg_destroy (m); close (sv[0]); close (sv[1]); return; }
    f.fd = sv[1];
    pthread_create (&th, NULL, reader, &f);
    m_msg_bind (m, sv[0]);
    e = m_msg_send (m, (m_msg_type_t) atoi (ts), atoi (ml));
    shutdown (sv[0], SHUT_WR);
    pthread_join (th, NULL);
    printf ("rc=%d err=%d pkt_len=%lu out=", (int) e, (int) m->error_num, (unsigned long) m->pkt_len);
    hx_print (f.b, f.n);
    putchar ('\n');
    free (f.b);
    m_msg_destroy (m);
    close (sv[1]);
}

static void do_seterr (char *seq) {
    m_msg_t m; char *save = NULL, *tok; int first = 1;
    if (m_msg_create (&m) != EMUNGE_SUCCESS) { puts ("bad-op"); return; }
    printf ("ret=");
    for (tok = strtok_r (seq, ",", &save); tok; tok = strtok_r (NULL, ",", &save)) {
        char *c = strchr (tok, ':'); char *s = NULL; int r;
        if (!c) { puts (" bad-op"); m_msg_destroy (m); return; }
        *c++ = 0;
        if (strcmp (c, "null")) {
            unsigned char *b; long n = hx_parse (c, &b);
            if (n < 0) { puts (" bad-op"); m_msg_destroy (m); return; }
            s = malloc (n + 1); memcpy (s, b, n); s[n] = 0; free (b);
        }
        r = m_msg_set_err (m, (munge_err_t) atoi (tok), s);
        printf ("%s%d", first ? "" : ",", r); first = 0;
    }
    printf (" error_num=%d error_len=%d error_str=", (int) m->error_num, (int) m->error_len);
    if (!m->error_str) fputs ("null", stdout);
    else hx_print ((unsigned char *) m->error_str, (long) strlen (m->error_str) + 1);
    putchar ('\n');
    m_msg_destroy (m);
}

static void do_reset (char **w, int nw) {
    m_msg_t m; void *keep1 = NULL, *keep2 = NULL;
    if (m_msg_create (&m) != EMUNGE_SUCCESS) { puts ("bad-op"); return; }
    if (set_fields (m, w, nw) < 0) { puts ("bad-op"); m_msg_destroy (m); return; }
    if (m->realm_is_copy) keep1 = m->realm_str;     /* then the block is ours, not the message's */
    if (m->data_is_copy) keep2 = m->data;
    m_msg_reset (m);
    printf ("reset");
    dump (m, 1);
    printf (" realm_is_copy=%d data_is_copy=%d\n", (int) m->realm_is_copy, (int) m->data_is_copy);
    m_msg_destroy (m);
    free (keep1); free (keep2);
}

int main (void) {
    char *line;
    while ((line = hx_getline (stdin))) {
        static char *w[80]; int n = hx_split (line, w, 80);
        if (n >= 3 && !strcmp (w[0], "wire") && !strcmp (w[1], "rt")) do_rt (w[2], w + 3, n - 3);
        else if (n == 4 && !strcmp (w[0], "wire") && !strcmp (w[1], "unpack")) do_unpack (w[2], w[3]);
        else if (n == 5 && !strcmp (w[0], "wire") && !strcmp (w[1], "recv")) do_recv (w[2], w[3], w[4]);
        else if (n >= 4 && !strcmp (w[0], "wire") && !strcmp (w[1], "send")) do_send (w[2], w[3], w + 4, n - 4);
        else if (n == 3 && !strcmp (w[0], "wire") && !strcmp (w[1], "seterr")) do_seterr (w[2]);
        else if (n >= 2 && !strcmp (w[0], "wire") && !strcmp (w[1], "reset")) do_reset (w + 2, n - 2);
        else if (n == 3 && !strcmp (w[0], "wire") && !strcmp (w[1], "limit")) puts ("ok");    /* malloc limit: set via ASAN_OPTIONS */
        else puts ("bad-op");
        fflush (stdout);
        free (line);
    }
    return 0;
}
