/* Correspondence harness for src/munged/base64.c (C19).  The real file is
 * #included so that the static tables are the ones the daemon uses. */
#include "hx.h"
#include "base64.c"

/* highest index (plus one) at which two runs with different fill bytes agree with
 * each other but differ from a fill: i.e. bytes actually written */
static long written (const unsigned char *a, const unsigned char *b, long cap) {
    long i, w = 0;
    for (i = 0; i < cap; i++)
        if (!(a[i] == 0xAA && b[i] == 0x55)) w = i + 1;
    return w;
}

static void do_enc (const char *h) {
    unsigned char *src, *d1, *d2; int n1 = -7, n2 = -7; long n = hx_parse (h, &src);
    long cap;
    if (n < 0) { puts ("bad-op"); return; }
    cap = base64_encode_length ((int) n);
    d1 = malloc (cap); d2 = malloc (cap);       /* exactly the advertised bound: ASan sees any excess */
    memset (d1, 0xAA, cap); memset (d2, 0x55, cap);
    base64_encode_block (d1, &n1, src, (int) n);
    base64_encode_block (d2, &n2, src, (int) n);
    printf ("out="); hx_print (d1, n1); printf (" w=%ld\n", written (d1, d2, cap));
    free (src); free (d1); free (d2);
}

static void do_dec (const char *h) {
    unsigned char *src, *d1, *d2; int n1 = -7, n2 = -7, rc; long n = hx_parse (h, &src);
    long cap;
    if (n < 0) { puts ("bad-op"); return; }
    cap = base64_decode_length ((int) n);
    d1 = malloc (cap); d2 = malloc (cap);
    memset (d1, 0xAA, cap); memset (d2, 0x55, cap);
    rc = base64_decode_block (d1, &n1, src, (int) n);
    base64_decode_block (d2, &n2, src, (int) n);
    printf ("rc=%d out=", rc); hx_print (d1, n1); printf (" w=%ld\n", written (d1, d2, cap));
    free (src); free (d1); free (d2);
}

static void do_encs (char *cs) {
    base64_ctx x; unsigned char *dst; long total = 0, cap, off = 0; int n;
    char *save = NULL, *tok; char *copy = strdup (cs);
    for (tok = strtok_r (copy, ",", &save); tok; tok = strtok_r (NULL, ",", &save)) {
        unsigned char *b; long k = hx_parse (tok, &b); if (k < 0) { puts ("bad-op"); free (copy); return; }
        total += k; free (b);
    }
    free (copy);
    cap = base64_encode_length ((int) total);
    dst = malloc (cap);
    base64_init (&x);
    for (tok = strtok_r (cs, ",", &save); tok; tok = strtok_r (NULL, ",", &save)) {
        unsigned char *b; long k = hx_parse (tok, &b);
        n = 0;
        base64_encode_update (&x, dst + off, &n, b, (int) k);
        off += n; free (b);
    }
    n = 0;
    base64_encode_final (&x, dst + off, &n);
    off += n;
    base64_cleanup (&x);
    printf ("out="); hx_print (dst, off); printf ("\n");
    free (dst);
}

static void do_decs (char *cs) {
    base64_ctx x; unsigned char *dst; long total = 0, cap, off = 0; int n, rc = 0;
    char *save = NULL, *tok; char *copy = strdup (cs);
    for (tok = strtok_r (copy, ",", &save); tok; tok = strtok_r (NULL, ",", &save)) {
        unsigned char *b; long k = hx_parse (tok, &b); if (k < 0) { puts ("bad-op"); free (copy); return; }
        total += k; free (b);
    }
    free (copy);
    cap = base64_decode_length ((int) total);
    dst = malloc (cap);
    base64_init (&x);
    for (tok = strtok_r (cs, ",", &save); tok; tok = strtok_r (NULL, ",", &save)) {
        unsigned char *b; long k = hx_parse (tok, &b);
        if (rc == 0) {
            n = 0;
            rc = base64_decode_update (&x, dst + off, &n, b, (int) k);
            off += n;
        }
        free (b);
    }
    if (rc == 0) { n = 0; rc = base64_decode_final (&x, dst + off, &n); }
    base64_cleanup (&x);
    printf ("rc=%d out=", rc); hx_print (dst, off); printf ("\n");
    free (dst);
}

int main (void) {
    char *line;
    while ((line = hx_getline (stdin))) {
        char *w[8]; int n = hx_split (line, w, 8);
        if (n == 3 && !strcmp (w[0], "b64") && !strcmp (w[1], "enc")) do_enc (w[2]);
        else if (n == 3 && !strcmp (w[0], "b64") && !strcmp (w[1], "dec")) do_dec (w[2]);
        else if (n == 3 && !strcmp (w[0], "b64") && !strcmp (w[1], "encs")) do_encs (w[2]);
        else if (n == 3 && !strcmp (w[0], "b64") && !strcmp (w[1], "decs")) do_decs (w[2]);
        else if (n == 3 && !strcmp (w[0], "b64") && !strcmp (w[1], "elen")) printf ("%d\n", base64_encode_length (atoi (w[2])));
        else if (n == 3 && !strcmp (w[0], "b64") && !strcmp (w[1], "dlen")) printf ("%d\n", base64_decode_length (atoi (w[2])));
        else puts ("bad-op");
        fflush (stdout);
        free (line);
    }
    return 0;
}
