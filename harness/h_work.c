/* Correspondence harness for src/munged/work.c (C12).
 *
 * Links the real work.c.  Every thread that work.c creates, plus one thread M playing job_accept (it calls
 * work_queue / work_wait / work_fini), runs under a controller that lets exactly one thread run at a time and only
 * between "gates": pthread_mutex_lock (start of a critical section), pthread_cond_wait (blocked), the instrumented
 * work_func (item in progress), M's pthread_cond_signal, each pthread_cancel, the first pthread_join.  The schedule
 * is therefore forced completely by the scenario line -- no sleeps; time-outs only turn a hang into a reported outcome.
 * Condition variables are emulated with the textbook semantics (a signal wakes one blocked thread, chosen by the
 * scenario; the scenario may also wake a blocked thread spuriously).  Cancellation is the real glibc one
 * (pthread_cancel / pthread_setcancelstate / pthread_testcancel are the real functions); the gates mask it while a
 * thread is parked, so that it acts exactly at the program's own cancellation points: pthread_testcancel,
 * pthread_cond_wait, and a pthread_testcancel() inside work_func standing for the blocking I/O of _job_exec.
 * Linked with -Wl,--wrap=pthread_create,--wrap=pthread_mutex_lock,--wrap=pthread_cond_wait,--wrap=pthread_cond_signal,
 * --wrap=pthread_cond_broadcast,--wrap=pthread_cancel,--wrap=pthread_join.
 *
 * Line protocol: see lean/Driver/Work.lean (`work run <n> <prog> <sched>`).  One forked child per line. */
#define _GNU_SOURCE
#include "hx.h"
#include <errno.h>
#include <poll.h>
#include <pthread.h>
#include <semaphore.h>
#include <signal.h>
#include <stdarg.h>
#include <sys/wait.h>
#include <time.h>
#include <unistd.h>
#include "work.h"

/* ---- log stubs (log.c is not linked) */
static int n_log_err;
void log_msg (int priority, const char *format, ...) { (void) priority; (void) format; }
void log_errno (int status, int priority, const char *format, ...) {
    (void) status; (void) priority; n_log_err++; fprintf (stderr, "h_work: log_errno: %s (errno %d)\n", format, errno); }
void log_err (int status, int priority, const char *format, ...) {
    (void) status; (void) priority; n_log_err++; fprintf (stderr, "h_work: log_err: %s\n", format); }

int __real_pthread_create (pthread_t *, const pthread_attr_t *, void *(*) (void *), void *);
int __real_pthread_mutex_lock (pthread_mutex_t *);
int __real_pthread_cond_wait (pthread_cond_t *, pthread_mutex_t *);
int __real_pthread_cond_signal (pthread_cond_t *);
int __real_pthread_cond_broadcast (pthread_cond_t *);
int __real_pthread_cancel (pthread_t);
int __real_pthread_join (pthread_t, void **);

#define MAXW 64
#define MAXI 4096
enum { T_NEW, T_RUNNING, G_LOCK, G_FUNC, G_CWAIT, G_SIGNAL, G_CANCEL, G_JOIN, T_LOCKHELD, T_EXITED, T_DONE };

struct thr {
    pthread_t tid; int idx; sem_t go; volatile int st;
    void *cond; volatile int woken; int skip_lock_gate; volatile int cancel_req; int join_started;
    void *(*fn) (void *); void *arg;
};
struct item { int started, finished; };

static struct thr W[MAXW], M;
static int nW, creating;
static sem_t ctl;
static __thread struct thr *self;
static struct item items[MAXI];
static int n_items, n_accepted, null_work, fini_done, sel_signal;
static work_p wp;
static char prog[MAXI][4]; static int n_prog;
static char rets[8192];

static void gate (struct thr *t, int kind) {
    int old;
    t->st = kind;
    sem_post (&ctl);
    pthread_setcancelstate (PTHREAD_CANCEL_DISABLE, &old);
    while (sem_wait (&t->go) == -1 && errno == EINTR) ;
    pthread_setcancelstate (old, NULL);
    t->st = T_RUNNING;
}

static void on_exit_thread (void *a) { struct thr *t = a; t->st = T_EXITED; sem_post (&ctl); }

static void *tramp (void *a) {
    struct thr *t = a; void *r;
    self = t;
    pthread_cleanup_push (on_exit_thread, t);
    r = t->fn (t->arg);
    pthread_cleanup_pop (1);
    return r;
}

int __wrap_pthread_create (pthread_t *tid, const pthread_attr_t *attr, void *(*fn) (void *), void *arg) {
    struct thr *t; int rc;
    if (!creating || nW >= MAXW) return __real_pthread_create (tid, attr, fn, arg);
    t = &W[nW]; t->idx = nW; nW++;
    t->fn = fn; t->arg = arg; t->st = T_NEW; sem_init (&t->go, 0, 0);
    rc = __real_pthread_create (tid, attr, tramp, t);
    t->tid = *tid;
    return rc;
}

/* acquire the mutex for the one running thread; if a parked thread holds it, it can never be released: report that */
static int acquire (pthread_mutex_t *m) {
    if (pthread_mutex_trylock (m) == 0) return 0;
    self->st = T_LOCKHELD; sem_post (&ctl);
    return __real_pthread_mutex_lock (m);
}

int __wrap_pthread_mutex_lock (pthread_mutex_t *m) {
    if (!self) return __real_pthread_mutex_lock (m);
    if (self->skip_lock_gate) self->skip_lock_gate = 0;
    else gate (self, G_LOCK);
    return acquire (m);
}

int __wrap_pthread_cond_wait (pthread_cond_t *c, pthread_mutex_t *m) {
    if (!self) return __real_pthread_cond_wait (c, m);
    self->cond = c; self->woken = 0;
    pthread_mutex_unlock (m);
    gate (self, G_CWAIT);
    self->cond = NULL;
    acquire (m);                        /* a cancelled wait re-acquires the mutex before the handlers run */
    pthread_testcancel ();              /* pthread_cond_wait is a cancellation point */
    return 0;
}

static int wake (void *c, int sel, int all) {
    struct thr *cand[MAXW + 1]; int n = 0, i;
    for (i = 0; i < nW; i++) if (W[i].st == G_CWAIT && W[i].cond == c && !W[i].woken) cand[n++] = &W[i];
    if (M.st == G_CWAIT && M.cond == c && !M.woken) cand[n++] = &M;
    if (!n) return 0;
    if (all) { for (i = 0; i < n; i++) cand[i]->woken = 1; return n; }
    cand[sel % n]->woken = 1;
    return 1;
}

int __wrap_pthread_cond_signal (pthread_cond_t *c) {
    if (!self) return __real_pthread_cond_signal (c);
    if (self == &M) gate (self, G_SIGNAL);
    wake (c, self == &M ? sel_signal : 0, 0);
    return 0;
}

int __wrap_pthread_cond_broadcast (pthread_cond_t *c) {
    if (!self) return __real_pthread_cond_broadcast (c);
    if (self == &M) gate (self, G_SIGNAL);
    wake (c, 0, 1);
    return 0;
}

int __wrap_pthread_cancel (pthread_t t) {
    int i;
    if (self == &M) gate (self, G_CANCEL);
    for (i = 0; i < nW; i++) if (pthread_equal (W[i].tid, t)) W[i].cancel_req = 1;
    return __real_pthread_cancel (t);
}

int __wrap_pthread_join (pthread_t t, void **res) {
    if (self == &M && !M.join_started) { M.join_started = 1; gate (self, G_JOIN); }
    return __real_pthread_join (t, res);
}

/* ---- the instrumented work function */
static void work_func (void *arg) {
    struct item *it = arg;
    if (!it) { null_work = 1; self->skip_lock_gate = 1; return; }
    it->started++;
    gate (self, G_FUNC);
    pthread_testcancel ();              /* _job_exec blocks in read/write: cancellation points */
    it->finished++;
    self->skip_lock_gate = 1;
}

static void snapshot (const char *tag) {
    int i, s = 0, f = 0; char b[64];
    for (i = 0; i < n_items; i++) { s += items[i].started; f += items[i].finished; }
    snprintf (b, sizeof b, "%s%s:%d/%d", rets[0] ? ";" : "", tag, n_accepted - s, s - f);
    strncat (rets, b, sizeof rets - strlen (rets) - 1);
}

static void *main_thread (void *a) {
    int i;
    (void) a;
    self = &M;
    for (i = 0; i < n_prog; i++) {
        if (prog[i][0] == 'q') {
            struct item *it = &items[n_items++];
            if (work_queue (wp, it) == 0) n_accepted++;
        }
        else if (prog[i][0] == 'w') { work_wait (wp); snapshot ("w"); }
        else { work_fini (wp, prog[i][1] == '1'); snapshot ("f"); fini_done = 1; break; }
    }
    M.st = T_DONE;
    sem_post (&ctl);
    return NULL;
}

/* ---- controller */
static const char *fail;        /* set when the run cannot continue */

static int wait_report (void) {
    struct timespec ts;
    clock_gettime (CLOCK_REALTIME, &ts);
    ts.tv_sec += 4;
    while (sem_timedwait (&ctl, &ts) == -1) {
        if (errno == EINTR) continue;
        fail = "hang";
        return -1;
    }
    return 0;
}

static int all_exited (void) { int i; for (i = 0; i < nW; i++) if (W[i].st != T_EXITED) return 0; return 1; }

static int run_thread (struct thr *t) {
    sem_post (&t->go);
    if (wait_report () < 0) return -1;
    if (t->st == T_LOCKHELD) { fail = "lockheld"; return -1; }
    if (null_work) { fail = "crash"; return -1; }
    return 0;
}

static int main_enabled (void) {
    if (M.st == T_DONE) return 0;
    if (M.st == G_JOIN) return all_exited ();
    return M.st == G_LOCK || M.st == G_SIGNAL || M.st == G_CWAIT || M.st == G_CANCEL;
}
static int main_ready (void) {
    if (M.st == G_CWAIT) return M.woken;
    return main_enabled ();
}
static int wrk_enabled (int k) {
    return k >= 0 && k < nW && (W[k].st == G_LOCK || W[k].st == G_CWAIT || W[k].st == G_FUNC);
}
static int wrk_ready (int k) {
    if (!wrk_enabled (k)) return 0;
    if (W[k].st == G_CWAIT) return W[k].woken || W[k].cancel_req;
    return 1;
}

static void scenario (int n, char *progs, char *sched, FILE *out) {
    static char acts[65536]; int na = 0, i, fuel; const char *end = NULL;
    char *save = NULL, *tok;
    sem_init (&ctl, 0, 0); sem_init (&M.go, 0, 0);
    if (strcmp (progs, "-"))
        for (tok = strtok_r (progs, ",", &save); tok && n_prog < MAXI - 1; tok = strtok_r (NULL, ",", &save)) {
            strncpy (prog[n_prog], tok, 3); n_prog++;
        }
    creating = 1;
    wp = work_init (work_func, n);
    creating = 0;
    if (!wp) { fprintf (out, "bad-op\n"); return; }
    for (i = 0; i < n && !fail; i++) wait_report ();
    if (!fail) { pthread_t t; __real_pthread_create (&t, NULL, main_thread, NULL); M.tid = t; wait_report (); }
    save = NULL;
    if (!fail && strcmp (sched, "-"))
        for (tok = strtok_r (sched, ",", &save); tok && !fail; tok = strtok_r (NULL, ",", &save)) {
            int ok = 0;
            if (tok[0] == 'm') {
                if (main_enabled ()) { sel_signal = tok[1] ? atoi (tok + 1) : 0; ok = 1; run_thread (&M); }
            } else {
                int k = atoi (tok);
                if (wrk_enabled (k)) { ok = 1; run_thread (&W[k]); }
            }
            if (na < (int) sizeof acts - 1) acts[na++] = ok ? '.' : 'x';
        }
    acts[na] = 0;
    for (fuel = 100000; !fail && !end; fuel--) {
        if (!fuel) { end = "fuel"; break; }
        if (main_ready ()) { sel_signal = 0; run_thread (&M); continue; }
        for (i = 0; i < nW; i++) if (wrk_ready (i)) break;
        if (i < nW) { run_thread (&W[i]); continue; }
        end = (M.st == T_DONE) ? (fini_done ? "done" : "open") : "deadlock";
    }
    if (fail) end = fail;
    fprintf (out, "acts=%s rets=%s runs=", na ? acts : "-", rets[0] ? rets : "-");
    if (!n_items) fputs ("-", out);
    for (i = 0; i < n_items; i++) fprintf (out, "%s%d", i ? "," : "", items[i].finished);
    fputs (" taken=", out);
    if (!n_items) fputs ("-", out);
    for (i = 0; i < n_items; i++) fprintf (out, "%s%d", i ? "," : "", items[i].started);
    fprintf (out, " end=%s%s\n", end, n_log_err ? "+logerr" : "");
}

int main (void) {
    char *line; int n_hang = 0;
    setvbuf (stdout, NULL, _IOLBF, 0);
    while ((line = hx_getline (stdin))) {
        char *w[8]; int nw = hx_split (line, w, 8), n;
        if (nw != 5 || strcmp (w[0], "work") || strcmp (w[1], "run") || (n = atoi (w[2])) < 1 || n > MAXW) {
            puts ("bad-op"); free (line); continue;
        }
        if (n_hang >= 3) { puts ("end=skipped-after-3-hangs"); free (line); continue; }
        {
            int pfd[2]; pid_t pid; char buf[70000]; size_t got = 0; int status = 0; struct pollfd p;
            time_t t0 = time (NULL);
            fflush (stdout);
            if (pipe (pfd) < 0) { puts ("end=pipe-failed"); free (line); continue; }
            pid = fork ();
            if (pid == 0) {
                FILE *out = fdopen (pfd[1], "w");
                close (pfd[0]);
                scenario (n, w[3], w[4], out);
                fflush (out);
                HX_COV_DUMP (); _exit (0);
            }
            close (pfd[1]);
            p.fd = pfd[0]; p.events = POLLIN;
            for (;;) {
                int left = 30 - (int) (time (NULL) - t0), r;
                if (left <= 0) break;
                r = poll (&p, 1, left * 1000);
                if (r < 0 && errno == EINTR) continue;
                if (r <= 0) break;
                { ssize_t k = read (pfd[0], buf + got, sizeof buf - 1 - got); if (k <= 0) break; got += (size_t) k; }
                if (got && buf[got - 1] == '\n') break;
            }
            close (pfd[0]);
            buf[got] = 0;
            if (!got || buf[got - 1] != '\n') {
                kill (pid, SIGKILL);
                waitpid (pid, &status, 0);
                if (time (NULL) - t0 >= 30) { puts ("end=hang"); n_hang++; }
                else printf ("end=died:%d\n", WIFEXITED (status) ? WEXITSTATUS (status) : 1000 + WTERMSIG (status));
            } else {
                kill (pid, SIGKILL);        /* the child is done; its remaining threads are not interesting */
                waitpid (pid, &status, 0);
                fputs (buf, stdout);
                if (strstr (buf, "end=hang")) n_hang++;
            }
        }
        free (line);
    }
    return 0;
}
