/* Translation validation for Gen/Job.lean (C12, acceptor side): the REAL job_accept() of src/munged/job.c
 * (#included) runs its accept loop against a script.  Replaced environment, munge untouched: accept () and time () (their
 * results come from the script), the work crew (work_init / work_queue / work_wait / work_fini record what they are
 * asked), m_msg_create / m_msg_bind / m_msg_destroy, fd_set_nonblocking, close, gids_update, logging.  Every call is
 * printed in order; a new trip starts at each accept ().
 *
 *   job run gr:ra:errno:time:rn:rc:rb:rq ...   ->  <every call of all trips, in order, `;`-separated> fini=<do_wait>
 *
 * After the last scripted trip accept () raises got_terminate and fails with EINTR, so the loop ends and work_fini runs
 * (its do_wait argument is the fini= field).  log_msg calls are not recorded (neither does the model). */
#include "hx.h"
#include <errno.h>
#include <signal.h>
#include <stdarg.h>
#include <sys/socket.h>
#include <time.h>

struct trip { int gr, ra, e; long t; int rn, rc, rb, rq; };
static struct trip g_trips[256]; static int g_ntrips, g_cur;
static char g_out[65536]; static size_t g_len;
static int g_queued_flag;            /* did the current trip reach the end of the body (no `continue`)?  not observable from
                                        outside the function: the trailing :<ret> of the model is dropped by the comparison */
static int g_fini_arg = -1;
static void ev (const char *fmt, ...) {
    va_list ap; va_start (ap, fmt);
    if (g_len && g_out[g_len - 1] != ' ') g_out[g_len++] = ';';
    g_len += vsnprintf (g_out + g_len, sizeof (g_out) - g_len, fmt, ap);
    va_end (ap);
}

volatile sig_atomic_t got_reconfig = 0;
volatile sig_atomic_t got_terminate = 0;

/* the environment job.c sees */
#define accept hx_accept
#define time hx_time
#define close hx_close
static int hx_accept (int fd, struct sockaddr *a, socklen_t *l) {
    struct trip *t;
    g_cur++;
    if (g_cur >= g_ntrips) { got_terminate = 1; errno = EINTR; return -1; }
    t = &g_trips[g_cur];
    ev ("accept()");
    if (g_cur + 1 < g_ntrips) got_reconfig = g_trips[g_cur + 1].gr; else got_reconfig = 0;
    if (t->ra < 0) { errno = t->e; return -1; }
    return t->ra;
}
static time_t hx_time (time_t *p) { return (time_t) g_trips[g_cur].t; }
static int hx_close (int fd) { ev ("close(%d)", fd); return 0; }

#include "work.h"
#include "m_msg.h"
#include "gids.h"
#include "log.h"
work_p work_init (work_func_t f, int n) { return (work_p) 1; }
void work_fini (work_p w, int do_wait) { g_fini_arg = do_wait; }
int work_queue (work_p w, void *work) { ev ("work_queue()"); return g_trips[g_cur].rq; }
void work_wait (work_p w) { ev ("work_wait()"); }
munge_err_t m_msg_create (m_msg_t *pm) { ev ("m_msg_create()"); *pm = (m_msg_t) 1; return (munge_err_t) g_trips[g_cur].rc; }
void m_msg_destroy (m_msg_t m) { ev ("m_msg_destroy()"); }
munge_err_t m_msg_bind (m_msg_t m, int sd) { return (munge_err_t) g_trips[g_cur].rb; }
munge_err_t m_msg_recv (m_msg_t m, m_msg_type_t type, int maxlen) { return EMUNGE_SNAFU; }
int m_msg_set_err (m_msg_t m, munge_err_t e, char *s) { return 0; }
int fd_set_nonblocking (int fd) { return g_trips[g_cur].rn; }
void gids_update (gids_t g) { ev ("gids_update()"); }
void log_msg (int priority, const char *format, ...) { }
void log_errno (int status, int priority, const char *format, ...) { if (g_cur >= 0 && g_cur < g_ntrips) ev ("log_errno()"); }
int enc_process_msg (m_msg_t m) { return 0; }
int dec_process_msg (m_msg_t m) { return 0; }
char *strdupf (const char *fmt, ...) { return NULL; }

#include "src/munged/job.c"
#undef accept
#undef time
#undef close

int main (void) {
    char *line;
    struct conf c; memset (&c, 0, sizeof (c)); c.ld = 3; c.nthreads = 2;
    while ((line = hx_getline (stdin))) {
        char **w = malloc (300 * sizeof (char *)); int n = hx_split (line, w, 300), i, ok = 1;
        if (n >= 2 && !strcmp (w[0], "job") && !strcmp (w[1], "run") && n - 2 <= 256) {
            g_ntrips = 0;
            for (i = 2; i < n && ok; i++) {
                struct trip *t = &g_trips[g_ntrips];
                if (sscanf (w[i], "%d:%d:%d:%ld:%d:%d:%d:%d", &t->gr, &t->ra, &t->e, &t->t, &t->rn, &t->rc, &t->rb, &t->rq) != 8) ok = 0;
                else g_ntrips++;
            }
            if (!ok) puts ("bad-op");
            else {
                g_cur = -1; g_len = 0; g_out[0] = 0; g_fini_arg = -1; got_terminate = 0;
                got_reconfig = g_ntrips ? g_trips[0].gr : 0;
                job_accept (&c);
                g_out[g_len] = 0;
                printf ("%s fini=%d\n", g_out, g_fini_arg);
            }
        }
        else puts ("bad-op");
        fflush (stdout);
        free (w); free (line);
    }
    return 0;
}
