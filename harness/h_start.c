/* C15 canary client: one encode + decode round trip through the real libmunge against the daemon listening on
 * argv[1].  Prints "ok" or "err <code> <message>"; exit status 0 / 1.  (Observation point of the binary layer of
 * tools/props/c15.py: "the survivor still answers".) */
#include <stdio.h>
#include <stdlib.h>
#include <string.h>
#include <munge.h>

int main (int argc, char *argv[])
{
    munge_ctx_t ctx;
    munge_err_t e;
    char *cred = NULL;
    void *buf = NULL;
    int len = 0;
    uid_t uid;
    gid_t gid;

    if (argc < 2) {
        fprintf (stderr, "usage: h_start <socket>\n");
        return 2;
    }
    ctx = munge_ctx_create ();
    if (!ctx) {
        printf ("err -1 no context\n");
        return 1;
    }
    e = munge_ctx_set (ctx, MUNGE_OPT_SOCKET, argv[1]);
    if (e == EMUNGE_SUCCESS)
        e = munge_encode (&cred, ctx, "canary", 6);
    if (e == EMUNGE_SUCCESS)
        e = munge_decode (cred, ctx, &buf, &len, &uid, &gid);
    if (e != EMUNGE_SUCCESS) {
        printf ("err %d %s\n", (int) e, munge_ctx_strerror (ctx) ? munge_ctx_strerror (ctx) : munge_strerror (e));
        return 1;
    }
    if (len != 6 || memcmp (buf, "canary", 6) != 0) {
        printf ("err -2 payload mismatch\n");
        return 1;
    }
    printf ("ok\n");
    free (cred);
    free (buf);
    munge_ctx_destroy (ctx);
    return 0;
}
