/* Toy primitives with the API of src/common/mac.h, src/munged/cipher.h and of the zlib / bzlib
 * entry points that src/munged/zip.c calls.  They are byte-for-byte twins of
 * lean/Munge/Model/ToyPrims.lean, so that a harness linked with them (instead of mac.c, cipher.c,
 * -lz, -lbz2) must agree exactly with the Lean model on every credential and reply.
 * They have no cryptographic value whatsoever. */
#include <stdlib.h>
#include <string.h>
#include <munge.h>
#include "mac.h"
#include "cipher.h"

/* fault injection (h_cred `pfail=<k>`): the k-th primitive call of the current request fails.  0 = never (the Lean twins have
 * no failing primitive; streams that use this are judged by the property oracle alone). */
__thread int toy_fail_at = 0, toy_calls = 0;     /* per thread: the request harness runs _job_exec on its own thread; the multi-threaded harness (C11, TSan) must not share a counter */
#define TOY_TICK(failval) do { if (++toy_calls == toy_fail_at) return (failval); } while (0)

/* ---------------------------------------------------------------- MAC */
typedef struct { int n; unsigned long cnt; unsigned char h[64]; } toy_mac;

static int toy_mac_len (int md) {
    switch (md) {
        case MUNGE_MAC_MD5: return 16;
        case MUNGE_MAC_SHA1: return 20;
        case MUNGE_MAC_RIPEMD160: return 20;
        case MUNGE_MAC_SHA256: return 32;
        case MUNGE_MAC_SHA512: return 64;
    }
    return -1;
}
static void toy_absorb (toy_mac *t, unsigned char b) {
    int j = (int) (t->cnt % (unsigned long) t->n);
    t->h[j] = (unsigned char) (t->h[j] * 5 + b + t->h[(j + 1) % t->n] + (unsigned char) (t->cnt & 0xff));
    t->cnt++;
}
int mac_map_enum (munge_mac_t md, void *dst) { return (toy_mac_len (md) > 0) ? 0 : -1; }
int mac_size (munge_mac_t md) { return toy_mac_len (md); }
int mac_init (mac_ctx *x, munge_mac_t md, const void *key, int keylen) { TOY_TICK (-1);
    toy_mac *t; int i, n = toy_mac_len (md);
    if (!x || !key || keylen < 0 || n < 0) return -1;
    t = malloc (sizeof *t);
    t->n = n; t->cnt = 0;
    for (i = 0; i < n; i++) t->h[i] = (unsigned char) (md * 37 + i * 11 + 1);
    for (i = 0; i < keylen; i++) toy_absorb (t, ((const unsigned char *) key)[i]);
    toy_absorb (t, 0xA5);
    x->ctx = (void *) t; x->diglen = n;
    return 0;
}
int mac_update (mac_ctx *x, const void *src, int srclen) { TOY_TICK (-1);
    int i; toy_mac *t;
    if (!x || !x->ctx || !src || srclen < 0) return -1;
    t = (toy_mac *) x->ctx;
    for (i = 0; i < srclen; i++) toy_absorb (t, ((const unsigned char *) src)[i]);
    return 0;
}
int mac_final (mac_ctx *x, void *dst, int *dstlenp) { TOY_TICK (-1);
    int r; toy_mac *t;
    if (!x || !x->ctx || !dst || !dstlenp) return -1;
    t = (toy_mac *) x->ctx;
    if (*dstlenp < t->n) return -1;
    for (r = 0; r < 2 * t->n; r++) toy_absorb (t, t->h[r % t->n]);
    memcpy (dst, t->h, t->n);
    *dstlenp = t->n;
    return 0;
}
int mac_cleanup (mac_ctx *x) {
    if (!x) return -1;
    free (x->ctx); x->ctx = NULL;
    return 0;
}
int mac_block (munge_mac_t md, const void *key, int keylen, void *dst, int *dstlenp, const void *src, int srclen) {
    mac_ctx x;
    if (mac_init (&x, md, key, keylen) < 0) return -1;
    if (mac_update (&x, src, srclen) < 0 || mac_final (&x, dst, dstlenp) < 0) { mac_cleanup (&x); return -1; }
    return mac_cleanup (&x);
}

/* ---------------------------------------------------------------- cipher (CBC over a toy block function) */
typedef struct { int blk, klen, enc; long len, cap; unsigned char key[32], iv[16]; unsigned char *buf; } toy_cipher;

static int toy_blk (int c) {
    switch (c) {
        case MUNGE_CIPHER_BLOWFISH: case MUNGE_CIPHER_CAST5: return 8;
        case MUNGE_CIPHER_AES128: case MUNGE_CIPHER_AES256: return 16;
    }
    return -1;
}
static int toy_klen (int c) {
    switch (c) {
        case MUNGE_CIPHER_BLOWFISH: case MUNGE_CIPHER_CAST5: case MUNGE_CIPHER_AES128: return 16;
        case MUNGE_CIPHER_AES256: return 32;
    }
    return -1;
}
void cipher_init_subsystem (void) {}
int cipher_map_enum (munge_cipher_t c, void *dst) { return (toy_blk (c) > 0) ? 0 : -1; }
int cipher_block_size (munge_cipher_t c) { return toy_blk (c); }
int cipher_iv_size (munge_cipher_t c) { return toy_blk (c); }
int cipher_key_size (munge_cipher_t c) { return toy_klen (c); }
int cipher_init (cipher_ctx *x, munge_cipher_t c, unsigned char *key, unsigned char *iv, int enc) { TOY_TICK (-1);
    toy_cipher *t;
    if (!x || !key || !iv || toy_blk (c) < 0) return -1;
    t = calloc (1, sizeof *t);
    t->blk = toy_blk (c); t->klen = toy_klen (c); t->enc = enc;
    memcpy (t->key, key, t->klen); memcpy (t->iv, iv, t->blk);
    x->ctx = (void *) t;
    return 0;
}
/* all input is buffered by update (which outputs nothing); final produces everything */
int cipher_update (cipher_ctx *x, void *dst, int *dstlenp, const void *src, int srclen) { TOY_TICK (-1);
    toy_cipher *t;
    if (!x || !x->ctx || !dst || !dstlenp || *dstlenp < 0 || !src || srclen < 0) return -1;
    t = (toy_cipher *) x->ctx;
    if (t->len + srclen > t->cap) { t->cap = (t->len + srclen) * 2 + 16; t->buf = realloc (t->buf, t->cap); }
    if (srclen > 0) memcpy (t->buf + t->len, src, srclen);
    t->len += srclen;
    *dstlenp = 0;
    return 0;
}
static void toy_E (toy_cipher *t, unsigned char *b) {
    int i; for (i = 0; i < t->blk; i++) b[i] = (unsigned char) ((b[i] ^ t->key[i % t->klen]) + (i + 1));
}
static void toy_D (toy_cipher *t, unsigned char *b) {
    int i; for (i = 0; i < t->blk; i++) b[i] = (unsigned char) ((unsigned char) (b[i] - (i + 1)) ^ t->key[i % t->klen]);
}
int cipher_final (cipher_ctx *x, void *vdst, int *dstlenp) { TOY_TICK (-1);
    toy_cipher *t; unsigned char *dst = vdst; unsigned char prev[16], cur[16], blkbuf[16]; long off, nblk, cap; int i, pad;
    if (!x || !x->ctx || !dst || !dstlenp || *dstlenp < 0) return -1;
    t = (toy_cipher *) x->ctx;
    cap = *dstlenp;
    memcpy (prev, t->iv, t->blk);
    if (t->enc) {
        long total = (t->len / t->blk + 1) * t->blk;
        if (total > *dstlenp) return -1;
        pad = (int) (total - t->len);
        for (off = 0; off < total; off += t->blk) {
            for (i = 0; i < t->blk; i++) {
                unsigned char p = (off + i < t->len) ? t->buf[off + i] : (unsigned char) pad;
                blkbuf[i] = p ^ prev[i];
            }
            toy_E (t, blkbuf);
            memcpy (dst + off, blkbuf, t->blk);
            memcpy (prev, blkbuf, t->blk);
        }
        *dstlenp = (int) total;
        return 0;
    }
    /* decrypt: like OpenSSL, complete blocks except a held-back last one are released even on failure */
    nblk = t->len / t->blk;
    {
        long release = (t->len % t->blk == 0) ? (nblk > 0 ? nblk - 1 : 0) : nblk;
        long outn = 0;
        if (release * t->blk > *dstlenp) return -1;
        for (off = 0; off < release * t->blk; off += t->blk) {
            memcpy (cur, t->buf + off, t->blk);
            memcpy (blkbuf, cur, t->blk);
            toy_D (t, blkbuf);
            for (i = 0; i < t->blk; i++) dst[outn + i] = blkbuf[i] ^ prev[i];
            memcpy (prev, cur, t->blk);
            outn += t->blk;
        }
        *dstlenp = (int) outn;
        if (t->len == 0 || t->len % t->blk != 0) return -1;
        memcpy (cur, t->buf + off, t->blk);
        memcpy (blkbuf, cur, t->blk);
        toy_D (t, blkbuf);
        for (i = 0; i < t->blk; i++) blkbuf[i] ^= prev[i];
        pad = blkbuf[t->blk - 1];
        if (pad < 1 || pad > t->blk) return -1;
        for (i = 0; i < pad; i++) if (blkbuf[t->blk - 1 - i] != pad) return -1;
        if (outn + t->blk - pad > cap) return -1;
        memcpy (dst + outn, blkbuf, t->blk - pad);
        *dstlenp = (int) (outn + t->blk - pad);
        return 0;
    }
}
int cipher_cleanup (cipher_ctx *x) {
    toy_cipher *t;
    if (!x) return -1;
    t = (toy_cipher *) x->ctx;
    if (t) { free (t->buf); free (t); }
    x->ctx = NULL;
    return 0;
}

/* ---------------------------------------------------------------- zlib / bzlib back ends (tagged RLE) */
static long toy_rle (unsigned char *dst, const unsigned char *src, long n) {
    long i = 0, o = 0;
    while (i < n) {
        long run = 1;
        while (i + run < n && src[i + run] == src[i] && run < 255) run++;
        dst[o++] = (unsigned char) run; dst[o++] = src[i];
        i += run;
    }
    return o;
}
static int toy_deflate (unsigned char tag0, unsigned char *dst, unsigned long *dstlen, const unsigned char *src, unsigned long n) {
    unsigned char *tmp = malloc (2 * n + 2); long r = toy_rle (tmp, src, (long) n); int rc = 0;
    if ((unsigned long) r < n) {
        if ((unsigned long) r + 1 > *dstlen) rc = -5;
        else { dst[0] = tag0 + 1; memcpy (dst + 1, tmp, r); *dstlen = r + 1; }
    }
    else {
        if (n + 1 > *dstlen) rc = -5;
        else { dst[0] = tag0; memcpy (dst + 1, src, n); *dstlen = n + 1; }
    }
    free (tmp);
    return rc;
}
static int toy_inflate (unsigned char tag0, unsigned char *dst, unsigned long *dstlen, const unsigned char *src, unsigned long n) {
    unsigned long o = 0, i;
    if (n < 1) return -3;
    if (src[0] == tag0) {
        if (n - 1 > *dstlen) return -5;
        memcpy (dst, src + 1, n - 1); *dstlen = n - 1; return 0;
    }
    if (src[0] != tag0 + 1) return -3;
    if ((n - 1) % 2) return -3;
    for (i = 1; i < n; i += 2) {
        unsigned long run = src[i], k;
        if (run == 0) return -3;
        if (o + run > *dstlen) return -5;
        for (k = 0; k < run; k++) dst[o++] = src[i + 1];
    }
    *dstlen = o;
    return 0;
}
int compress (unsigned char *dest, unsigned long *destLen, const unsigned char *source, unsigned long sourceLen) { TOY_TICK (-4);
    return toy_deflate (0x00, dest, destLen, source, sourceLen);
}
int uncompress (unsigned char *dest, unsigned long *destLen, const unsigned char *source, unsigned long sourceLen) { TOY_TICK (-4);
    return toy_inflate (0x00, dest, destLen, source, sourceLen);
}
int BZ2_bzBuffToBuffCompress (char *dest, unsigned int *destLen, char *source, unsigned int sourceLen, int b, int v, int w) { TOY_TICK (-3);
    unsigned long dl = *destLen; int rc = toy_deflate (0x10, (unsigned char *) dest, &dl, (unsigned char *) source, sourceLen);
    *destLen = (unsigned int) dl; return rc;
}
int BZ2_bzBuffToBuffDecompress (char *dest, unsigned int *destLen, char *source, unsigned int sourceLen, int s, int v) { TOY_TICK (-3);
    unsigned long dl = *destLen; int rc = toy_inflate (0x10, (unsigned char *) dest, &dl, (unsigned char *) source, sourceLen);
    *destLen = (unsigned int) dl; return rc;
}
