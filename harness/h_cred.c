/* Credential / request harness (C01 C02 C03 C04 C06 C08 C09 C10 C13 and kernel translation validation).
 *
 * The real job.c, dec.c and enc.c are #included (one TU, statics reachable); m_msg.c, fd.c, str.c,
 * cred.c, base64.c, replay.c, hash.c, auth_recv.c, zip.c and libmunge/strerror.c are linked as is.
 * Variant TOY  (-DHC_TOY): mac_* / cipher_* / zlib / bzlib come from toy_prims.c.
 * Variant REAL            : mac.c md.c crypto.c cipher.c + -lcrypto -lz -lbz2.
 * The environment is replaced here: time(), getsockopt(SO_PEERCRED), random_pseudo_bytes/add,
 * gids_is_member, timer_set_relative, logging, the work queue, and the global conf.
 *
 * A request is executed exactly as the daemon does: the raw bytes are written to one end of a
 * socketpair and the real _job_exec() (m_msg_recv -> enc/dec_process_msg -> m_msg_send ->
 * m_msg_destroy) runs on the other end; everything the "client" end receives is printed. */
#define _GNU_SOURCE
#include "hx.h"
#include <dlfcn.h>
#include <errno.h>
#include <pthread.h>
#include <signal.h>
#include <stdarg.h>
#include <sys/socket.h>
#include <sys/types.h>
#include <time.h>
#include <unistd.h>
#include <sanitizer/lsan_interface.h>

/* ---- scripted environment ------------------------------------------------------------- */
static long            g_now = 1000000;      /* value returned by time(); -1 = failure        */
static int             g_peer_fail = 0;
static unsigned int    g_peer_uid = 1000, g_peer_gid = 1000;
static unsigned char   g_rnd[64]; static int g_rnd_len = 0, g_rnd_pos = 0;
static unsigned int    g_mem[64][2]; static int g_nmem = 0;     /* (uid,gid) membership pairs  */
static int             g_ins_scripted = 0, g_ins_ret = 0, g_ins_errno = 0;
static int             g_random_add_calls = 0;

time_t time (time_t *t) { if (t) *t = (time_t) g_now; return (time_t) g_now; }

int getsockopt (int fd, int level, int optname, void *optval, socklen_t *optlen) {
    static int (*real) (int, int, int, void *, socklen_t *) = NULL;
    if (level == SOL_SOCKET && optname == SO_PEERCRED) {
        struct ucred *u = optval;
        if (g_peer_fail) { errno = ENOTCONN; return -1; }
        u->pid = 4242; u->uid = g_peer_uid; u->gid = g_peer_gid;
        *optlen = sizeof (*u);
        return 0;
    }
    if (!real) real = dlsym (RTLD_NEXT, "getsockopt");
    return real (fd, level, optname, optval, optlen);
}
void random_pseudo_bytes (void *buf, int n) {
    int i; unsigned char *b = buf;
    for (i = 0; i < n; i++) b[i] = g_rnd_len ? g_rnd[(g_rnd_pos++) % g_rnd_len] : (unsigned char) (0x30 + i);
}
void random_add (const void *buf, int n) { g_random_add_calls++; }
void log_msg (int priority, const char *format, ...) {}
void log_err (int status, int priority, const char *format, ...) { fprintf (stderr, "log_err: %s\n", format); abort (); }
void log_errno (int status, int priority, const char *format, ...) { fprintf (stderr, "log_errno: %s\n", format); abort (); }
long timer_set_relative (void (*cb) (void *), void *arg, long msec) { return 1; }

#include "conf.h"
#include "gids.h"
#include "work.h"
conf_t conf = NULL;
volatile sig_atomic_t got_reconfig = 0, got_terminate = 0;
int gids_is_member (gids_t gids, uid_t uid, gid_t gid) {
    int i; for (i = 0; i < g_nmem; i++) if (g_mem[i][0] == uid && g_mem[i][1] == gid) return 1;
    return 0;
}
void gids_update (gids_t gids) {}
work_p work_init (work_func_t f, int n) { return NULL; }
void work_fini (work_p wp, int do_wait) {}
int work_queue (work_p wp, void *work) { return -1; }
void work_wait (work_p wp) {}

/* replay_insert can be scripted for the kernel ops; otherwise the real one (replay.c) runs */
#include "cred.h"
#include "replay.h"
static int hk_replay_insert (munge_cred_t c) {
    if (g_ins_scripted) { errno = g_ins_errno; return g_ins_ret; }
    return replay_insert (c);
}
#define replay_insert hk_replay_insert
#include "dec.c"
#undef replay_insert
#include "enc.c"
#include "job.c"

/* ---- helpers --------------------------------------------------------------------------- */
static unsigned char g_mackey[64], g_dekkey[64];

static void conf_defaults (void) {
    int i;
    conf = calloc (1, sizeof (*conf));
    conf->got_clock_skew = 1;
    conf->got_root_auth = !! MUNGE_AUTH_ROOT_ALLOW_FLAG;
    conf->got_socket_retry = !! MUNGE_SOCKET_RETRY_FLAG;
    conf->def_cipher = MUNGE_DEFAULT_CIPHER;
    conf->def_zip = MUNGE_ZIP_NONE;
    conf->def_mac = MUNGE_DEFAULT_MAC;
    conf->def_ttl = MUNGE_DEFAULT_TTL;
    conf->max_ttl = MUNGE_MAXIMUM_TTL;
    for (i = 0; i < 20; i++) { g_mackey[i] = (unsigned char) (0x11 + i); g_dekkey[i] = (unsigned char) (0x77 - i); }
    conf->mac_key = g_mackey; conf->mac_key_len = 20;
    conf->dek_key = g_dekkey; conf->dek_key_len = 20;
    conf->addr.s_addr = htonl (0x7f000001);
}

static char *kv (char **w, int n, const char *key) {
    int i; size_t k = strlen (key);
    for (i = 0; i < n; i++) if (!strncmp (w[i], key, k) && w[i][k] == '=') return w[i] + k + 1;
    return NULL;
}

static void set_env (char **w, int n) {
    char *v;
    if ((v = kv (w, n, "now"))) g_now = !strcmp (v, "fail") ? -1 : atol (v);
    if ((v = kv (w, n, "peer"))) {
        if (!strcmp (v, "fail")) g_peer_fail = 1;
        else { g_peer_fail = 0; sscanf (v, "%u:%u", &g_peer_uid, &g_peer_gid); }
    }
    if ((v = kv (w, n, "rnd"))) {
        unsigned char *b; long k = hx_parse (v, &b);
        g_rnd_len = (int) (k > 64 ? 64 : (k < 0 ? 0 : k)); g_rnd_pos = 0;
        if (k > 0) memcpy (g_rnd, b, g_rnd_len);
        if (k >= 0) free (b);
    }
    if ((v = kv (w, n, "mem"))) {
        g_nmem = 0;
        if (strcmp (v, "-")) {
            char *s = v;
            while (*s && g_nmem < 64) {
                unsigned int u, g; int used = 0;
                if (sscanf (s, "%u:%u%n", &u, &g, &used) < 2) break;
                g_mem[g_nmem][0] = u; g_mem[g_nmem][1] = g; g_nmem++;
                s += used; if (*s == ';') s++;
            }
        }
    }
    if ((v = kv (w, n, "maxttl"))) conf->max_ttl = atoi (v);
    if ((v = kv (w, n, "defttl"))) conf->def_ttl = atoi (v);
    if ((v = kv (w, n, "skew"))) conf->got_clock_skew = atoi (v) ? 1 : 0;
    if ((v = kv (w, n, "bench"))) conf->got_benchmark = atoi (v) ? 1 : 0;
    if ((v = kv (w, n, "rootauth"))) conf->got_root_auth = atoi (v) ? 1 : 0;
    if ((v = kv (w, n, "retryflag"))) conf->got_socket_retry = atoi (v) ? 1 : 0;
    if ((v = kv (w, n, "defc"))) conf->def_cipher = atoi (v);
    if ((v = kv (w, n, "defm"))) conf->def_mac = atoi (v);
    if ((v = kv (w, n, "defz"))) conf->def_zip = atoi (v);
    if ((v = kv (w, n, "addr"))) conf->addr.s_addr = htonl ((unsigned int) strtoul (v, NULL, 16));
    if ((v = kv (w, n, "mackey"))) {
        unsigned char *b; long k = hx_parse (v, &b);
        if (k >= 0) { if (k > 64) k = 64; memcpy (g_mackey, b, k); conf->mac_key_len = (int) k; free (b); }
    }
    if ((v = kv (w, n, "dekkey"))) {
        unsigned char *b; long k = hx_parse (v, &b);
        if (k >= 0) { if (k > 64) k = 64; memcpy (g_dekkey, b, k); conf->dek_key_len = (int) k; free (b); }
    }
}

/* client side of one transaction: optionally refuse to receive, write the request, collect the reply */
struct client { int fd; unsigned char *req; long reqlen; int sendfail; unsigned char *rsp; long rsplen; long cut; long stall; int hold; };
static void *client_thread (void *arg) {
    struct client *c = arg; long off = 0, cap = 4096; ssize_t k;
    long towrite = (c->cut >= 0 && c->cut < c->reqlen) ? c->cut : c->reqlen;
    if (c->stall >= 0 && c->stall < towrite) towrite = c->stall;   /* send a prefix, then neither send nor close: a stalled client */
    if (c->sendfail) shutdown (c->fd, SHUT_RD);
    while (off < towrite) {
        k = write (c->fd, c->req + off, towrite - off);
        if (k <= 0) break;
        off += k;
    }
    if (c->cut >= 0 && !c->hold) shutdown (c->fd, SHUT_WR);      /* connection broken by the client mid-request */
    c->rsp = malloc (cap); c->rsplen = 0;
    if (!c->sendfail) {
        while ((k = read (c->fd, c->rsp + c->rsplen, cap - c->rsplen)) > 0) {
            c->rsplen += k;
            if (c->rsplen == cap) { cap *= 2; c->rsp = realloc (c->rsp, cap); }
        }
    }
    return NULL;
}

#ifdef HC_TOY
extern __thread int toy_fail_at, toy_calls;      /* toy_prims.c: fail the k-th primitive call of the request */
#endif

/* ownership of the connection's descriptor: the request path must close it exactly once (a second close () hits whatever
 * connection has been given that number in the meantime - harmless in a sequential run, fatal to another client under load) */
static int g_job_fd = -1, g_job_closes = 0;
int close (int fd) {
    static int (*real) (int) = NULL;
    if (!real) real = dlsym (RTLD_NEXT, "close");
    if (fd >= 0 && fd == g_job_fd) __sync_fetch_and_add (&g_job_closes, 1);
    return real (fd);
}

/* cred req <hex request bytes> [env k=v ...] [sendfail=1] [cut=N]  ->  rsp=<hex> leak=<0|1> */
static void do_req (char **w, int n) {
    int sv[2]; m_msg_t m; struct client c; pthread_t th; char *v; int leak, closes; long stall_bad = -1, slow_bad = -1;
    memset (&c, 0, sizeof c);
    c.reqlen = hx_parse (w[2], &c.req);
    if (c.reqlen < 0) { puts ("bad-op"); return; }
    set_env (w + 3, n - 3);
    g_rnd_pos = 0;                                     /* the scripted PRNG stream restarts with every request */
    c.sendfail = (v = kv (w + 3, n - 3, "sendfail")) ? atoi (v) : 0;
    c.cut = (v = kv (w + 3, n - 3, "cut")) ? atol (v) : -1;
    c.stall = (v = kv (w + 3, n - 3, "stall")) ? atol (v) : -1;
    c.hold = (v = kv (w + 3, n - 3, "hold")) ? atoi (v) : 0;
    if (socketpair (AF_UNIX, SOCK_STREAM, 0, sv) < 0) { puts ("bad-op"); return; }
    c.fd = sv[1];
    pthread_create (&th, NULL, client_thread, &c);
    if (m_msg_create (&m) != EMUNGE_SUCCESS || m_msg_bind (m, sv[0]) != EMUNGE_SUCCESS) abort ();
    fd_set_nonblocking (sv[0]);
    {
        struct timespec t0, t1; long ms;
        clock_gettime (CLOCK_MONOTONIC, &t0);
        g_job_closes = 0; g_job_fd = sv[0];
#ifdef HC_TOY
        toy_calls = 0; toy_fail_at = (v = kv (w + 3, n - 3, "pfail")) ? atoi (v) : 0;
#endif
        _job_exec (m);                                 /* recv, process, send, destroy (closes sv[0]) */
        g_job_fd = -1; closes = g_job_closes;
#ifdef HC_TOY
        toy_fail_at = 0;
#endif
        clock_gettime (CLOCK_MONOTONIC, &t1);
        ms = (t1.tv_sec - t0.tv_sec) * 1000 + (t1.tv_nsec - t0.tv_nsec) / 1000000;
        /* a stalled client must be dropped after the I/O timeout: not at once, not (much) later */
        if (c.stall >= 0 && (ms < MUNGE_SOCKET_TIMEOUT_MSECS - 200 || ms > MUNGE_SOCKET_TIMEOUT_MSECS + 3000))
            stall_bad = ms;
        /* fast=1: the request must be disposed of at once (e.g. an over-limit length is refused without
         * waiting for, or buffering, the body the client keeps sending) */
        if ((v = kv (w + 3, n - 3, "fast")) && atoi (v) && ms > 1000)
            slow_bad = ms;
    }
    pthread_join (th, NULL);
    close (sv[1]);
    printf ("rsp="); hx_print (c.rsp, c.rsplen);
#ifdef HC_TOY
    if (kv (w + 3, n - 3, "pfail")) printf (" pcalls=%d", toy_calls);
#endif
    free (c.req); free (c.rsp);
    leak = __lsan_do_recoverable_leak_check ();
    if (closes != 1) printf (" leak=%d connection-descriptor-closed-%d-times\n", leak ? 1 : 0, closes);
    else if (slow_bad >= 0) printf (" leak=%d request-not-refused-at-once-%ldms\n", leak ? 1 : 0, slow_bad);
    else if (stall_bad >= 0) printf (" leak=%d stalled-client-dropped-after-%ldms\n", leak ? 1 : 0, stall_bad);
    else printf (" leak=%d\n", leak ? 1 : 0);
}

/* kernel translation validation: call the real static kernels on scripted inputs
 * (HC_NO_KERN: fallback build without this table, used when a kernel named here no longer exists in the tree under
 * test - the request streams through _job_exec and their property oracles must still run) */
#ifdef HC_NO_KERN
static void do_kern (char **w, int n) { (void) w; (void) n; puts ("bad-op"); }
#else
static void do_kern (char **w, int n) {
    long a[12]; int i, k = n - 2, rc = 0; m_msg_t m; struct munge_cred cs; const char *name = w[1];
    for (i = 0; i < k && i < 12; i++) a[i] = atol (w[2 + i]);
    m_msg_create (&m);
    memset (&cs, 0, sizeof cs); cs.msg = m;
    if (!strcmp (name, "dec_validate_time") && k == 5) {
        m->ttl = (uint32_t) a[0]; m->time0 = (uint32_t) a[1]; m->time1 = (uint32_t) a[2];
        conf->max_ttl = (int) a[3]; conf->got_clock_skew = a[4] ? 1 : 0;
        rc = dec_validate_time (&cs);
        printf ("ret=%d err=%d ttl=%u\n", rc, m->error_num, m->ttl);
    }
    else if (!strcmp (name, "dec_validate_auth") && k == 6) {
        m->auth_uid = (uint32_t) a[0]; m->auth_gid = (uint32_t) a[1]; m->client_uid = (uint32_t) a[2]; m->client_gid = (uint32_t) a[3];
        conf->got_root_auth = a[4] ? 1 : 0;
        g_nmem = 0; if (a[5]) { g_mem[0][0] = (unsigned) a[2]; g_mem[0][1] = (unsigned) a[1]; g_nmem = 1; }
        rc = dec_validate_auth (&cs);
        printf ("ret=%d err=%d\n", rc, m->error_num);
        g_nmem = 0;
    }
    else if (!strcmp (name, "dec_validate_replay") && k == 4) {
        m->retry = (uint8_t) a[0]; conf->got_socket_retry = a[1] ? 1 : 0;
        g_ins_scripted = 1; g_ins_errno = (int) a[2]; g_ins_ret = (int) a[3];
        rc = dec_validate_replay (&cs);
        g_ins_scripted = 0;
        printf ("ret=%d err=%d\n", rc, m->error_num);
    }
    else if (!strcmp (name, "dec_check_retry") && k == 1) {
        m->retry = (uint8_t) a[0]; rc = dec_check_retry (&cs);
        printf ("ret=%d err=%d\n", rc, m->error_num);
    }
    else if (!strcmp (name, "enc_check_retry") && k == 1) {
        m->retry = (uint8_t) a[0]; rc = enc_check_retry (&cs);
        printf ("ret=%d err=%d\n", rc, m->error_num);
    }
    else if (!strcmp (name, "dec_validate_msg") && k == 2) {
        m->data_len = (uint32_t) a[0]; m->data = a[1] ? strdup ("x") : NULL;
        rc = dec_validate_msg (m);
        printf ("ret=%d err=%d\n", rc, m->error_num);
    }
    else if (!strcmp (name, "enc_validate_msg") && k == 10) {
        m->type = MUNGE_MSG_ENC_REQ;
        m->cipher = (uint8_t) a[0]; m->mac = (uint8_t) a[1]; m->zip = (uint8_t) a[2]; m->data_len = (uint32_t) a[3]; m->ttl = (uint32_t) a[4];
        conf->def_cipher = (int) a[5]; conf->def_mac = (int) a[6]; conf->def_zip = (int) a[7]; conf->def_ttl = (int) a[8]; conf->max_ttl = (int) a[9];
        rc = enc_validate_msg (m);
        printf ("ret=%d err=%d cipher=%u mac=%u zip=%u ttl=%u\n", rc, m->error_num, m->cipher, m->mac, m->zip, m->ttl);
        m->data_len = 0;
    }
    else puts ("bad-op");
    m_msg_destroy (m);
    { conf_t old = conf; conf_defaults (); free (old); }
}
#endif

#ifndef HC_NO_MAIN
/* watchdog: a request that never completes (a wedged read, a lost wake-up) ends the run at that op instead of hanging the check */
static void on_alarm (int sig) { static const char m[] = "h_cred: WATCHDOG: request did not complete within 90 s\n"; (void) sig; (void) !write (2, m, sizeof (m) - 1); _exit (3); }

int main (void) {
    char *line;
    signal (SIGPIPE, SIG_IGN);
    signal (SIGALRM, on_alarm);
    conf_defaults ();
#ifndef HC_TOY
    crypto_init (); md_init_subsystem (); cipher_init_subsystem ();
#endif
    replay_init ();
    while ((line = hx_getline (stdin))) {
        char **w = malloc (64 * sizeof (char *)); int n = hx_split (line, w, 64);
        alarm (90);
        if (n >= 3 && !strcmp (w[0], "cred") && !strcmp (w[1], "req")) do_req (w, n);
        else if (n >= 2 && !strcmp (w[0], "cred") && !strcmp (w[1], "conf")) { set_env (w + 2, n - 2); puts ("ok"); }
        else if (n >= 2 && !strcmp (w[0], "cred") && !strcmp (w[1], "replay-reset")) { replay_fini (); replay_init (); puts ("ok"); }
        else if (n >= 2 && !strcmp (w[0], "cred") && !strcmp (w[1], "purge")) { set_env (w + 2, n - 2); replay_purge (); puts ("ok"); }
        else if (n >= 2 && !strcmp (w[0], "cred") && !strcmp (w[1], "reset-conf")) { conf_t old = conf; conf_defaults (); free (old); puts ("ok"); }
        else if (n >= 2 && !strcmp (w[0], "kern")) do_kern (w, n);
        else puts ("bad-op");
        fflush (stdout);
        alarm (0);
        free (w); free (line);
    }
    replay_fini ();
    free (conf);
    return 0;
}
#endif /* !HC_NO_MAIN */
