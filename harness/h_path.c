/* Correspondence harness for C16 (start-up refuses insecure key/path/file settings; created files are safe).
 *
 * One source, four translation units (tools/props/c16.py writes one-line wrappers that define H_PATH_PART_x
 * and #include this file, so that the statics of conf.c / random.c / munged.c can be reached):
 *   (none)              main program: line protocol, environment (lstat/realpath/geteuid, log_* stubs), scenarios
 *   H_PATH_PART_CONF    #include "conf.c"    -> _conf_open_keyfile
 *   H_PATH_PART_RANDOM  #include "random.c"  -> _random_read_entropy_from_file, _random_write_seed (RAND_seed counted)
 *   H_PATH_PART_MUNGED  #include "munged.c"  -> open_logfile, write_pidfile, sock_create
 * linked with the real src/munged/path.c, lock.c, src/common/query.c, xgetgr.c, xgetpw.c, src/libcommon/fd.c, str.c,
 * src/libmissing/strlcpy.c.  Unreferenced functions of the included files are dropped by --gc-sections.
 *
 * Two layers:
 *   `path sec ...`   scripted stat table: lstat/realpath/geteuid answer from the op line, the real path_is_secure runs.
 *   `path key|seed|mode|lockpre ...`  real file system (the sandbox is root): the scenario is built under <base>
 *                    with mkdir/mknod/chown/chmod/symlink and the real munged functions run on it.
 */
#if defined(H_PATH_PART_CONF)

#include "conf.c"
int hx_conf_open_keyfile (const char *keyfile, int got_force) { return _conf_open_keyfile (keyfile, got_force); }

#elif defined(H_PATH_PART_RANDOM)

#define RAND_seed hx_RAND_seed
#include "random.c"
long hx_seed_added = 0;
void hx_RAND_seed (const void *buf, int n) { (void) buf; hx_seed_added += n; }
int hx_random_read_entropy_from_file (const char *path) { return _random_read_entropy_from_file (path); }
int hx_random_write_seed (const char *path, int n) { return _random_write_seed (path, n); }
int hx_random_seed_bytes (void) { return RANDOM_SEED_BYTES; }

#elif defined(H_PATH_PART_MUNGED)

#define main munged_main
#include "munged.c"
void hx_open_logfile (const char *logfile, int got_force) { open_logfile (logfile, LOG_INFO, got_force); }
void hx_write_pidfile (const char *pidfile, int got_force) { write_pidfile (pidfile, got_force); }
void hx_sock_create (conf_t c) { sock_create (c); }

#else  /* ------------------------------------------------------------------ main program */

#include "hx.h"
#include <dirent.h>
#include <dlfcn.h>
#include <errno.h>
#include <fcntl.h>
#include <limits.h>
#include <setjmp.h>
#include <stdarg.h>
#include <sys/socket.h>
#include <sys/stat.h>
#include <sys/syscall.h>
#include <sys/sysmacros.h>
#include <sys/types.h>
#include <sys/un.h>
#include <unistd.h>
#include "conf.h"
#include "path.h"
#include "lock.h"

int  hx_conf_open_keyfile (const char *keyfile, int got_force);
int  hx_random_read_entropy_from_file (const char *path);
int  hx_random_write_seed (const char *path, int n);
int  hx_random_seed_bytes (void);
void hx_open_logfile (const char *logfile, int got_force);
void hx_write_pidfile (const char *pidfile, int got_force);
void hx_sock_create (conf_t c);
extern long hx_seed_added;

/* ---------------------------------------------------------------- message classification (= Munge.Path.classify) */
static const char *classify (const char *s) {
    static const struct { const char *pat, *tag; } t[] = {
        {"cannot canonicalize", "canon"}, {"cannot stat", "stat"}, {"unexpected file type", "type"},
        {"invalid ownership", "owner"}, {"group-writable", "group"}, {"world-writable", "world"},
        {"internal error", "internal"}, {"symbolic link", "symlink"}, {"owned by", "owner"},
        {"by group", "group"}, {"by other", "other"}, {"regular file", "type"}, {"Failed to find", "missing"},
        {"undefined", "noname"}, {"dirname", "dirname"}, {"absolute path", "relative"},
        {"Failed to check", "direrr"}, {"insecure: %s", "dir"}, {"inaccessible: %s", "access"},
        {"Failed to open", "open"}, {"only have permissions", "perms"}, {NULL, NULL} };
    int i;
    for (i = 0; t[i].pat; i++) if (strstr (s, t[i].pat)) return t[i].tag;
    return "other";
}

/* ---------------------------------------------------------------- log.c replaced: fatal = longjmp out */
static jmp_buf hx_jmp;
static char hx_fatal[32];
static char hx_warns[512];

static void hx_die (const char *fmt) {
    snprintf (hx_fatal, sizeof hx_fatal, "%s", classify (fmt));
    longjmp (hx_jmp, 1);
}
void log_err (int status, int priority, const char *format, ...) { (void) status; (void) priority; hx_die (format); }
void log_errno (int status, int priority, const char *format, ...) { (void) status; (void) priority; hx_die (format); }
void log_err_or_warn (int got_force, const char *format, ...) {
    if (!got_force) hx_die (format);
    if (hx_warns[0]) strncat (hx_warns, "+", sizeof hx_warns - strlen (hx_warns) - 1);
    strncat (hx_warns, classify (format), sizeof hx_warns - strlen (hx_warns) - 1);
}
void log_msg (int priority, const char *format, ...) { (void) priority; (void) format; }
int  log_open_file (FILE *fp, const char *identity, int priority, int options) {
    (void) identity; (void) priority; (void) options; if (fp) fclose (fp); return 0; }

#define RUN(fatal, stmt) do { hx_fatal[0] = 0; hx_warns[0] = 0; if (setjmp (hx_jmp) == 0) { stmt; fatal = 0; } else fatal = 1; } while (0)

/* ---------------------------------------------------------------- environment: lstat / realpath / geteuid */
static int scripted = 0;
static struct ent { char path[512]; unsigned mode, uid, gid; } tbl[128];
static int ntbl;
static char canon[PATH_MAX];
static int canon_ok;
static int fake_euid_on;
static uid_t fake_euid;

static int real_lstat (const char *p, struct stat *st) {
    return (int) syscall (SYS_newfstatat, AT_FDCWD, p, st, AT_SYMLINK_NOFOLLOW);
}
int lstat (const char *p, struct stat *st) {
    int i;
    if (!scripted) return real_lstat (p, st);
    for (i = 0; i < ntbl; i++)
        if (!strcmp (tbl[i].path, p)) {
            memset (st, 0, sizeof *st);
            st->st_mode = tbl[i].mode; st->st_uid = tbl[i].uid; st->st_gid = tbl[i].gid;
            return 0;
        }
    errno = ENOENT;
    return -1;
}
char *realpath (const char *p, char *out) {
    static char *(*real) (const char *, char *);
    if (!scripted) {
        if (!real) real = (char *(*) (const char *, char *)) dlsym (RTLD_NEXT, "realpath");
        return real (p, out);
    }
    if (!canon_ok) { errno = ENOENT; return NULL; }
    strcpy (out, canon);
    return out;
}
uid_t geteuid (void) { return fake_euid_on ? fake_euid : (uid_t) syscall (SYS_geteuid); }

/* ---------------------------------------------------------------- helpers */
static unsigned long num (const char *s) { return strtoul (s, NULL, 10); }

static void set_tgid (const char *s) {
    if (!strcmp (s, "-")) path_set_trusted_group (NULL);
    else if (path_set_trusted_group (s) < 0) { fprintf (stderr, "cannot set trusted group %s\n", s); exit (3); }
}

static void rmtree (const char *path) {
    struct stat st;
    if (real_lstat (path, &st) < 0) return;
    if (S_ISDIR (st.st_mode)) {
        DIR *d = opendir (path);
        struct dirent *e;
        if (d) {
            while ((e = readdir (d))) {
                char sub[PATH_MAX];
                if (!strcmp (e->d_name, ".") || !strcmp (e->d_name, "..")) continue;
                snprintf (sub, sizeof sub, "%s/%s", path, e->d_name);
                rmtree (sub);
            }
            closedir (d);
        }
        rmdir (path);
    }
    else unlink (path);
}

static void die (const char *what, const char *path) {
    fprintf (stderr, "h_path: %s %s: %s\n", what, path, strerror (errno));
    exit (3);
}

/* build <base>/d1/d2/... from "mode:uid:gid,..." ("-" = none); leaf dir returned in out */
static void build_dirs (const char *base, const char *dirs, char *out, size_t outlen) {
    char *copy = strdup (dirs), *save = NULL, *tok;
    int i = 1;
    snprintf (out, outlen, "%s", base);
    if (strcmp (dirs, "-"))
        for (tok = strtok_r (copy, ",", &save); tok; tok = strtok_r (NULL, ",", &save), i++) {
            unsigned mode, uid, gid;
            char nxt[PATH_MAX];
            if (sscanf (tok, "%u:%u:%u", &mode, &uid, &gid) != 3) { fprintf (stderr, "bad dirs\n"); exit (3); }
            snprintf (nxt, sizeof nxt, "%s/d%d", out, i);
            if (mkdir (nxt, 0700) < 0) die ("mkdir", nxt);
            if (chown (nxt, uid, gid) < 0) die ("chown", nxt);
            if (chmod (nxt, mode) < 0) die ("chmod", nxt);
            snprintf (out, outlen, "%s", nxt);
        }
    free (copy);
}

/* create <dir>/<name> as described; with link: <dir>/target is the object and <dir>/<name> a symlink to it */
static void make_file (const char *dir, const char *name, const char *ftype, unsigned perm, unsigned uid,
                       unsigned gid, int link, long size) {
    char obj[PATH_MAX], lnk[PATH_MAX];
    snprintf (obj, sizeof obj, "%s/%s", dir, link ? "target" : name);
    snprintf (lnk, sizeof lnk, "%s/%s", dir, name);
    if (!strcmp (ftype, "reg")) {
        int fd = open (obj, O_CREAT | O_WRONLY | O_TRUNC, 0600);
        long i;
        if (fd < 0) die ("create", obj);
        for (i = 0; i < size; i++) { unsigned char c = (unsigned char) (i * 37 + 11); if (write (fd, &c, 1) != 1) die ("write", obj); }
        close (fd);
    }
    else if (!strcmp (ftype, "dir")) { if (mkdir (obj, 0700) < 0) die ("mkdir", obj); }
    else if (!strcmp (ftype, "chr")) { if (mknod (obj, S_IFCHR | 0600, makedev (1, 3)) < 0) die ("mknod", obj); }
    else if (!strcmp (ftype, "sock")) {
        struct sockaddr_un a; int sd = socket (AF_UNIX, SOCK_STREAM, 0);
        memset (&a, 0, sizeof a); a.sun_family = AF_UNIX;
        if (strlen (obj) >= sizeof a.sun_path) { fprintf (stderr, "socket path too long\n"); exit (3); }
        strcpy (a.sun_path, obj);
        if (sd < 0 || bind (sd, (struct sockaddr *) &a, sizeof a) < 0) die ("bind", obj);
        close (sd);
    }
    if (strcmp (ftype, "none")) {
        if (chown (obj, uid, gid) < 0) die ("chown", obj);
        if (chmod (obj, perm) < 0) die ("chmod", obj);
    }
    if (link && symlink ("target", lnk) < 0) die ("symlink", lnk);
}

static void clean_scenario (const char *base, const char *dirs, const char *name) {
    char p[PATH_MAX];
    if (strcmp (dirs, "-")) { snprintf (p, sizeof p, "%s/d1", base); rmtree (p); }
    else {
        snprintf (p, sizeof p, "%s/%s", base, name); rmtree (p);
        snprintf (p, sizeof p, "%s/%s.lock", base, name); rmtree (p);
        snprintf (p, sizeof p, "%s/target", base); rmtree (p);
    }
}

/* ---------------------------------------------------------------- ops */
static void op_fsinit (char **w) {
    char ebuf[1024];
    int a, b;
    rmtree (w[2]);
    if (mkdir (w[2], 0755) < 0) die ("mkdir", w[2]);
    a = path_is_secure (w[2], ebuf, sizeof ebuf, PATH_SECURITY_NO_FLAGS);
    if (a == 1) b = path_is_accessible (w[2], ebuf, sizeof ebuf);
    if (a != 1 || b != 1) printf ("unusable-base %s\n", ebuf); else puts ("ok");
}

/* path sec <flags> <tgid|-> <euid> <canon|-> <p:mode:uid:gid,...|-> */
static void op_sec (char **w) {
    char ebuf[1024] = "", at[1024] = "-";
    const char *why = "-";
    int rc;
    ntbl = 0;
    if (strcmp (w[6], "-")) {
        char *save = NULL, *tok;
        for (tok = strtok_r (w[6], ",", &save); tok && ntbl < 128; tok = strtok_r (NULL, ",", &save)) {
            char *c1 = strchr (tok, ':');
            if (!c1) { puts ("bad-op"); return; }
            *c1 = 0;
            snprintf (tbl[ntbl].path, sizeof tbl[ntbl].path, "%s", tok);
            if (sscanf (c1 + 1, "%u:%u:%u", &tbl[ntbl].mode, &tbl[ntbl].uid, &tbl[ntbl].gid) != 3) { puts ("bad-op"); return; }
            ntbl++;
        }
    }
    set_tgid (w[3]);
    fake_euid_on = 1; fake_euid = (uid_t) num (w[4]);
    canon_ok = strcmp (w[5], "-") != 0;
    snprintf (canon, sizeof canon, "%s", w[5]);
    scripted = 1;
    rc = path_is_secure ("x", ebuf, sizeof ebuf, (path_security_flag_t) num (w[2]));
    scripted = 0; fake_euid_on = 0;
    if (rc != 1) {
        char *q1 = strchr (ebuf, '"'), *q2 = q1 ? strchr (q1 + 1, '"') : NULL;
        why = classify (ebuf);
        if (q1 && q2 && strcmp (why, "canon") && q2 > q1 + 1) { *q2 = 0; snprintf (at, sizeof at, "%s", q1 + 1); }
    }
    printf ("rc=%d why=%s at=%s\n", rc, why, at);
}

/* path key <base> <force> <euid> <tgid> <ftype> <perm> <uid> <gid> <link> <dirs> */
static void op_key (char **w) {
    char leaf[PATH_MAX], path[PATH_MAX];
    volatile int fd = -1; volatile int fatal; int force = (int) num (w[3]);
    build_dirs (w[2], w[11], leaf, sizeof leaf);
    make_file (leaf, "key", w[6], num (w[7]), num (w[8]), num (w[9]), (int) num (w[10]), 32);
    snprintf (path, sizeof path, "%s/key", leaf);
    set_tgid (w[5]);
    fake_euid_on = 1; fake_euid = (uid_t) num (w[4]);
    RUN (fatal, fd = hx_conf_open_keyfile (path, force));
    fake_euid_on = 0;
    printf ("fatal=%d site=%s warns=%s fd=%s\n", fatal, fatal ? hx_fatal : "-", hx_warns[0] ? hx_warns : "-",
            (!fatal && fd >= 0) ? "ok" : "-");
    if (fd >= 0) close (fd);
    clean_scenario (w[2], w[11], "key");
}

/* path seed <base> <force> <euid> <tgid> <ftype> <perm> <uid> <gid> <link> <size> <dirs> */
static void op_seed (char **w) {
    char leaf[PATH_MAX], path[PATH_MAX];
    struct stat st;
    volatile int ret = 0; volatile int fatal;
    build_dirs (w[2], w[12], leaf, sizeof leaf);
    make_file (leaf, "seed", w[6], num (w[7]), num (w[8]), num (w[9]), (int) num (w[10]), (long) num (w[11]));
    snprintf (path, sizeof path, "%s/seed", leaf);
    set_tgid (w[5]);
    conf->got_force = num (w[3]) ? 1 : 0;
    fake_euid_on = 1; fake_euid = (uid_t) num (w[4]);
    hx_seed_added = 0;
    RUN (fatal, ret = hx_random_read_entropy_from_file (path));
    fake_euid_on = 0;
    if (fatal) printf ("ret=- "); else printf ("ret=%d ", ret);
    printf ("fatal=%d site=%s warns=%s added=%ld exists=%d\n", fatal, fatal ? hx_fatal : "-",
            hx_warns[0] ? hx_warns : "-", hx_seed_added, real_lstat (path, &st) == 0);
    clean_scenario (w[2], w[12], "seed");
}

/* path gate <base> <pid|sock|log> <force> <euid> <tgid> <dirs>: the directory check of a creation site */
static void op_gate (char **w) {
    char leaf[PATH_MAX], p[PATH_MAX];
    const char *site = w[3];
    int force = (int) num (w[4]);
    volatile int fatal = 0;
    build_dirs (w[2], w[7], leaf, sizeof leaf);
    snprintf (p, sizeof p, "%s/%s", leaf, site);
    set_tgid (w[6]);
    fake_euid_on = 1; fake_euid = (uid_t) num (w[5]);
    umask (022);
    if (!strcmp (site, "pid")) RUN (fatal, hx_write_pidfile (p, force));
    else if (!strcmp (site, "log")) RUN (fatal, hx_open_logfile (p, force));
    else if (!strcmp (site, "sock")) {
        conf->got_force = force ? 1 : 0;
        conf->socket_name = p; conf->lockfile_fd = -1; conf->lockfile_name = NULL; conf->listen_backlog = 5; conf->ld = -1;
        RUN (fatal, hx_sock_create (conf));
        if (conf->ld >= 0) close (conf->ld);
        if (conf->lockfile_fd >= 0) close (conf->lockfile_fd);
        free (conf->lockfile_name);
        conf->socket_name = NULL; conf->lockfile_name = NULL; conf->lockfile_fd = -1; conf->got_force = 0;
    }
    else { fake_euid_on = 0; puts ("bad-op"); return; }
    umask (022);
    fake_euid_on = 0;
    printf ("fatal=%d site=%s warns=%s\n", fatal, fatal ? hx_fatal : "-", hx_warns[0] ? hx_warns : "-");
    clean_scenario (w[2], w[7], site);
}

static long perm_of (const char *p) {
    struct stat st;
    if (real_lstat (p, &st) < 0) return -1;
    return (long) (st.st_mode & 07777);
}

/* path mode <base> <sock|lock|pid|log|seed> <umask> */
static void op_mode (char **w) {
    char dir[PATH_MAX], p[PATH_MAX], p2[PATH_MAX];
    const char *site = w[3];
    mode_t u = (mode_t) num (w[4]), after;
    volatile int fatal = 0;
    long m;
    snprintf (dir, sizeof dir, "%s/m", w[2]);
    rmtree (dir);
    if (mkdir (dir, 0755) < 0) die ("mkdir", dir);
    chmod (dir, 0755);
    set_tgid ("-");
    conf->got_force = 0;
    umask (u);
    if (!strcmp (site, "sock") || !strcmp (site, "lock")) {
        snprintf (p, sizeof p, "%s/sock", dir);
        snprintf (p2, sizeof p2, "%s/sock.lock", dir);
        conf->socket_name = p; conf->lockfile_fd = -1; conf->lockfile_name = NULL; conf->listen_backlog = 5; conf->ld = -1;
        RUN (fatal, hx_sock_create (conf));
        after = umask (022);
        m = perm_of (!strcmp (site, "sock") ? p : p2);
        if (conf->ld >= 0) close (conf->ld);
        if (conf->lockfile_fd >= 0) close (conf->lockfile_fd);
        free (conf->lockfile_name);
        conf->socket_name = NULL; conf->lockfile_name = NULL;
    }
    else if (!strcmp (site, "pid")) {
        snprintf (p, sizeof p, "%s/pid", dir);
        RUN (fatal, hx_write_pidfile (p, 0));
        after = umask (022); m = perm_of (p);
    }
    else if (!strcmp (site, "log")) {
        snprintf (p, sizeof p, "%s/log", dir);
        RUN (fatal, hx_open_logfile (p, 0));
        after = umask (022); m = perm_of (p);
    }
    else if (!strcmp (site, "seed")) {
        snprintf (p, sizeof p, "%s/seed", dir);
        RUN (fatal, (void) hx_random_write_seed (p, hx_random_seed_bytes ()));
        after = umask (022); m = perm_of (p);
    }
    else { umask (022); puts ("bad-op"); return; }
    if (fatal || m < 0) printf ("mode=- after=%u fatal=%s\n", (unsigned) after, hx_fatal);
    else printf ("mode=%ld after=%u\n", m, (unsigned) after);
    rmtree (dir);
}

/* path seedpre <base> <reg|link> <perm> <uid> <umask>: _random_write_seed over something that already sits at the seed path
 * (a file of another owner / mode planted while the daemon ran, or a symlink to a victim file) */
static void op_seedpre (char **w) {
    char dir[PATH_MAX], p[PATH_MAX], v[PATH_MAX], buf[8];
    struct stat st; int fd; volatile int fatal = 0; mode_t after; ssize_t k;
    snprintf (dir, sizeof dir, "%s/m", w[2]);
    rmtree (dir);
    if (mkdir (dir, 0755) < 0) die ("mkdir", dir);
    chmod (dir, 0755);
    snprintf (p, sizeof p, "%s/seed", dir);
    snprintf (v, sizeof v, "%s/victim", dir);
    fd = open (v, O_CREAT | O_WRONLY | O_TRUNC, 0644); if (fd < 0 || write (fd, "VICTIM", 6) != 6) die ("create", v); close (fd);
    if (!strcmp (w[3], "link")) { if (symlink (v, p) < 0) die ("symlink", p); }
    else {
        fd = open (p, O_CREAT | O_WRONLY, 0600); if (fd < 0) die ("create", p); close (fd);
        if (chown (p, num (w[5]), num (w[5])) < 0) die ("chown", p);
        if (chmod (p, num (w[4])) < 0) die ("chmod", p);
    }
    set_tgid ("-");
    conf->got_force = 0;
    umask ((mode_t) num (w[6]));
    RUN (fatal, (void) hx_random_write_seed (p, hx_random_seed_bytes ()));
    after = umask (022); (void) after;
    memset (buf, 0, sizeof buf);
    fd = open (v, O_RDONLY); k = fd >= 0 ? read (fd, buf, 7) : -1; if (fd >= 0) close (fd);
    if (fatal || real_lstat (p, &st) < 0) printf ("mode=- fatal=%s\n", hx_fatal);
    else printf ("mode=%ld type=%s uid=%u victim=%s\n", (long) (st.st_mode & 07777), S_ISREG (st.st_mode) ? "reg" : S_ISLNK (st.st_mode) ? "link" : "other",
                 (unsigned) st.st_uid, (k == 6 && !memcmp (buf, "VICTIM", 6)) ? "intact" : "overwritten");
    rmtree (dir);
}

/* path lockpre <base> <perm> <uid> <euid> <umask>: lock_create over an existing lock file */
static void op_lockpre (char **w) {
    char dir[PATH_MAX], p[PATH_MAX], p2[PATH_MAX];
    int fd; volatile int fatal;
    snprintf (dir, sizeof dir, "%s/m", w[2]);
    rmtree (dir);
    if (mkdir (dir, 0755) < 0) die ("mkdir", dir);
    snprintf (p, sizeof p, "%s/sock", dir);
    snprintf (p2, sizeof p2, "%s/sock.lock", dir);
    fd = open (p2, O_CREAT | O_WRONLY, 0600);
    if (fd < 0) die ("create", p2);
    close (fd);
    if (chown (p2, num (w[4]), 0) < 0) die ("chown", p2);
    if (chmod (p2, num (w[3])) < 0) die ("chmod", p2);
    conf->got_force = 0;
    conf->socket_name = p; conf->lockfile_fd = -1; conf->lockfile_name = NULL;
    fake_euid_on = 1; fake_euid = (uid_t) num (w[5]);
    umask ((mode_t) num (w[6]));
    RUN (fatal, lock_create (conf));
    umask (022);
    fake_euid_on = 0;
    printf ("fatal=%d site=%s mode=%ld\n", fatal, fatal ? hx_fatal : "-", perm_of (p2));
    if (conf->lockfile_fd >= 0) close (conf->lockfile_fd);
    free (conf->lockfile_name);
    conf->socket_name = NULL; conf->lockfile_name = NULL;
    rmtree (dir);
}

int main (void) {
    char *line;
    setvbuf (stdout, NULL, _IOFBF, 1 << 16);
    conf = calloc (1, sizeof (*conf));
    conf->lockfile_fd = -1;
    umask (022);
    while ((line = hx_getline (stdin))) {
        char *w[16];
        int n = hx_split (line, w, 16);
        if (n >= 2 && !strcmp (w[0], "path")) {
            if (!strcmp (w[1], "sec") && n == 7) op_sec (w);
            else if (!strcmp (w[1], "key") && n == 12) op_key (w);
            else if (!strcmp (w[1], "seed") && n == 13) op_seed (w);
            else if (!strcmp (w[1], "mode") && n == 5) op_mode (w);
            else if (!strcmp (w[1], "seedpre") && n == 7) op_seedpre (w);
            else if (!strcmp (w[1], "lockpre") && n == 7) op_lockpre (w);
            else if (!strcmp (w[1], "gate") && n == 8) op_gate (w);
            else if (!strcmp (w[1], "fsinit") && n == 3) op_fsinit (w);
            else puts ("bad-op");
        }
        else puts ("bad-op");
        free (line);
    }
    free (conf);
    conf = NULL;
    return 0;
}
#endif
