/* Correspondence harness for src/munged/gids.c (C17).
 *
 * The real gids.c is #included (to reach _gids_map_update and the statics); hash.c, xgetgr.c and
 * xgetpw.c are linked as they are.  The environment is replaced by definitions in this file:
 * setgrent/getgrent_r/endgrent/getpwnam_r serve scripted databases (buffer needs, EINTR, errors, several
 * scans), stat/time/gettimeofday are scripted, the timer module is a queue that the script fires.
 * Built a second time with -DHAVE_GETGRENT_R_ERANGE_BROKEN=1 (variant "eb"): xgetgrent then reports
 * ERANGE to its caller, which is what exercises the restart logic of _gids_map_create.
 *
 * One input line = one self-contained scenario, run in a forked child (function-local statics of
 * _gids_map_create start fresh, LeakSanitizer runs at the child's exit):
 *     gids <gnu|eb> <step> <step> ...
 * steps:  C:<interval>:<dostat>  E:<now>:<mtime|x>  D:<group script>:<passwd script>  T  H
 *         Q:<uid>.<gid>,...  L:<k>:<uid>.<gid>,...  U:<k>  G:<k>
 * (see tools/props/c17.py for the script syntax).  One output token per step.
 */
#include "hx.h"
#include <stdarg.h>
#include <grp.h>
#include <pwd.h>
#include <sys/wait.h>
#include <signal.h>
#include <unistd.h>
#include <sanitizer/lsan_interface.h>
#include "gids.c"

/* ---------------------------------------------------------------- output */
static char  *out;
static size_t outn, outcap;
static void emit (const char *fmt, ...) {
    va_list ap; int n;
    if (outcap - outn < 4096) { outcap = outcap ? outcap * 2 : 65536; out = realloc (out, outcap); }
    va_start (ap, fmt); n = vsnprintf (out + outn, outcap - outn, fmt, ap); va_end (ap);
    if (n > 0) outn += (size_t) n;
}
static char evbuf[8192]; static size_t evn;
static void ev (const char *fmt, ...) {
    va_list ap; int n;
    if (evn > sizeof (evbuf) - 64) return;
    if (evn) evbuf[evn++] = ',';
    va_start (ap, fmt); n = vsnprintf (evbuf + evn, sizeof (evbuf) - evn, fmt, ap); va_end (ap);
    if (n > 0) evn += (size_t) n;
}

/* ---------------------------------------------------------------- munge-side stubs */
static struct conf conf_storage;
conf_t conf = &conf_storage;
static int fatal_logged;
void log_msg (int priority, const char *format, ...) { (void) priority; (void) format; }
void log_err (int status, int priority, const char *format, ...) { (void) status; (void) priority; (void) format; fatal_logged++; }
void log_errno (int status, int priority, const char *format, ...) { (void) status; (void) priority; (void) format; fatal_logged++; }

#define MAXT 64
static struct { long id; callback_f cb; void *arg; long ms; } tq[MAXT];
static int tqn; static long timer_next_id = 1;
long timer_set_relative (callback_f cb, void *arg, long msec) {
    if (tqn >= MAXT) { errno = ENOMEM; return -1; }
    tq[tqn].id = timer_next_id++; tq[tqn].cb = cb; tq[tqn].arg = arg; tq[tqn].ms = msec; tqn++;
    ev ("S%ld", msec);
    return tq[tqn-1].id;
}
int timer_cancel (long id) {
    int i;
    for (i = 0; i < tqn; i++) if (tq[i].id == id) {
        memmove (&tq[i], &tq[i+1], (size_t) (tqn - i - 1) * sizeof (tq[0])); tqn--;
        ev ("X1"); return 1;
    }
    ev ("X0"); return 0;
}

/* ---------------------------------------------------------------- scripted libc */
static time_t env_now; static time_t env_mtime; static int env_stat_fail;
static int gtod_calls, gtod_fail;
time_t time (time_t *t) { if (t) *t = env_now; return env_now; }
int stat (const char *path, struct stat *st) {
    (void) path;
    if (env_stat_fail) { errno = ENOENT; return -1; }
    memset (st, 0, sizeof (*st)); st->st_mtime = env_mtime; return 0;
}
int gettimeofday (struct timeval *tv, void *tz) {
    (void) tz;
    gtod_calls++;
    if (gtod_fail && gtod_fail == gtod_calls) { errno = EINVAL; return -1; }
    if (tv) { tv->tv_sec = env_now; tv->tv_usec = 0; }
    return 0;
}

typedef struct { int is_err; int err; gid_t gid; char **mem; size_t need; int eintr; } gritem;
typedef struct { gritem *it; int n; } grscan;
static grscan *scans; static int nscans;
static int scan_idx, gr_pos, eintr_left = -1;      /* scan_idx = number of setgrent calls in this update */
static int n_endgrent; static size_t gr_lastlen, pw_lastlen; static int delivered;

typedef struct { int is_err; int rv; uid_t uid; size_t need; } pwresp;
typedef struct { char *name; pwresp *r; int n, cur; } pwent;
static pwent *pws; static int npws;

static gids_t G;
/* armed for the next update */
static int L_k; static uid_t *L_u; static gid_t *L_g; static int L_n; static int L_done; static char *L_res;
static int U_k;
/* "L:0:<pairs>": the lookups run on ANOTHER thread, which is parked inside its first hash_find() (linker --wrap) while the
 * refresh runs on this one: if the refresh can swap and destroy the map meanwhile, the resumed lookup walks freed memory
 * (ASan).  With gids_is_member holding gids->mutex across its lookup the refresh simply waits until the parked lookup gives up
 * (300 ms) and finishes - the answers are then the old map's. */
#include <pthread.h>
static pthread_t P_tid; static volatile int P_armed, P_parked, P_go, P_finished;
extern void *__real_hash_find (hash_t h, const void *key);
void *__wrap_hash_find (hash_t h, const void *key) {
    if (P_armed && !P_parked && pthread_equal (pthread_self (), P_tid)) {
        int n = 0;
        __atomic_store_n (&P_parked, 1, __ATOMIC_SEQ_CST);
        while (!__atomic_load_n (&P_go, __ATOMIC_SEQ_CST) && n++ < 300) usleep (1000);
    }
    return __real_hash_find (h, key);
}
static void *P_lookup (void *arg) {
    int i; (void) arg;
    for (i = 0; i < L_n; i++) L_res[i] = gids_is_member (G, L_u[i], L_g[i]) ? '1' : '0';
    L_res[L_n] = 0;
    __atomic_store_n (&P_finished, 1, __ATOMIC_SEQ_CST);
    return NULL;
}

void setgrent (void) { scan_idx++; gr_pos = 0; eintr_left = -1; }
void endgrent (void) { n_endgrent++; }

int getgrent_r (struct group *grbuf, char *buf, size_t buflen, struct group **result) {
    grscan *s; gritem *it;
    (void) buf;
    gr_lastlen = buflen;
    *result = NULL;
    if (nscans == 0 || scan_idx == 0) return ENOENT;
    s = &scans[(scan_idx - 1 < nscans) ? scan_idx - 1 : nscans - 1];
    if (gr_pos >= s->n) return ENOENT;
    it = &s->it[gr_pos];
    if (it->is_err) { gr_pos++; return it->err; }
    if (eintr_left < 0) eintr_left = it->eintr;
    if (eintr_left > 0) { eintr_left--; return EINTR; }
    if (buflen < it->need) return ERANGE;
    gr_pos++; eintr_left = -1;
    delivered++;
    if (L_k && delivered == L_k && G) {
        int i;
        for (i = 0; i < L_n; i++) L_res[i] = gids_is_member (G, L_u[i], L_g[i]) ? '1' : '0';
        L_res[L_n] = 0; L_done = 1;
    }
    if (U_k && delivered == U_k && G) gids_update (G);
    memset (grbuf, 0, sizeof (*grbuf));
    grbuf->gr_name = (char *) "g"; grbuf->gr_passwd = (char *) "x"; grbuf->gr_gid = it->gid; grbuf->gr_mem = it->mem;
    *result = grbuf;
    return 0;
}

int getpwnam_r (const char *name, struct passwd *pwd, char *buf, size_t buflen, struct passwd **result) {
    int i; pwresp *r;
    (void) buf;
    pw_lastlen = buflen;
    *result = NULL;
    for (i = 0; i < npws; i++) if (!strcmp (pws[i].name, name)) break;
    if (i == npws || pws[i].n == 0) return 0;
    r = &pws[i].r[pws[i].cur];
    if (!r->is_err && buflen < r->need) return ERANGE;
    if (pws[i].cur + 1 < pws[i].n) pws[i].cur++;
    if (r->is_err) return r->rv;
    memset (pwd, 0, sizeof (*pwd));
    pwd->pw_name = pws[i].name; pwd->pw_passwd = (char *) "x"; pwd->pw_uid = r->uid; pwd->pw_gid = 0;
    pwd->pw_gecos = (char *) ""; pwd->pw_dir = (char *) "/"; pwd->pw_shell = (char *) "";
    *result = pwd;
    return 0;
}

/* ---------------------------------------------------------------- script parsing */
/* harness-owned memory stays reachable from this list, so LeakSanitizer reports munge's leaks only */
static void **arena; static size_t arena_n, arena_cap;
static void *xalloc (size_t n, size_t sz) {
    void *p = calloc (n ? n : 1, sz);
    if (arena_n == arena_cap) { arena_cap = arena_cap ? arena_cap * 2 : 1024; arena = realloc (arena, arena_cap * sizeof (void *)); }
    arena[arena_n++] = p;
    return p;
}
static char **split_on (char *s, char sep, int *n) {   /* keeps empty fields; modifies s */
    int k = 0, cnt = 1; char *p; char **v;
    for (p = s; *p; p++) if (*p == sep) cnt++;
    v = xalloc ((size_t) cnt + 1, sizeof (char *));
    v[k++] = s;
    for (; *s; s++) if (*s == sep) { *s = 0; v[k++] = s + 1; }
    v[k] = NULL; *n = k;
    return v;
}
static char *member_name (char *s) { return (!strcmp (s, "~")) ? (char *) "" : s; }

static void parse_groups (char *s) {
    int ns, i, j;
    char **sv;
    scans = NULL; nscans = 0;
    if (!strcmp (s, "-")) return;
    sv = split_on (s, '|', &ns);
    scans = xalloc ((size_t) ns, sizeof (grscan)); nscans = ns;
    for (i = 0; i < ns; i++) {
        int ni; char **iv;
        if (!*sv[i]) { scans[i].n = 0; scans[i].it = NULL; continue; }
        iv = split_on (sv[i], ';', &ni);
        scans[i].it = xalloc ((size_t) ni, sizeof (gritem)); scans[i].n = ni;
        for (j = 0; j < ni; j++) {
            gritem *it = &scans[i].it[j]; char *p = iv[j], *q;
            if (*p == 'e') { it->is_err = 1; it->err = atoi (p + 1); continue; }
            /* g<gid>=<m>,<m>[@need][!eintr] */
            if ((q = strchr (p, '!'))) { it->eintr = atoi (q + 1); *q = 0; }
            if ((q = strchr (p, '@'))) { it->need = (size_t) strtoull (q + 1, NULL, 10); *q = 0; }
            q = strchr (p, '=');
            *q = 0;
            it->gid = (gid_t) strtoul (p + 1, NULL, 10);
            if (!q[1]) { it->mem = xalloc (1, sizeof (char *)); }
            else {
                int nm, m; char **mv = split_on (q + 1, ',', &nm);
                for (m = 0; m < nm; m++) mv[m] = member_name (mv[m]);
                it->mem = mv;
            }
        }
    }
}
static void parse_passwd (char *s) {
    int n, i, j; char **v;
    pws = NULL; npws = 0;
    if (!strcmp (s, "-")) return;
    v = split_on (s, ';', &n);
    pws = xalloc ((size_t) n, sizeof (pwent)); npws = n;
    for (i = 0; i < n; i++) {
        char *q = strchr (v[i], '='); int nr; char **rv;
        *q = 0;
        pws[i].name = member_name (v[i]);
        rv = split_on (q + 1, '/', &nr);
        pws[i].r = xalloc ((size_t) nr, sizeof (pwresp)); pws[i].n = nr; pws[i].cur = 0;
        for (j = 0; j < nr; j++) {
            pwresp *r = &pws[i].r[j]; char *a;
            if (rv[j][0] == 'e') { r->is_err = 1; r->rv = atoi (rv[j] + 1); continue; }
            if ((a = strchr (rv[j], '@'))) { r->need = (size_t) strtoull (a + 1, NULL, 10); *a = 0; }
            r->uid = (uid_t) strtoul (rv[j], NULL, 10);
        }
    }
}
static int parse_pairs (char *s, uid_t **u, gid_t **g) {
    int n, i; char **v = split_on (s, ',', &n);
    *u = xalloc ((size_t) n + 1, sizeof (uid_t)); *g = xalloc ((size_t) n + 1, sizeof (gid_t));
    for (i = 0; i < n; i++) {
        char *d = strchr (v[i], '.');
        (*u)[i] = (uid_t) strtoul (v[i], NULL, 10);
        (*g)[i] = d ? (gid_t) strtoul (d + 1, NULL, 10) : 0;
    }
    return n;
}

/* ---------------------------------------------------------------- steps */
static void step (char *w) {
    char **f; int nf;
    evn = 0; evbuf[0] = 0;
    switch (w[0]) {
    case 'C':
        f = split_on (w, ':', &nf);
        G = gids_create (atoi (f[1]), atoi (f[2]));
        if (G) emit ("C[%s]", evbuf); else emit ("C-");
        break;
    case 'E':
        f = split_on (w, ':', &nf);
        env_now = (time_t) strtoll (f[1], NULL, 10);
        if (!strcmp (f[2], "x")) env_stat_fail = 1;
        else { env_stat_fail = 0; env_mtime = (time_t) strtoll (f[2], NULL, 10); }
        emit ("E");
        break;
    case 'D':
        f = split_on (w, ':', &nf);
        parse_groups (f[1]); parse_passwd (f[2]);
        emit ("D");
        break;
    case 'G':
        gtod_fail = atoi (w + 2); emit ("G");
        break;
    case 'L':
        f = split_on (w, ':', &nf);
        L_k = atoi (f[1]); L_n = parse_pairs (f[2], &L_u, &L_g); L_res = xalloc ((size_t) L_n + 1, 1); L_done = 0;
        if (L_k == 0) { L_k = -1; P_armed = 1; }
        emit ("L");
        break;
    case 'U':
        U_k = atoi (w + 2); emit ("U");
        break;
    case 'H':
        gids_update (G);
        emit ("H[%s]", evbuf);
        break;
    case 'Q': {
        uid_t *u; gid_t *g; int n = parse_pairs (w + 2, &u, &g), i;
        emit ("Q");
        for (i = 0; i < n; i++) emit ("%d", gids_is_member (G, u[i], g[i]) ? 1 : 0);
        break; }
    case 'T': {
        callback_f cb; void *arg;
        if (tqn == 0) { emit ("T-"); break; }
        cb = tq[0].cb; arg = tq[0].arg;
        memmove (&tq[0], &tq[1], (size_t) (tqn - 1) * sizeof (tq[0])); tqn--;
        scan_idx = 0; gr_pos = 0; eintr_left = -1; n_endgrent = 0; gr_lastlen = 0; pw_lastlen = 0; delivered = 0; gtod_calls = 0;
        if (P_armed && G) {
            int n = 0;
            P_parked = P_go = P_finished = 0;
            pthread_create (&P_tid, NULL, P_lookup, NULL);
            while (!__atomic_load_n (&P_parked, __ATOMIC_SEQ_CST) && !__atomic_load_n (&P_finished, __ATOMIC_SEQ_CST) && n++ < 2000) usleep (500);
        }
        cb (arg);
        if (P_armed && G) {
            __atomic_store_n (&P_go, 1, __ATOMIC_SEQ_CST);
            pthread_join (P_tid, NULL);
            L_done = 1;
        }
        P_armed = 0;
        emit ("T%d.%lu.%lu[%s]", scan_idx, (unsigned long) gr_lastlen, (unsigned long) pw_lastlen, evbuf);
        if (L_k) emit ("{%s}", L_done ? L_res : "-");
        L_k = 0; U_k = 0; gtod_fail = 0;
        break; }
    default:
        emit ("?");
    }
}

static void scenario (char *line) {
    char **w; int n, i;
    w = split_on (line, ' ', &n);
#ifdef HAVE_GETGRENT_R_ERANGE_BROKEN
    if (n < 2 || strcmp (w[0], "gids") || strcmp (w[1], "eb")) { emit ("skip"); return; }
#else
    if (n < 2 || strcmp (w[0], "gids") || strcmp (w[1], "gnu")) { emit ("skip"); return; }
#endif
    for (i = 2; i < n; i++) {
        if (!*w[i]) continue;
        if (i > 2) emit (" ");
        step (w[i]);
    }
    if (fatal_logged) emit (" fatal=%d", fatal_logged);
    if (G) { gids_destroy (G); G = NULL; }
}

int main (void) {
    char *line;
    while ((line = hx_getline (stdin))) {
        int pfd[2]; pid_t pid; FILE *ef = tmpfile ();
        fflush (stdout);
        if (pipe (pfd) < 0) { puts ("harness-error pipe"); return 2; }
        pid = fork ();
        if (pid == 0) {
            size_t off = 0;
            close (pfd[0]);
            if (ef) dup2 (fileno (ef), 2);
            scenario (line);
            while (off < outn) { ssize_t k = write (pfd[1], out + off, outn - off); if (k <= 0) break; off += (size_t) k; }
            close (pfd[1]);
            fflush (stderr);
            __lsan_do_leak_check ();            /* terminates with the sanitizer exit code on a leak */
            HX_COV_DUMP (); _exit (0);          /* not exit(): that would rewind the shared stdin offset */
        } else {
            char *buf = NULL; size_t len = 0, cap = 0; ssize_t k; int status = 0;
            close (pfd[1]);
            for (;;) {
                if (cap - len < 65536) { cap = cap ? cap * 2 : 131072; buf = realloc (buf, cap); }
                k = read (pfd[0], buf + len, cap - len - 1);
                if (k <= 0) break;
                len += (size_t) k;
            }
            buf[len] = 0;
            close (pfd[0]);
            waitpid (pid, &status, 0);
            if (WIFEXITED (status) && WEXITSTATUS (status) == 0) puts (buf);
            else {
                char msg[400] = ""; char l[1024];
                if (ef) {
                    rewind (ef);
                    while (fgets (l, sizeof (l), ef)) {
                        if (strstr (l, "ERROR: ") || strstr (l, "runtime error")) {
                            size_t i, m = 0;
                            for (i = 0; l[i] && l[i] != '\n' && m < sizeof (msg) - 1; i++) msg[m++] = (l[i] == ' ') ? '_' : l[i];
                            msg[m] = 0; break;
                        }
                    }
                    rewind (ef);
                    while (fgets (l, sizeof (l), ef)) fputs (l, stderr);
                }
                if (WIFEXITED (status)) printf ("abnormal exit=%d %s | %s\n", WEXITSTATUS (status), msg, buf);
                else printf ("abnormal signal=%d(%s) %s | %s\n", WTERMSIG (status), WTERMSIG (status) == SIGABRT ? "abort" : "killed", msg, buf);
            }
            free (buf);
        }
        if (ef) fclose (ef);
        fflush (stdout);
        free (line);
    }
    return 0;
}
