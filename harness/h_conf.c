/* Correspondence harness for the daemon's option processing (C06, C04, C03, C13 read its results through `conf`).
 *
 * #include of the real src/munged/conf.c: create_conf() + parse_cmdline() + process_conf() are run on an argv given on
 * the op line, and the fields of `struct conf` that the request pipeline reads are printed.  Built with
 * -ffunction-sections / --gc-sections so that the parts of conf.c that are not reached (key handling, --stop) need no
 * definitions.  The check runs this binary twice, with the allocator filling fresh memory with 0x00 and with 0xff
 * (ASAN_OPTIONS=malloc_fill_byte): a field that create_conf() forgets to set shows up as a difference.
 *
 * Environment replaced here, munge untouched: the fatal log functions (exit in munge; longjmp back to the op loop here),
 * net_get_hostname / net_get_hostaddr (no resolver in the sandbox; a fixed address).
 *
 *   conf argv <arg> <arg> ...        ->  ok max_ttl=.. def_ttl=.. ...   |   fatal
 */
#include "hx.h"
#include <errno.h>
#include <getopt.h>
#include <netinet/in.h>
#include <setjmp.h>
#include <stdarg.h>
#include <sanitizer/lsan_interface.h>
#include <munge.h>
#include "log.h"
#include "net.h"

static jmp_buf hx_fatal;
static int hx_armed;
static void hx_die (void) { if (hx_armed) longjmp (hx_fatal, 1); fprintf (stderr, "fatal log call outside an op\n"); abort (); }
void log_err (int status, int priority, const char *format, ...) { hx_die (); }
void log_errno (int status, int priority, const char *format, ...) { hx_die (); }
void log_msg (int priority, const char *format, ...) { }
void log_err_or_warn (int got_force, const char *format, ...) { if (!got_force) hx_die (); }

int net_get_hostname (char **result) { *result = strdup ("verif-host"); return *result ? 0 : -1; }
int net_get_hostaddr (const char *name, struct in_addr *inaddrp, char **ifnamep) {
    inaddrp->s_addr = htonl (0x0a000001); if (ifnamep) *ifnamep = NULL; return 0;
}

#include "src/munged/conf.c"

static void do_argv (char **w, int n) {
    char *argv[66]; int argc = 0, i; volatile int ok = 0;
    conf_t volatile c = NULL;
    argv[argc++] = (char *) "munged";
    for (i = 0; i < n && argc < 65; i++) argv[argc++] = w[i];
    argv[argc] = NULL;
    optind = 0;                                   /* glibc: re-initialise getopt between ops */
    hx_armed = 1;
    __lsan_disable ();                            /* a refusal is exit() in munged: what is allocated then is not a leak there */
    if (setjmp (hx_fatal) == 0) {
        c = create_conf ();
        parse_cmdline (c, argc, argv);
        process_conf (c);
        ok = 1;
    }
    __lsan_enable ();
    hx_armed = 0;
    if (!ok) { puts ("fatal"); return; }
    printf ("ok max_ttl=%u def_ttl=%u cipher=%d mac=%d zip=%d skew=%d rootauth=%d retry=%d bench=%d force=%d groupstat=%d "
            "nthreads=%d gids_secs=%d backlog=%d mlock=%d stop=%d fg=%d syslog=%d verbose=%d rnd_bytes=%d addr=%08x\n",
            (unsigned) c->max_ttl, (unsigned) c->def_ttl, (int) c->def_cipher, (int) c->def_mac, (int) c->def_zip,
            (int) c->got_clock_skew, (int) c->got_root_auth, (int) c->got_socket_retry, (int) c->got_benchmark, (int) c->got_force,
            (int) c->got_group_stat, c->nthreads, c->gids_update_secs, c->listen_backlog, (int) c->got_mlockall, (int) c->got_stop,
            (int) c->got_foreground, (int) c->got_syslog, (int) c->got_verbose, c->auth_rnd_bytes, (unsigned) ntohl (c->addr.s_addr));
    destroy_conf (c, 0);
}

int main (void) {
    char *line;
    while ((line = hx_getline (stdin))) {
        char **w = malloc (64 * sizeof (char *)); int n = hx_split (line, w, 64);
        if (n >= 2 && !strcmp (w[0], "conf") && !strcmp (w[1], "argv")) do_argv (w + 2, n - 2);
        else puts ("bad-op");
        fflush (stdout);
        free (w); free (line);
    }
    return 0;
}
