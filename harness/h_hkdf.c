/* Correspondence harness for C20 (keys and HKDF).  One source, four executables:
 *
 *   -DHX_PART_KEY  real src/common/hkdf.c (linked) + #include of the real src/mungekey/conf.c and key.c
 *                  ops: toy|real (hkdf), bits (create_conf + parse_cmdline), mk (… + create_key on a real file)
 *   -DHX_PART_SUB  #include of the real src/munged/conf.c: create_subkeys with scripted or real read() results
 *                  ops: sub, subf, subpair
 *   -DHX_PART_E2E  a libmunge client: encode through one daemon's socket, decode through another's
 *                  ops: e2e <socketA> <socketB>   (thorough tier; the daemons are started by tools/props/c20.py)
 *   -DHX_TOY       mac_* / md_* are the toy keyed checksum below (the Lean driver reproduces it byte for byte)
 *   -DHX_REAL      the real mac.c / md.c / crypto.c over OpenSSL are linked (judged by the python oracle)
 *
 * Environment replaced here, munge untouched: the fatal log functions (they exit in munge; here they longjmp
 * back to the op loop), entropy_read / entropy_read_uint (deterministic), read() inside create_subkeys (script),
 * path_dirname / path_is_secure for the key directory (C16's business, always "secure" here).
 */
#include "hx.h"
#include <errno.h>
#include <fcntl.h>
#include <setjmp.h>
#include <stdarg.h>
#include <stdint.h>
#include <sys/stat.h>
#include <sys/types.h>
#include <unistd.h>
#include <sanitizer/lsan_interface.h>
#include <munge.h>
#include "log.h"

#ifndef HX_PART_E2E
/* ------------------------------------------------------------------ fatal logging -> longjmp */
static jmp_buf hx_fatal;
static int hx_armed;
static void hx_die (void) { if (hx_armed) longjmp (hx_fatal, 1); fprintf (stderr, "fatal log call outside an op\n"); abort (); }
void log_err (int status, int priority, const char *format, ...) { hx_die (); }
void log_errno (int status, int priority, const char *format, ...) { hx_die (); }
void log_msg (int priority, const char *format, ...) { }
void log_err_or_warn (int got_force, const char *format, ...) { if (!got_force) hx_die (); }
int log_open_file (FILE *fp, const char *identity, int priority, int options) { return 0; }
int log_open_syslog (const char *identity, int facility) { return 0; }
void log_close_file (void) { }
void log_close_syslog (void) { }
void log_close_all (void) { }
#endif /* !HX_PART_E2E */

/* ------------------------------------------------------------------ toy keyed checksum */
static uint64_t toy_mix (uint64_t h, unsigned char b) { return ((h ^ (h >> 31)) ^ (uint64_t) b) * 1099511628211ULL; }
static uint64_t toy_absorb (uint64_t h, const unsigned char *p, size_t n) { size_t i; for (i = 0; i < n; i++) h = toy_mix (h, p[i]); return h; }
static void toy_squeeze (uint64_t h, unsigned char *dst, size_t n) { size_t i; for (i = 0; i < n; i++) { h = toy_mix (h, 0xa5); dst[i] = (unsigned char) (h >> 40); } }
#define TOY_SEED 14695981039346656037ULL

#if defined (HX_TOY) && !defined (HX_PART_E2E)
#include "mac.h"
#include "md.h"
typedef struct { uint64_t h; } toy_t;

int mac_size (munge_mac_t md) { return ((int) md >= 1 && (int) md <= 255) ? (int) md : -1; }
int mac_map_enum (munge_mac_t md, void *dst) { return mac_size (md) < 0 ? -1 : 0; }
int mac_init (mac_ctx *x, munge_mac_t md, const void *key, int keylen) {
    toy_t *t;
    if (!x || !key || keylen < 0 || mac_size (md) < 0) return -1;
    if (!(t = malloc (sizeof (*t)))) return -1;
    t->h = toy_mix (toy_mix (toy_absorb (TOY_SEED, key, keylen), 0x80), (unsigned char) keylen);
    x->ctx = (void *) t; x->diglen = mac_size (md);
    return 0;
}
int mac_update (mac_ctx *x, const void *src, int srclen) {
    if (!x || !src || srclen < 0 || !x->ctx) return -1;
    ((toy_t *) x->ctx)->h = toy_absorb (((toy_t *) x->ctx)->h, src, srclen);
    return 0;
}
int mac_final (mac_ctx *x, void *dst, int *dstlenp) {
    if (!x || !dst || !dstlenp || !x->ctx || *dstlenp < x->diglen) return -1;
    toy_squeeze (((toy_t *) x->ctx)->h, dst, x->diglen);
    *dstlenp = x->diglen;
    return 0;
}
int mac_cleanup (mac_ctx *x) { if (!x) return -1; free (x->ctx); memset (x, 0, sizeof (*x)); return 0; }

void md_init_subsystem (void) { }
int md_size (munge_mac_t md) { return ((int) md >= 1 && (int) md <= 64) ? 16 + (int) md : -1; }
int md_map_enum (munge_mac_t md, void *dst) { return md_size (md) < 0 ? -1 : 0; }
int md_init (md_ctx *x, munge_mac_t md) {
    toy_t *t;
    if (!x || md_size (md) < 0) return -1;
    if (!(t = malloc (sizeof (*t)))) return -1;
    t->h = toy_mix (TOY_SEED, (unsigned char) md);
    x->ctx = (void *) t; x->diglen = md_size (md);
    return 0;
}
int md_update (md_ctx *x, const void *src, int srclen) {
    if (!x || !src || srclen < 0 || !x->ctx) return -1;
    ((toy_t *) x->ctx)->h = toy_absorb (((toy_t *) x->ctx)->h, src, srclen);
    return 0;
}
int md_final (md_ctx *x, void *dst, int *dstlenp) {
    if (!x || !dst || !dstlenp || !x->ctx || *dstlenp < x->diglen) return -1;
    toy_squeeze (((toy_t *) x->ctx)->h, dst, x->diglen);
    *dstlenp = x->diglen;
    return 0;
}
int md_cleanup (md_ctx *x) { if (!x) return -1; free (x->ctx); memset (x, 0, sizeof (*x)); return 0; }
int md_copy (md_ctx *xdst, md_ctx *xsrc) {
    toy_t *t;
    if (!xdst || !xsrc || !xsrc->ctx) return -1;
    if (!(t = malloc (sizeof (*t)))) return -1;
    *t = *(toy_t *) xsrc->ctx;
    xdst->ctx = (void *) t; xdst->diglen = xsrc->diglen;
    return 0;
}
#define HX_VARIANT "toy"
#elif !defined (HX_PART_E2E)
#include "crypto.h"
#include "md.h"
#define HX_VARIANT "real"
#endif

static const char *hx_dir (void) { const char *d = getenv ("HX_DIR"); return d ? d : "/tmp"; }

/* ================================================================== PART_KEY */
#ifdef HX_PART_KEY
#include "hkdf.h"

/* deterministic entropy for _create_key_secret */
static uint64_t hx_seed;
static int hx_efail;       /* 1: the kernel entropy read fails; 2: the salt read fails (seed token "F1:<seed>" / "F2:<seed>") */
static unsigned char hx_salt[sizeof (unsigned)];
int entropy_read (void *buf, size_t buflen, const char **srcp) {
    if (!buf) { errno = EINVAL; return -1; }
    if (hx_efail == 1) { if (srcp) *srcp = NULL; errno = ENOSYS; return -1; }
    toy_squeeze (hx_seed, buf, buflen);
    if (srcp) *srcp = "harness";
    return (int) buflen;
}
int entropy_read_uint (unsigned *up) { if (!up) { errno = EINVAL; return -1; } if (hx_efail == 2) { errno = ENOSYS; return -1; } memcpy (up, hx_salt, sizeof (*up)); return 0; }

#include "src/mungekey/conf.c"
#include "src/mungekey/key.c"

/* hkdf <variant> <md> <salt|N> <ikm> <info|N> <L> */
static void do_hkdf (char **w) {
    hkdf_ctx_t *c; unsigned char *salt = NULL, *ikm = NULL, *info = NULL, *dst; long ns = -1, nk, ni = -1;
    int md = atoi (w[0]), rc; size_t L = (size_t) strtoul (w[4], NULL, 10), dstlen;
    if (strcmp (w[1], "N")) { ns = hx_parse (w[1], &salt); if (ns < 0) { puts ("bad-op"); return; } }
    nk = hx_parse (w[2], &ikm);
    if (strcmp (w[3], "N")) { ni = hx_parse (w[3], &info); if (ni < 0) { puts ("bad-op"); return; } }
    if (nk < 0) { puts ("bad-op"); return; }
    dst = malloc (L ? L : 1);                       /* exactly L bytes: ASan sees any excess */
    memset (dst, 0xAA, L ? L : 1);
    c = hkdf_ctx_create ();
    rc = hkdf_ctx_set_md (c, (munge_mac_t) md);
    if (rc == 0) rc = hkdf_ctx_set_key (c, ikm, nk);
    if (rc == 0 && ns >= 0) rc = hkdf_ctx_set_salt (c, salt, ns);
    if (rc == 0 && ni >= 0) rc = hkdf_ctx_set_info (c, info, ni);
    dstlen = L;
    if (rc == 0) rc = hkdf (c, dst, &dstlen);
    if (rc != 0) printf ("rc=%d\n", rc);
    else { printf ("rc=0 n=%zu okm=", dstlen); hx_print (dst, dstlen <= L ? (long) dstlen : (long) L); printf ("\n"); }
    hkdf_ctx_destroy (c);
    free (salt); free (ikm); free (info); free (dst);
}

/* run create_conf + parse_cmdline (+ create_key) with the fatal log calls caught; returns conf or NULL */
static conf_t *volatile hx_conf;
static int run_mungekey (int argc, char **argv, int create) {
    int ok = 0;
    hx_conf = NULL;
    hx_armed = 1;
    if (setjmp (hx_fatal) == 0) {
        hx_conf = create_conf ();
        optind = 0;                                 /* glibc: re-initialise getopt */
        parse_cmdline (hx_conf, argc, argv);
        if (create && hx_conf->do_create) create_key (hx_conf);
        ok = 1;
    }
    hx_armed = 0;
    return ok;
}

/* bits <l|-> */
static void do_bits (const char *b) {
    char *argv[4]; int argc = 0, ok;
    argv[argc++] = "mungekey";
    if (strcmp (b, "-")) { argv[argc++] = "--bits"; argv[argc++] = (char *) b; }
    argv[argc] = NULL;
    ok = run_mungekey (argc, argv, 0);
    if (ok) printf ("bytes=%d\n", hx_conf->key_num_bytes); else puts ("refused");
    if (hx_conf) destroy_conf (hx_conf);
}

/* mk <force> <umask> <pre> <bits|-> <seed> <salt>;  pre = none | <mode-octal>:<hex> */
static void do_mk (char **w) {
    char path[4096]; char *argv[8]; int argc = 0, ok; mode_t old; struct stat st; unsigned char *salt; long n;
    snprintf (path, sizeof (path), "%s/key", hx_dir ());
    unlink (path);
    if (strcmp (w[2], "none")) {
        char *colon = strchr (w[2], ':'); unsigned char *b; long k; int fd;
        if (!colon) { puts ("bad-op"); return; }
        *colon = 0;
        k = hx_parse (colon + 1, &b);
        if (k < 0) { puts ("bad-op"); return; }
        fd = open (path, O_WRONLY | O_CREAT | O_TRUNC, 0600);
        if (fd < 0 || write (fd, b, k) != k || fchmod (fd, (mode_t) strtoul (w[2], NULL, 8)) < 0) { puts ("harness-error"); return; }
        close (fd); free (b);
    }
    hx_efail = 0;
    if (w[4][0] == 'F' && w[4][1] && w[4][2] == ':') { hx_efail = w[4][1] - '0'; hx_seed = strtoull (w[4] + 3, NULL, 10); }
    else hx_seed = strtoull (w[4], NULL, 10);
    n = hx_parse (w[5], &salt);
    memset (hx_salt, 0, sizeof (hx_salt));
    if (n > 0) memcpy (hx_salt, salt, n < (long) sizeof (hx_salt) ? (size_t) n : sizeof (hx_salt));
    free (salt);
    argv[argc++] = "mungekey"; argv[argc++] = "--keyfile"; argv[argc++] = path;
    if (strcmp (w[3], "-")) { argv[argc++] = "--bits"; argv[argc++] = w[3]; }
    if (!strcmp (w[0], "1")) argv[argc++] = "--force";
    argv[argc] = NULL;
    old = umask ((mode_t) strtoul (w[1], NULL, 8));
    ok = run_mungekey (argc, argv, 1);
    umask (old);
    if (hx_conf) destroy_conf (hx_conf);
    if (lstat (path, &st) < 0) printf ("ok=%d exists=0\n", ok);
    else {
        unsigned char *b = malloc (st.st_size ? st.st_size : 1); int fd = open (path, O_RDONLY); long k = 0;
        if (fd >= 0) { k = read (fd, b, st.st_size); close (fd); }
        printf ("ok=%d exists=1 size=%ld mode=%04o content=", ok, (long) st.st_size, (unsigned) (st.st_mode & 07777));
        hx_print (b, k); printf ("\n");
        free (b);
    }
    unlink (path);
}
#endif /* HX_PART_KEY */

/* ================================================================== PART_SUB */
#ifdef HX_PART_SUB
/* scripted read() for the loop of create_subkeys */
typedef struct { long n; int err; unsigned char *data; } hx_ev;
static hx_ev *hx_evs; static int hx_nev, hx_iev, hx_scripted;
static ssize_t hx_read (int fd, void *buf, size_t count) {
    hx_ev *e;
    if (!hx_scripted) return read (fd, buf, count);
    if (hx_iev >= hx_nev) return 0;
    e = &hx_evs[hx_iev++];
    if (e->n > 0) {
        if ((size_t) e->n > count) { fprintf (stderr, "script chunk of %ld bytes exceeds read buffer of %zu\n", e->n, count); abort (); }
        memcpy (buf, e->data, e->n);
    }
    if (e->n < 0) errno = e->err;
    return e->n;
}
#include "path.h"
int path_dirname (const char *src, char *dst, size_t dstlen) { if (dstlen) dst[0] = 0; strncat (dst, "/", dstlen ? dstlen - 1 : 0); return 1; }
int path_is_secure (const char *path, char *errbuf, size_t errbuflen, path_security_flag_t flags) { return 1; }
#define read hx_read
#include "src/munged/conf.c"
#undef read

/* In munged a refusal is exit(): digest contexts still open at that point are not leaks there, so LeakSanitizer
 * is paused while create_subkeys runs (its two result buffers are freed here). */
static void run_subkeys (const char *path, const char *tag) {
    struct conf c; volatile int ok = 0;
    memset (&c, 0, sizeof (c));
    c.key_name = (char *) path;
    c.got_force = 1;
    hx_armed = 1;
    __lsan_disable ();
    if (setjmp (hx_fatal) == 0) { create_subkeys (&c); ok = 1; }
    __lsan_enable ();
    hx_armed = 0;
    if (!ok) printf ("%srefused", tag);
    else {
        printf ("%sdek_key=", tag); hx_print (c.dek_key, c.dek_key_len);
        printf (" %smac_key=", tag); hx_print (c.mac_key, c.mac_key_len);
    }
    free (c.dek_key); free (c.mac_key);
}

static void keyfile (char *path, size_t len, const unsigned char *b, long n) {
    int fd;
    snprintf (path, len, "%s/subkey", hx_dir ());
    unlink (path);
    fd = open (path, O_WRONLY | O_CREAT | O_TRUNC, 0600);
    if (fd < 0 || (n > 0 && write (fd, b, n) != n)) { perror ("keyfile"); abort (); }
    close (fd);
}

/* sub <script>: d<hex> | i | e<errno> | z , comma separated */
static void do_sub (char *script) {
    char path[4096]; char *save = NULL, *tok; int cap = 16, i;
    keyfile (path, sizeof (path), (const unsigned char *) "x", 1);
    hx_evs = malloc (cap * sizeof (hx_ev)); hx_nev = hx_iev = 0;
    if (strcmp (script, "-"))
        for (tok = strtok_r (script, ",", &save); tok; tok = strtok_r (NULL, ",", &save)) {
            hx_ev e = { 0, 0, NULL };
            if (tok[0] == 'd') { e.n = hx_parse (tok + 1, &e.data); if (e.n < 0) { puts ("bad-op"); return; } }
            else if (tok[0] == 'i') { e.n = -1; e.err = EINTR; }
            else if (tok[0] == 'z') { e.n = 0; }
            else if (tok[0] == 'e') { e.n = -1; e.err = atoi (tok + 1); }
            else { puts ("bad-op"); return; }
            if (hx_nev == cap) { cap *= 2; hx_evs = realloc (hx_evs, cap * sizeof (hx_ev)); }
            hx_evs[hx_nev++] = e;
        }
    hx_scripted = 1;
    run_subkeys (path, ""); printf ("\n");
    hx_scripted = 0;
    for (i = 0; i < hx_nev; i++) free (hx_evs[i].data);
    free (hx_evs); hx_evs = NULL;
    unlink (path);
}

/* subf <hex>: a real file with this content, real read() */
static void do_subf (const char *h) {
    char path[4096]; unsigned char *b; long n = hx_parse (h, &b);
    if (n < 0) { puts ("bad-op"); return; }
    keyfile (path, sizeof (path), b, n);
    free (b);
    run_subkeys (path, ""); printf ("\n");
    unlink (path);
}

/* subpair <hex> <offset> <xor>: the file, and the file with one byte changed (real files, real read()) */
static void do_subpair (const char *h, long off, int x) {
    char path[4096]; unsigned char *b; long n = hx_parse (h, &b);
    if (n < 0 || off < 0 || off >= n) { puts ("bad-op"); return; }
    keyfile (path, sizeof (path), b, n);
    run_subkeys (path, "a:"); printf (" ");
    b[off] ^= (unsigned char) x;
    keyfile (path, sizeof (path), b, n);
    run_subkeys (path, "b:"); printf ("\n");
    free (b);
    unlink (path);
}
#endif /* HX_PART_SUB */

/* ================================================================== PART_E2E */
#ifdef HX_PART_E2E
/* e2e <socketA> <socketB>: a credential minted by daemon A is presented to daemon B */
static void do_e2e (const char *sa, const char *sb) {
    munge_ctx_t ca = munge_ctx_create (), cb = munge_ctx_create ();
    char *cred = NULL; void *pl = NULL; int len = 0; uid_t u; gid_t g; munge_err_t e1, e2 = -1;
    munge_ctx_set (ca, MUNGE_OPT_SOCKET, sa);
    munge_ctx_set (cb, MUNGE_OPT_SOCKET, sb);
    e1 = munge_encode (&cred, ca, "c20", 3);
    if (e1 == EMUNGE_SUCCESS) e2 = munge_decode (cred, cb, &pl, &len, &u, &g);
    printf ("enc=%d dec=%d\n", (int) e1, (int) e2);
    free (cred); free (pl);
    munge_ctx_destroy (ca); munge_ctx_destroy (cb);
}
#endif /* HX_PART_E2E */

int main (void) {
    char *line;
#if defined (HX_REAL) && !defined (HX_PART_E2E)
    crypto_init ();
    md_init_subsystem ();
#endif
    while ((line = hx_getline (stdin))) {
        char *w[12]; int n = hx_split (line, w, 12);
        if (n < 2 || strcmp (w[0], "hkdf")) puts ("bad-op");
#ifdef HX_PART_KEY
        else if (n == 7 && !strcmp (w[1], HX_VARIANT)) do_hkdf (w + 2);
        else if (n == 3 && !strcmp (w[1], "bits")) do_bits (w[2]);
        else if (n == 9 && !strcmp (w[1], "mk") && !strcmp (w[8], HX_VARIANT)) do_mk (w + 2);
#endif
#ifdef HX_PART_E2E
        else if (n == 4 && !strcmp (w[1], "e2e")) do_e2e (w[2], w[3]);
#endif
#ifdef HX_PART_SUB
        else if (n == 4 && !strcmp (w[1], "sub") && !strcmp (w[3], HX_VARIANT)) do_sub (w[2]);
        else if (n == 4 && !strcmp (w[1], "subf") && !strcmp (w[3], HX_VARIANT)) do_subf (w[2]);
        else if (n == 6 && !strcmp (w[1], "subpair") && !strcmp (w[5], HX_VARIANT)) do_subpair (w[2], atol (w[3]), atoi (w[4]));
#endif
        else puts ("bad-op");
        fflush (stdout);
        free (line);
    }
#if defined (HX_REAL) && !defined (HX_PART_E2E)
    crypto_fini ();
#endif
    return 0;
}
