/* Shared helpers for the line-protocol harnesses. */
#ifndef HX_H
#define HX_H
#include <stdio.h>
#include <stdlib.h>
#include <string.h>
#include <ctype.h>

static int hx_val (int c) {
    if (c >= '0' && c <= '9') return c - '0';
    if (c >= 'a' && c <= 'f') return c - 'a' + 10;
    if (c >= 'A' && c <= 'F') return c - 'A' + 10;
    return -1;
}
/* parse hex (or "-" for empty) into a freshly malloc'd buffer of exactly n bytes
 * (n == 0 -> 1-byte allocation so the pointer is valid); returns length or -1 */
static long hx_parse (const char *s, unsigned char **out) {
    size_t n, i;
    unsigned char *b;
    if (!strcmp (s, "-")) { *out = malloc (1); return 0; }
    n = strlen (s);
    if (n % 2) return -1;
    b = malloc (n / 2 ? n / 2 : 1);
    for (i = 0; i < n / 2; i++) {
        int h = hx_val (s[2*i]), l = hx_val (s[2*i+1]);
        if (h < 0 || l < 0) { free (b); return -1; }
        b[i] = (unsigned char) (h * 16 + l);
    }
    *out = b;
    return (long) (n / 2);
}
static void hx_print (const unsigned char *b, long n) {
    long i;
    if (n <= 0) { fputs ("-", stdout); return; }
    for (i = 0; i < n; i++) printf ("%02x", b[i]);
}
/* read one line (any length); returns malloc'd string without newline, or NULL at EOF */
static char *hx_getline (FILE *f) {
    char *line = NULL; size_t cap = 0; ssize_t n = getline (&line, &cap, f);
    if (n < 0) { free (line); return NULL; }
    while (n > 0 && (line[n-1] == '\n' || line[n-1] == '\r')) line[--n] = 0;
    return line;
}
/* split on spaces in place; returns count */
static int hx_split (char *s, char **w, int max) {
    int n = 0;
    while (*s && n < max) {
        while (*s == ' ') s++;
        if (!*s) break;
        w[n++] = s;
        while (*s && *s != ' ') s++;
        if (*s) *s++ = 0;
    }
    return n;
}
/* tools/coverage.sh builds with -DHX_COV --coverage: children that leave through _exit () must flush their counters */
#ifdef HX_COV
extern void __gcov_dump (void);
#define HX_COV_DUMP() __gcov_dump ()
#else
#define HX_COV_DUMP() ((void) 0)
#endif

#endif
