/* Concurrency harness for C11 (model `Sys`).
 *
 * The real job.c, dec.c, enc.c and replay.c are #included (one TU, statics reachable); hash.c (the replay table with its
 * mutexes), m_msg.c, fd.c, str.c, cred.c, base64.c, auth_recv.c, zip.c, thread.c, crypto.c, the REAL log.c (+ daemonpipe.c)
 * and libmunge/strerror.c are linked as they are; mac / cipher / zlib / bzlib come from toy_prims.c (byte-for-byte twins
 * of the Lean toy primitives).
 *
 * One op line = one concurrent scenario: k requests, each executed by the real _job_exec() on a socketpair, on worker
 * threads, with a PER-THREAD scripted environment (thread-local peer identity and clock) and either
 *   - a FORCED schedule: every worker stops at a gate in front of each of its shared-state operations
 *     (start = recv, gids_is_member = lookup, 1st/2nd random_pseudo_bytes = salt/iv, replay_insert = insert,
 *     m_msg_send = send, replay_remove = remove); the main thread releases one (request, step) at a time in the order
 *     given and waits until that worker stops at its next gate or finishes; `swap` installs the next gid map,
 *     `purge@T` runs the real replay_purge() at time T;  or
 *   - a FREE schedule: the requests are dealt to n worker threads which run them as fast as they can, optionally with a
 *     thread calling replay_purge() and a thread swapping the gid-map version concurrently.
 * Output: every client's reply bytes and the number of records left in the replay table.
 *
 * Shared state the harness itself supplies is guarded the way the real one is: the gid-map stub by a mutex
 * (gids->mutex), the PRNG stream position by a mutex (OpenSSL's RAND lock).  No sleeps decide anything; a watchdog
 * alarm aborts a wedged scenario. */
#define _GNU_SOURCE
#include "hx.h"
#include <dlfcn.h>
#include <errno.h>
#include <pthread.h>
#include <signal.h>
#include <stdarg.h>
#include <syslog.h>
#include <sys/socket.h>
#include <sys/types.h>
#include <time.h>
#include <unistd.h>

enum { ST_RECV = 0, ST_LOOKUP, ST_SALT, ST_IV, ST_INSERT, ST_SEND, ST_REMOVE, ST_DONE, ST_RUNNING = -1 };
static const char *st_names[] = { "recv", "lookup", "salt", "iv", "insert", "send", "remove" };

struct req {
    unsigned char *bytes; long len;
    unsigned int   uid, gid; int peer_fail;
    long           now;
    int            sendok;
    unsigned char *rsp; long rsplen;
    /* forced mode */
    int            at;          /* gate the worker is stopped at, ST_RUNNING, or ST_DONE */
    int            go;
    int            ndraw;
};
static __thread struct req *T = NULL;           /* the request the current thread is executing */
static long            g_main_now = 1000000;    /* time() for threads that are not executing a request */
static int             g_forced = 0;
static pthread_mutex_t G  = PTHREAD_MUTEX_INITIALIZER;
static pthread_cond_t  GC = PTHREAD_COND_INITIALIZER;

static void gate (int step) {
    if (!g_forced || !T) return;
    pthread_mutex_lock (&G);
    T->at = step; T->go = 0;
    pthread_cond_broadcast (&GC);
    while (!T->go) pthread_cond_wait (&GC, &G);
    pthread_mutex_unlock (&G);
}
static void gate_done (void) {
    if (!g_forced || !T) return;
    pthread_mutex_lock (&G);
    T->at = ST_DONE;
    pthread_cond_broadcast (&GC);
    pthread_mutex_unlock (&G);
}

/* ---- scripted environment ----------------------------------------------------------------- */
time_t time (time_t *t) { long v = T ? T->now : g_main_now; if (t) *t = (time_t) v; return (time_t) v; }

int getsockopt (int fd, int level, int optname, void *optval, socklen_t *optlen) {
    static int (*real) (int, int, int, void *, socklen_t *) = NULL;
    if (level == SOL_SOCKET && optname == SO_PEERCRED) {
        struct ucred *u = optval;
        if (!T || T->peer_fail) { errno = ENOTCONN; return -1; }
        u->pid = 4242; u->uid = T->uid; u->gid = T->gid;
        *optlen = sizeof (*u);
        return 0;
    }
    if (!real) real = dlsym (RTLD_NEXT, "getsockopt");
    return real (fd, level, optname, optval, optlen);
}

/* the PRNG: one shared output stream, position under a lock (as OpenSSL's RAND is) */
static pthread_mutex_t g_rnd_lock = PTHREAD_MUTEX_INITIALIZER;
static unsigned long   g_rnd_pos = 0;
static unsigned long   g_rnd_adds = 0;
void random_pseudo_bytes (void *buf, int n) {
    int i; unsigned char *b = buf;
    if (T) { gate (T->ndraw == 0 ? ST_SALT : ST_IV); T->ndraw++; }
    pthread_mutex_lock (&g_rnd_lock);
    for (i = 0; i < n; i++) {       /* aligned 4-byte groups encode their index injectively: no 8-byte draw repeats */
        unsigned long x = g_rnd_pos + i; unsigned int wd = (unsigned int) ((x >> 2) * 2654435761UL + 12345UL);
        b[i] = (unsigned char) (wd >> (8 * (x & 3)));
    }
    g_rnd_pos += n;
    pthread_mutex_unlock (&g_rnd_lock);
}
void random_add (const void *buf, int n) {
    pthread_mutex_lock (&g_rnd_lock); g_rnd_adds++; pthread_mutex_unlock (&g_rnd_lock);
}
long timer_set_relative (void (*cb) (void *), void *arg, long msec) { return 1; }

#include "conf.h"
#include "gids.h"
#include "work.h"
#include "log.h"
conf_t conf = NULL;
volatile sig_atomic_t got_reconfig = 0, got_terminate = 0;

/* the gid map: versions 0..MAXV-1 of a membership relation; the installed version under a mutex */
#define MAXV 4
static pthread_mutex_t g_gid_lock = PTHREAD_MUTEX_INITIALIZER;
static int             g_gidver = 0;
static unsigned int    g_mem[MAXV][64][2]; static int g_nmem[MAXV];
int gids_is_member (gids_t gids, uid_t uid, gid_t gid) {
    int i, v, r = 0;
    gate (ST_LOOKUP);
    pthread_mutex_lock (&g_gid_lock);
    v = g_gidver % MAXV;
    for (i = 0; i < g_nmem[v]; i++) if (g_mem[v][i][0] == uid && g_mem[v][i][1] == gid) { r = 1; break; }
    pthread_mutex_unlock (&g_gid_lock);
    return r;
}
void gids_update (gids_t gids) {}
work_p work_init (work_func_t f, int n) { return NULL; }
void work_fini (work_p wp, int do_wait) {}
int work_queue (work_p wp, void *work) { return -1; }
void work_wait (work_p wp) {}

#include "cred.h"
#include "replay.h"
#include "m_msg.h"
static int hs_replay_insert (munge_cred_t c) { gate (ST_INSERT); return replay_insert (c); }
static int hs_replay_remove (munge_cred_t c) { gate (ST_REMOVE); return replay_remove (c); }
static munge_err_t hs_m_msg_send (m_msg_t m, m_msg_type_t type, int maxlen) { gate (ST_SEND); return m_msg_send (m, type, maxlen); }
#include "replay.c"
#define replay_insert hs_replay_insert
#define replay_remove hs_replay_remove
#define m_msg_send hs_m_msg_send
#include "dec.c"
#include "enc.c"
#include "job.c"
#undef replay_insert
#undef replay_remove
#undef m_msg_send

/* ---- configuration ------------------------------------------------------------------------ */
static unsigned char g_mackey[64], g_dekkey[64];
static void conf_defaults (void) {
    int i;
    conf = calloc (1, sizeof (*conf));
    conf->got_clock_skew = 1;
    conf->got_root_auth = !! MUNGE_AUTH_ROOT_ALLOW_FLAG;
    conf->got_socket_retry = !! MUNGE_SOCKET_RETRY_FLAG;
    conf->def_cipher = MUNGE_DEFAULT_CIPHER;
    conf->def_zip = MUNGE_ZIP_NONE;
    conf->def_mac = MUNGE_DEFAULT_MAC;
    conf->def_ttl = MUNGE_DEFAULT_TTL;
    conf->max_ttl = MUNGE_MAXIMUM_TTL;
    for (i = 0; i < 20; i++) { g_mackey[i] = (unsigned char) (0x11 + i); g_dekkey[i] = (unsigned char) (0x77 - i); }
    conf->mac_key = g_mackey; conf->mac_key_len = 20;
    conf->dek_key = g_dekkey; conf->dek_key_len = 20;
    conf->addr.s_addr = htonl (0x7f000001);
}

/* ---- one transaction, on the calling thread ------------------------------------------------ */
static void run_request (struct req *r) {
    int sv[2]; m_msg_t m; long off = 0, cap = 4096; ssize_t k;
    T = r; r->ndraw = 0;
    if (socketpair (AF_UNIX, SOCK_STREAM, 0, sv) < 0) abort ();
    if (!r->sendok) shutdown (sv[1], SHUT_RD);             /* this client will not take the reply */
    while (off < r->len) {
        k = write (sv[1], r->bytes + off, r->len - off);
        if (k <= 0) break;
        off += k;
    }
    shutdown (sv[1], SHUT_WR);                            /* request complete: a short one is seen as EOF, not waited for */
    gate (ST_RECV);
    if (m_msg_create (&m) != EMUNGE_SUCCESS || m_msg_bind (m, sv[0]) != EMUNGE_SUCCESS) abort ();
    fd_set_nonblocking (sv[0]);
    _job_exec (m);                                         /* recv, process, send, destroy (closes sv[0]) */
    r->rsp = malloc (cap); r->rsplen = 0;
    if (r->sendok) {
        while ((k = read (sv[1], r->rsp + r->rsplen, cap - r->rsplen)) > 0) {
            r->rsplen += k;
            if (r->rsplen == cap) { cap *= 2; r->rsp = realloc (r->rsp, cap); }
        }
    }
    close (sv[1]);
    gate_done ();
    T = NULL;
}

/* free mode: worker j runs requests j, j+n, j+2n, ... */
struct worker { struct req *reqs; int k, j, n; pthread_barrier_t *bar; };
static void *free_worker (void *arg) {
    struct worker *w = arg; int i;
    pthread_barrier_wait (w->bar);
    for (i = w->j; i < w->k; i += w->n) run_request (&w->reqs[i]);
    return NULL;
}
static void *forced_worker (void *arg) { run_request (arg); return NULL; }

static int g_bg_stop = 0;
#define BG_STOP() __atomic_load_n (&g_bg_stop, __ATOMIC_ACQUIRE)
/* (the purger holds the replay-table mutex for a whole scan of the 65537-slot table - long under ThreadSanitizer - and glibc mutexes
 * are not fair: re-taking it at once starved the request threads for minutes on some runs, a wedge of the harness' own making;
 * a short pause between scans lets the waiters in, the real daemon purges once a minute) */
static void *bg_purger (void *arg) { while (!BG_STOP ()) { replay_purge (); usleep (300); } return NULL; }
static void *bg_swapper (void *arg) {
    while (!BG_STOP ()) { pthread_mutex_lock (&g_gid_lock); g_gidver++; pthread_mutex_unlock (&g_gid_lock); sched_yield (); }
    return NULL;
}
static void *bg_logger (void *arg) { int i = 0; while (!BG_STOP ()) { log_msg (LOG_INFO, "background line %d", i++); sched_yield (); } return NULL; }

static char *kv (char **w, int n, const char *key) {
    int i; size_t k = strlen (key);
    for (i = 0; i < n; i++) if (!strncmp (w[i], key, k) && w[i][k] == '=') return w[i] + k + 1;
    return NULL;
}

static void parse_mem (char *v) {
    int i; char *s = v;
    for (i = 0; i < MAXV; i++) g_nmem[i] = 0;
    if (!v || !strcmp (v, "-")) return;
    while (*s) {
        unsigned int ver, u, g; int used = 0;
        if (sscanf (s, "%u:%u:%u%n", &ver, &u, &g, &used) < 3) break;
        if (ver < MAXV && g_nmem[ver] < 64) { g_mem[ver][g_nmem[ver]][0] = u; g_mem[ver][g_nmem[ver]][1] = g; g_nmem[ver]++; }
        s += used; if (*s == ';') s++;
    }
}

static int step_of (const char *s) { int i; for (i = 0; i < 7; i++) if (!strcmp (s, st_names[i])) return i; return -2; }

/* release request i at gate `step` (if that is where it stands) and wait until it stops again */
static void release (struct req *r, int step) {
    pthread_mutex_lock (&G);
    while (r->at == ST_RUNNING) pthread_cond_wait (&GC, &G);
    if (r->at == step) {
        r->at = ST_RUNNING; r->go = 1;
        pthread_cond_broadcast (&GC);
        while (r->at == ST_RUNNING) pthread_cond_wait (&GC, &G);
    }
    pthread_mutex_unlock (&G);
}

static FILE *g_logfp = NULL;
static void open_log (const char *path) {
    FILE *fp = fopen (path, "w");
    if (!fp) abort ();
    setvbuf (fp, NULL, _IONBF, 0);
    log_open_file (fp, NULL, LOG_DEBUG, 0);              /* replaces log_ctx.fp; the old FILE stays open (tiny, intended) */
    if (g_logfp) fclose (g_logfp);
    g_logfp = fp;
}

/* sys scen sched=<free|entries> [nthreads=N] [purger=1] [swapper=1] [logger=1] [logfull=1] [mem=v:u:g;...] r=<hex>:<uid|fail>:<gid>:<now|fail>:<sendok> ... */
static void do_scen (char **w, int n) {
    struct req *reqs; int k = 0, i, nthreads; char *v, *sched; pthread_t *th;
    reqs = calloc (n, sizeof (*reqs));
    for (i = 0; i < n; i++) {
        if (!strncmp (w[i], "r=", 2)) {
            char *s = w[i] + 2, *p1 = strchr (s, ':'), *p2, *p3, *p4; struct req *r = &reqs[k];
            if (!p1) goto bad; *p1++ = 0;
            if (!(p2 = strchr (p1, ':'))) goto bad; *p2++ = 0;
            if (!(p3 = strchr (p2, ':'))) goto bad; *p3++ = 0;
            if (!(p4 = strchr (p3, ':'))) goto bad; *p4++ = 0;
            r->len = hx_parse (s, &r->bytes);
            if (r->len < 0) goto bad;
            if (!strcmp (p1, "fail")) r->peer_fail = 1; else r->uid = (unsigned int) strtoul (p1, NULL, 10);
            r->gid = (unsigned int) strtoul (p2, NULL, 10);
            r->now = !strcmp (p3, "fail") ? -1 : atol (p3);
            r->sendok = atoi (p4);
            r->at = ST_RUNNING;
            k++;
        }
    }
    sched = kv (w, n, "sched");
    if (!sched || k == 0) goto bad;
    parse_mem (kv (w, n, "mem"));
    open_log ((v = kv (w, n, "logfull")) && atoi (v) ? "/dev/full" : "/dev/null");
    replay_fini (); replay_init ();
    g_rnd_pos = 0; g_gidver = 0; __atomic_store_n (&g_bg_stop, 0, __ATOMIC_RELEASE);
    alarm (120);
    if (strcmp (sched, "free")) {
        /* ---- forced ---- */
        char *s = sched;
        g_forced = 1;
        th = calloc (k, sizeof (*th));
        for (i = 0; i < k; i++) pthread_create (&th[i], NULL, forced_worker, &reqs[i]);
        while (*s) {
            char *e = strchr (s, ','); if (e) *e = 0;
            if (!strcmp (s, "swap")) { pthread_mutex_lock (&g_gid_lock); g_gidver++; pthread_mutex_unlock (&g_gid_lock); }
            else if (!strncmp (s, "purge@", 6)) { g_main_now = atol (s + 6); replay_purge (); }
            else {
                char *dot = strchr (s, '.'); int idx, st;
                if (dot) { *dot = 0; idx = atoi (s); st = step_of (dot + 1); if (idx >= 0 && idx < k && st >= 0) release (&reqs[idx], st); }
            }
            if (!e) break;
            s = e + 1;
        }
        /* safety net: run everything that is left to completion, in index order */
        for (i = 0; i < k; i++) { int st; for (st = 0; st < 7; st++) release (&reqs[i], st); }
        for (i = 0; i < k; i++) pthread_join (th[i], NULL);
        g_forced = 0;
        free (th);
    }
    else {
        /* ---- free ---- */
        pthread_barrier_t bar; struct worker *ws; pthread_t bg[8]; int nbg = 0, nl;
        nthreads = (v = kv (w, n, "nthreads")) ? atoi (v) : k;
        if (nthreads < 1) nthreads = 1;
        if (nthreads > k) nthreads = k;
        g_forced = 0;
        g_main_now = 1;                                    /* the purger never finds anything expired */
        pthread_barrier_init (&bar, NULL, nthreads);
        th = calloc (nthreads, sizeof (*th)); ws = calloc (nthreads, sizeof (*ws));
        if ((v = kv (w, n, "purger")) && atoi (v)) pthread_create (&bg[nbg++], NULL, bg_purger, NULL);
        if ((v = kv (w, n, "swapper")) && atoi (v)) pthread_create (&bg[nbg++], NULL, bg_swapper, NULL);
        for (nl = (v = kv (w, n, "logger")) ? atoi (v) : 0; nl > 0 && nbg < 8; nl--) pthread_create (&bg[nbg++], NULL, bg_logger, NULL);
        for (i = 0; i < nthreads; i++) {
            ws[i].reqs = reqs; ws[i].k = k; ws[i].j = i; ws[i].n = nthreads; ws[i].bar = &bar;
            pthread_create (&th[i], NULL, free_worker, &ws[i]);
        }
        for (i = 0; i < nthreads; i++) pthread_join (th[i], NULL);
        __atomic_store_n (&g_bg_stop, 1, __ATOMIC_RELEASE);
        for (i = 0; i < nbg; i++) pthread_join (bg[i], NULL);
        pthread_barrier_destroy (&bar);
        free (th); free (ws);
    }
    alarm (0);
    for (i = 0; i < k; i++) { printf ("o%d=", i); hx_print (reqs[i].rsp, reqs[i].rsplen); putchar (' '); }
    printf ("rs=%d\n", replay_hash ? hash_count (replay_hash) : -1);
    for (i = 0; i < k; i++) { free (reqs[i].bytes); free (reqs[i].rsp); }
    free (reqs);
    return;
bad:
    for (i = 0; i < k; i++) free (reqs[i].bytes);
    free (reqs);
    puts ("bad-op");
}

/* sys one <hex request> <uid> <gid> <now>: one transaction on the main thread (used to mint credentials) */
static void do_one (char **w, int n) {
    struct req r; memset (&r, 0, sizeof r);
    if (n < 6 || (r.len = hx_parse (w[2], &r.bytes)) < 0) { puts ("bad-op"); return; }
    r.uid = (unsigned int) strtoul (w[3], NULL, 10); r.gid = (unsigned int) strtoul (w[4], NULL, 10);
    r.now = atol (w[5]); r.sendok = 1; r.at = ST_RUNNING;
    replay_fini (); replay_init (); g_rnd_pos = 0; g_gidver = 0;
    run_request (&r);
    printf ("o0="); hx_print (r.rsp, r.rsplen); putchar ('\n');
    free (r.bytes); free (r.rsp);
}

int main (void) {
    char *line;
    signal (SIGPIPE, SIG_IGN);
    conf_defaults ();
    open_log ("/dev/null");
    replay_init ();
    while ((line = hx_getline (stdin))) {
        int cap = (int) strlen (line) / 2 + 8;
        char **w = malloc (cap * sizeof (char *)); int n = hx_split (line, w, cap);
        if (n >= 3 && !strcmp (w[0], "sys") && !strcmp (w[1], "scen")) do_scen (w, n);
        else if (n >= 2 && !strcmp (w[0], "sys") && !strcmp (w[1], "one")) do_one (w, n);
        else puts ("bad-op");
        fflush (stdout);
        free (w); free (line);
    }
    replay_fini ();
    hash_drop_memory ();
    free (conf);
    if (g_logfp) fclose (g_logfp);
    return 0;
}
