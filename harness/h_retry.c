/* Retry harness (C13): the REAL libmunge client against the REAL daemon request path through a
 * fault-injecting proxy, all in one process.
 *
 *   main thread      munge_encode () / munge_decode () from src/libmunge/{encode,decode,ctx,m_msg_client,
 *                    auth_send,enum,strerror}.c, talking to a Unix socket in the work directory (argv[1])
 *   acceptor thread  accepts each connection (= one attempt of m_msg_client_xfer), applies that attempt's
 *                    fault from the op line and bridges to a socketpair whose other end runs
 *   daemon thread    the real _job_exec () (m_msg_recv -> enc/dec_process_msg -> m_msg_send -> destroy),
 *                    #included through h_cred.c together with its replaced environment (time, SO_PEERCRED,
 *                    random, gids, logging, conf).
 *
 * Faults, one per attempt:   qN  forward only the first N request bytes (N clamped below the request
 *                                length) to the daemon, read no more from the client, close both sides
 *                            QN  the same, but the client's whole request is drained first (clean EOF
 *                                instead of a reset on the client side)
 *                            f   shutdown (SHUT_RD) on the proxy's end of the socketpair before forwarding
 *                                the request: the daemon processes it and its m_msg_send fails; the
 *                                client receives nothing
 *                            pN  the daemon's whole reply is collected, the client gets only N bytes
 *                                (clamped below the reply length)
 *                            rHEX  the daemon's reply is discarded; the client receives the given bytes instead
 *                                (a hostile or broken peer; used by C14 for the client side of the codec)
 *                            ok  bridged fully
 * Replaced environment on the client side: nanosleep (the back-off is recorded, not slept) and a counter
 * on connect ().  No munge source is changed.
 *
 *   retry conf k=v ..                                -> ok
 *   retry reset                                      -> ok
 *   retry enc <sched> c= m= z= ttl= au= ag= realm=<hex|-> data=<hex|-|rep:XX:N> [env k=v ..]
 *        -> err=<e> cred=<hex|NULL> n=<attempts> tr=<retry byte the daemon saw per attempt> sl=<back-off ms>
 *   retry dec <sched> cred=<hex> [env k=v ..]
 *        -> err= data= len= uid= gid= cipher= mac= zip= realm= ttl= addr= t0= t1= au= ag= n= tr= sl=        */
#define HC_NO_MAIN 1
#include "h_cred.c"
#include <sys/un.h>
#include <sys/stat.h>
#include <netinet/in.h>
#include <munge.h>

/* ---- client-side environment ------------------------------------------------------------ */
static pthread_t g_main_thread;
static int g_in_op = 0;
static int g_connects = 0;
static long g_sleeps[64]; static int g_nsleeps = 0;

int nanosleep (const struct timespec *req, struct timespec *rem) {
    static int (*real) (const struct timespec *, struct timespec *) = NULL;
    if (g_in_op && pthread_equal (pthread_self (), g_main_thread)) {
        if (g_nsleeps < 64) g_sleeps[g_nsleeps++] = (long) req->tv_sec * 1000 + req->tv_nsec / 1000000;
        return 0;
    }
    if (!real) real = dlsym (RTLD_NEXT, "nanosleep");
    return real (req, rem);
}

/* crefuse=a,b,..: the k-th connection of the op is refused a/b/.. times (errno cerr=, default ECONNREFUSED) before it is let
 * through - a full listen queue.  The refusals are not connections: n= and tr= count what reached the acceptor. */
static int g_cref[64], g_ncref = 0, g_cerr = ECONNREFUSED, g_crefused = 0, g_conn_ok = 0;
int connect (int fd, const struct sockaddr *addr, socklen_t len) {
    static int (*real) (int, const struct sockaddr *, socklen_t) = NULL;
    int rc;
    if (!real) real = dlsym (RTLD_NEXT, "connect");
    if (!(g_in_op && pthread_equal (pthread_self (), g_main_thread))) return real (fd, addr, len);
    if (g_conn_ok < g_ncref && g_cref[g_conn_ok] > 0) { g_cref[g_conn_ok]--; g_crefused++; errno = g_cerr; return -1; }
    g_connects++;
    rc = real (fd, addr, len);
    if (rc == 0) g_conn_ok++;
    return rc;
}
static void parse_crefuse (char **a, int na) {
    char *v, *dup, *tok, *save = NULL;
    g_ncref = 0; g_cerr = ECONNREFUSED; g_crefused = 0; g_conn_ok = 0;
    if ((v = kv (a, na, "cerr"))) g_cerr = atoi (v);
    if (!(v = kv (a, na, "crefuse"))) return;
    dup = strdup (v);
    for (tok = strtok_r (dup, ",", &save); tok && g_ncref < 64; tok = strtok_r (NULL, ",", &save)) g_cref[g_ncref++] = atoi (tok);
    free (dup);
}

/* ---- schedule and trace -------------------------------------------------------------------- */
enum { FT_OK, FT_Q, FT_QD, FT_F, FT_P, FT_R };
struct fault { int kind; long n; unsigned char *bytes; };
static struct fault g_sched[64]; static int g_nsched = 0;
static volatile int g_attempt = 0;
static volatile int g_barrier = 0;
static int g_seen[64];                       /* retry byte the daemon saw in attempt k, -1 = header not delivered */
static char g_sock[512];
static int g_lfd = -1;

static int parse_sched (const char *s) {
    char *dup = strdup (s), *tok, *save = NULL; int ok = 1;
    { int i; for (i = 0; i < g_nsched; i++) { free (g_sched[i].bytes); g_sched[i].bytes = NULL; } }
    g_nsched = 0;
    if (!strcmp (s, "-")) { free (dup); return 1; }
    for (tok = strtok_r (dup, ",", &save); tok; tok = strtok_r (NULL, ",", &save)) {
        struct fault f; f.n = 0; f.bytes = NULL;
        if (!strcmp (tok, "f")) f.kind = FT_F;
        else if (tok[0] == 'r' && (isxdigit ((unsigned char) tok[1]) || tok[1] == '-')) {    /* rHEX: the client receives these bytes instead of the daemon's reply */
            f.kind = FT_R; f.n = hx_parse (tok + 1, &f.bytes);
            if (f.n < 0) { ok = 0; break; }
        }
        else if (!strcmp (tok, "ok")) f.kind = FT_OK;
        else if (tok[0] == 'q' && isdigit ((unsigned char) tok[1])) { f.kind = FT_Q; f.n = atol (tok + 1); }
        else if (tok[0] == 'Q' && isdigit ((unsigned char) tok[1])) { f.kind = FT_QD; f.n = atol (tok + 1); }
        else if (tok[0] == 'p' && isdigit ((unsigned char) tok[1])) { f.kind = FT_P; f.n = atol (tok + 1); }
        else { ok = 0; break; }
        if (g_nsched < 64) g_sched[g_nsched++] = f;
    }
    free (dup);
    return ok;
}

/* ---- daemon thread: the real _job_exec on one end of a socketpair ------------------------------ */
static void *daemon_thread (void *arg) {
    int fd = * (int *) arg; m_msg_t m;
    if (m_msg_create (&m) != EMUNGE_SUCCESS || m_msg_bind (m, fd) != EMUNGE_SUCCESS) abort ();
    fd_set_nonblocking (fd);
    g_rnd_pos = 0;                           /* the scripted PRNG stream restarts with every request */
    _job_exec (m);                           /* recv, process, send, destroy (closes fd) */
    return NULL;
}

static long read_upto (int fd, unsigned char *buf, long want) {
    long off = 0; ssize_t k;
    while (off < want) {
        k = read (fd, buf + off, want - off);
        if (k < 0 && errno == EINTR) continue;
        if (k <= 0) break;
        off += k;
    }
    return off;
}
static long write_all (int fd, const unsigned char *buf, long n) {
    long off = 0; ssize_t k;
    while (off < n) {
        k = write (fd, buf + off, n - off);
        if (k < 0 && errno == EINTR) continue;
        if (k <= 0) break;
        off += k;
    }
    return off;
}

/* one accepted connection = one attempt */
static void handle_attempt (int cfd) {
    int sv[2], k; struct fault ft; pthread_t th;
    unsigned char hdr[11], *req = NULL, *rsp = NULL; long have = 0, total = -1, fwd, rlen = 0, rcap = 0, give;
    if (g_barrier) { close (cfd); return; }
    k = g_attempt++;
    ft.kind = FT_OK; ft.n = 0; ft.bytes = NULL;
    if (k < g_nsched) ft = g_sched[k];
    if (socketpair (AF_UNIX, SOCK_STREAM, 0, sv) < 0) abort ();
    if (ft.kind == FT_F) shutdown (sv[1], SHUT_RD);        /* the daemon's send will fail */
    pthread_create (&th, NULL, daemon_thread, &sv[0]);
    /* read the request: as much as this attempt's fault lets through (all of it unless qN) */
    if (ft.kind == FT_Q && ft.n < 11) {
        have = read_upto (cfd, hdr, ft.n);
        req = malloc (16); memcpy (req, hdr, have);
    }
    else {
        have = read_upto (cfd, hdr, 11);
        if (have == 11) {
            unsigned long len = ((unsigned long) hdr[7] << 24) | (hdr[8] << 16) | (hdr[9] << 8) | hdr[10];
            long want;
            total = 11 + (long) len;
            want = total;
            if (ft.kind == FT_Q && ft.n < total) want = ft.n;
            req = malloc (want + 16); memcpy (req, hdr, 11);
            if (want > 11) have += read_upto (cfd, req + 11, want - 11);
        }
        else { req = malloc (16); memcpy (req, hdr, have); }
    }
    fwd = have;
    if (ft.kind == FT_Q || ft.kind == FT_QD) {
        long lim = (total >= 0 ? total : have + 1) - 1;      /* always a strict prefix */
        if (ft.n < fwd) fwd = ft.n;
        if (fwd > lim) fwd = lim;
        if (fwd < 0) fwd = 0;
    }
    fwd = write_all (sv[1], req, fwd);
    if (k < 64) g_seen[k] = fwd >= 7 ? req[6] : -1;
    if (ft.kind == FT_Q || ft.kind == FT_QD || have < 11 || (total >= 0 && have < total)) {
        shutdown (sv[1], SHUT_WR);                          /* the daemon sees end-of-file mid-request */
    }
    /* collect whatever the daemon sends until it closes its end */
    if (ft.kind != FT_F) {
        ssize_t g;
        rcap = 4096; rsp = malloc (rcap);
        while ((g = read (sv[1], rsp + rlen, rcap - rlen)) != 0) {
            if (g < 0) { if (errno == EINTR) continue; break; }
            rlen += g;
            if (rlen == rcap) { rcap *= 2; rsp = realloc (rsp, rcap); }
        }
    }
    pthread_join (th, NULL);
    close (sv[1]);
    give = 0;
    if (ft.kind == FT_OK) give = rlen;
    else if (ft.kind == FT_P) { give = ft.n < rlen ? ft.n : rlen - 1; if (give < 0) give = 0; }
    if (give > 0) write_all (cfd, rsp, give);
    if (ft.kind == FT_R && ft.n > 0) write_all (cfd, ft.bytes, ft.n);
    close (cfd);
    free (req); free (rsp);
}

static void *acceptor (void *arg) {
    for (;;) {
        int cfd = accept (g_lfd, NULL, NULL);
        if (cfd < 0) { if (errno == EINTR) continue; break; }
        handle_attempt (cfd);
    }
    return NULL;
}

/* wait until every connection made so far has been dealt with: connect once more in barrier mode */
static void barrier (void) {
    struct sockaddr_un a; int fd; char c;
    static int (*real) (int, const struct sockaddr *, socklen_t) = NULL;
    if (!real) real = dlsym (RTLD_NEXT, "connect");
    g_barrier = 1;
    memset (&a, 0, sizeof a); a.sun_family = AF_UNIX; strncpy (a.sun_path, g_sock, sizeof (a.sun_path) - 1);
    fd = socket (PF_UNIX, SOCK_STREAM, 0);
    if (fd < 0 || real (fd, (struct sockaddr *) &a, sizeof a) < 0) abort ();
    while (read (fd, &c, 1) > 0) ;
    close (fd);
    g_barrier = 0;
}

static void begin_op (void) {
    int i;
    g_attempt = 0; g_connects = 0; g_nsleeps = 0;
    for (i = 0; i < 64; i++) g_seen[i] = -1;
    g_in_op = 1;
}
static void end_op (void) { g_in_op = 0; barrier (); }

static void print_trace (void) {
    int i;
    printf (" n=%d tr=", g_connects);
    if (g_connects == 0) printf ("-");
    for (i = 0; i < g_connects && i < 64; i++) {
        if (i) printf (",");
        if (g_seen[i] < 0) printf ("-"); else printf ("%d", g_seen[i]);
    }
    printf (" sl=");
    if (g_nsleeps == 0) printf ("-");
    for (i = 0; i < g_nsleeps; i++) printf ("%s%ld", i ? "," : "", g_sleeps[i]);
    if (g_ncref) printf (" cf=%d", g_crefused);
}

/* <hex>, -, or rep:XX:N */
static long parse_data (const char *s, unsigned char **out) {
    if (!strncmp (s, "rep:", 4)) {
        unsigned int b = 0; long n = 0;
        if (sscanf (s + 4, "%2x:%ld", &b, &n) != 2 || n < 0) return -1;
        *out = malloc (n ? n : 1); memset (*out, (int) b, n);
        return n;
    }
    return hx_parse (s, out);
}

static void do_enc (char **w, int n) {
    munge_ctx_t ctx; char *cred = NULL, *v; unsigned char *data = NULL, *realm = NULL; long dlen = 0, rl = 0; munge_err_t e;
    char **a = w + 3; int na = n - 3;
    if (!parse_sched (w[2])) { puts ("bad-op"); return; }
    set_env (a, na);
    if ((v = kv (a, na, "data")) && (dlen = parse_data (v, &data)) < 0) { puts ("bad-op"); return; }
    if ((v = kv (a, na, "realm")) && (rl = hx_parse (v, &realm)) < 0) { puts ("bad-op"); free (data); return; }
    ctx = munge_ctx_create ();
    munge_ctx_set (ctx, MUNGE_OPT_SOCKET, g_sock);
    if ((v = kv (a, na, "c"))) munge_ctx_set (ctx, MUNGE_OPT_CIPHER_TYPE, atoi (v));
    if ((v = kv (a, na, "m"))) munge_ctx_set (ctx, MUNGE_OPT_MAC_TYPE, atoi (v));
    if ((v = kv (a, na, "z"))) munge_ctx_set (ctx, MUNGE_OPT_ZIP_TYPE, atoi (v));
    if ((v = kv (a, na, "ttl"))) munge_ctx_set (ctx, MUNGE_OPT_TTL, (int) strtoul (v, NULL, 10));
    if ((v = kv (a, na, "au"))) munge_ctx_set (ctx, MUNGE_OPT_UID_RESTRICTION, (uid_t) strtoul (v, NULL, 10));
    if ((v = kv (a, na, "ag"))) munge_ctx_set (ctx, MUNGE_OPT_GID_RESTRICTION, (gid_t) strtoul (v, NULL, 10));
    if (rl > 0) {                                        /* realm bytes include the terminating NUL */
        char *r = malloc (rl + 1); memcpy (r, realm, rl); r[rl] = 0;
        munge_ctx_set (ctx, MUNGE_OPT_REALM, r); free (r);
    }
    parse_crefuse (a, na);
    begin_op ();
    e = munge_encode (&cred, ctx, data, (int) dlen);
    end_op ();
    printf ("err=%d cred=", (int) e);
    if (!cred) printf ("NULL"); else hx_print ((unsigned char *) cred, (long) strlen (cred));
    print_trace ();
    printf ("\n");
    free (cred); free (data); free (realm);
    munge_ctx_destroy (ctx);
}

static void do_dec (char **w, int n) {
    munge_ctx_t ctx; char *v, *cred; unsigned char *cb = NULL; long cl; munge_err_t e;
    void *buf = NULL; int len = -7; uid_t uid = 12345; gid_t gid = 12345;
    int ci = 0, mi = 0, zi = 0, ttl = 0; char *realm = NULL; struct in_addr addr; time_t t0 = 0, t1 = 0; uid_t au = 0; gid_t ag = 0;
    char **a = w + 3; int na = n - 3;
    if (!parse_sched (w[2])) { puts ("bad-op"); return; }
    set_env (a, na);
    if (!(v = kv (a, na, "cred")) || (cl = hx_parse (v, &cb)) < 0) { puts ("bad-op"); return; }
    cred = malloc (cl + 1); memcpy (cred, cb, cl); cred[cl] = 0; free (cb);
    ctx = munge_ctx_create ();
    munge_ctx_set (ctx, MUNGE_OPT_SOCKET, g_sock);
    parse_crefuse (a, na);
    begin_op ();
    e = munge_decode (cred, ctx, &buf, &len, &uid, &gid);
    end_op ();
    memset (&addr, 0, sizeof addr);
    munge_ctx_get (ctx, MUNGE_OPT_CIPHER_TYPE, &ci); munge_ctx_get (ctx, MUNGE_OPT_MAC_TYPE, &mi);
    munge_ctx_get (ctx, MUNGE_OPT_ZIP_TYPE, &zi); munge_ctx_get (ctx, MUNGE_OPT_REALM, &realm);
    munge_ctx_get (ctx, MUNGE_OPT_TTL, &ttl); munge_ctx_get (ctx, MUNGE_OPT_ADDR4, &addr);
    munge_ctx_get (ctx, MUNGE_OPT_ENCODE_TIME, &t0); munge_ctx_get (ctx, MUNGE_OPT_DECODE_TIME, &t1);
    munge_ctx_get (ctx, MUNGE_OPT_UID_RESTRICTION, &au); munge_ctx_get (ctx, MUNGE_OPT_GID_RESTRICTION, &ag);
    printf ("err=%d data=", (int) e);
    if (!buf) printf ("NULL"); else hx_print (buf, len);
    printf (" len=%d uid=%u gid=%u cipher=%d mac=%d zip=%d realm=", len, (unsigned) uid, (unsigned) gid, ci, mi, zi);
    if (!realm) printf ("NULL"); else hx_print ((unsigned char *) realm, (long) strlen (realm));
    printf (" ttl=%d addr=", ttl); hx_print ((unsigned char *) &addr, 4);
    printf (" t0=%ld t1=%ld au=%u ag=%u", (long) t0, (long) t1, (unsigned) au, (unsigned) ag);
    print_trace ();
    printf ("\n");
    free (buf); free (cred);
    munge_ctx_destroy (ctx);
}

/* retry ctxseq <token> ... [env k=v ..]: a sequence of libmunge calls on ONE context, the way applications use it
 *   e<hex|->  munge_encode of this payload (credential kept in the next slot)      -> e:<err>
 *   d<k>      munge_decode of slot k                                               -> d:<err>:<payload hex|NULL>:<uid>:<gid>
 *   x<hex>    munge_decode of this string (anything)                               -> x:<err>
 *   c         ctx = munge_ctx_copy (ctx), the old one is destroyed                 -> c:<1|0>
 *   n         the next call is made with a NULL context
 *   r<hex|->  munge_ctx_set (MUNGE_OPT_REALM)                                      -> r:<err>
 *   t<n>      munge_ctx_set (MUNGE_OPT_TTL)                                        -> t:<err>
 *   s         munge_ctx_strerror (ctx) and MUNGE_OPT_SOCKET read back              -> s:<hex of text|NULL>:<1 if socket name intact> */
static void do_ctxseq (char **w, int n) {
    munge_ctx_t ctx; char *slots[64]; int ns = 0, i, use_null = 0, first = 1; char **a; int na;
    for (i = 2; i < n && !strchr (w[i], '='); i++) ;
    a = w + i; na = n - i; n = i;
    g_nsched = 0;
    set_env (a, na);
    parse_crefuse (a, na);
    ctx = munge_ctx_create ();
    munge_ctx_set (ctx, MUNGE_OPT_SOCKET, g_sock);
    for (i = 2; i < n; i++) {
        char *t = w[i]; munge_ctx_t c = use_null ? NULL : ctx;
        if (!first) printf (" ");
        first = 0;
        if (t[0] == 'e') {
            unsigned char *d = NULL; long dl = hx_parse (t + 1, &d); char *cred = NULL; munge_err_t e;
            if (dl < 0) { printf ("bad-token"); continue; }
            if (use_null) munge_ctx_set (ctx, MUNGE_OPT_SOCKET, g_sock);
            begin_op (); e = munge_encode (&cred, use_null ? NULL : ctx, d, (int) dl); end_op ();
            printf ("e:%d", (int) e);
            if (ns < 64) slots[ns++] = cred; else free (cred);
            free (d); use_null = 0;
        }
        else if (t[0] == 'd' || t[0] == 'x') {
            void *buf = NULL; int len = 0; uid_t uid = 7; gid_t gid = 7; munge_err_t e; char *cred = NULL; unsigned char *cb = NULL; long cl;
            if (t[0] == 'd') { int k = atoi (t + 1); cred = (k >= 0 && k < ns && slots[k]) ? strdup (slots[k]) : strdup (""); }
            else { cl = hx_parse (t + 1, &cb); if (cl < 0) { printf ("bad-token"); continue; } cred = malloc (cl + 1); memcpy (cred, cb, cl); cred[cl] = 0; free (cb); }
            begin_op (); e = munge_decode (cred, c, &buf, &len, &uid, &gid); end_op ();
            if (t[0] == 'd') { printf ("d:%d:", (int) e); if (!buf) printf ("NULL"); else hx_print (buf, len); printf (":%u:%u", (unsigned) uid, (unsigned) gid); }
            else printf ("x:%d", (int) e);
            free (buf); free (cred); use_null = 0;
        }
        else if (t[0] == 'c') { munge_ctx_t c2 = munge_ctx_copy (ctx); printf ("c:%d", c2 ? 1 : 0); if (c2) { munge_ctx_destroy (ctx); ctx = c2; } }
        else if (t[0] == 'n') { use_null = 1; printf ("n"); }
        else if (t[0] == 'r') {
            unsigned char *d = NULL; long dl = hx_parse (t + 1, &d); char *r;
            if (dl < 0) { printf ("bad-token"); continue; }
            r = malloc (dl + 1); memcpy (r, d, dl); r[dl] = 0;
            printf ("r:%d", (int) munge_ctx_set (ctx, MUNGE_OPT_REALM, dl ? r : NULL));
            free (r); free (d);
        }
        else if (t[0] == 't') printf ("t:%d", (int) munge_ctx_set (ctx, MUNGE_OPT_TTL, atoi (t + 1)));
        else if (t[0] == 's') {
            const char *s = munge_ctx_strerror (ctx); char *sock = NULL;
            printf ("s:"); if (!s) printf ("NULL"); else hx_print ((const unsigned char *) s, (long) strlen (s));
            munge_ctx_get (ctx, MUNGE_OPT_SOCKET, &sock);
            printf (":%d", (sock && !strcmp (sock, g_sock)) ? 1 : 0);
        }
        else printf ("bad-token");
    }
    printf ("\n");
    for (i = 0; i < ns; i++) free (slots[i]);
    munge_ctx_destroy (ctx);
}

int main (int argc, char **argv) {
    char *line; struct sockaddr_un a; pthread_t th; const char *dir = argc > 1 ? argv[1] : getenv ("HR_DIR");
    signal (SIGPIPE, SIG_IGN);
    if (!dir) dir = ".";
    snprintf (g_sock, sizeof g_sock, "%s/hr%d.sock", dir, (int) getpid ());
    if (strlen (g_sock) >= sizeof (a.sun_path)) { fprintf (stderr, "socket path too long: %s\n", g_sock); return 2; }
    g_main_thread = pthread_self ();
    conf_defaults ();
#ifndef HC_TOY
    crypto_init (); md_init_subsystem (); cipher_init_subsystem ();
#endif
    replay_init ();
    unlink (g_sock);
    memset (&a, 0, sizeof a); a.sun_family = AF_UNIX; strncpy (a.sun_path, g_sock, sizeof (a.sun_path) - 1);
    g_lfd = socket (PF_UNIX, SOCK_STREAM, 0);
    if (g_lfd < 0 || bind (g_lfd, (struct sockaddr *) &a, sizeof a) < 0 || listen (g_lfd, 64) < 0) { perror ("listen"); return 2; }
    pthread_create (&th, NULL, acceptor, NULL);
    while ((line = hx_getline (stdin))) {
        char **w = malloc (64 * sizeof (char *)); int n = hx_split (line, w, 64);
        if (n >= 2 && !strcmp (w[0], "retry") && !strcmp (w[1], "conf")) { set_env (w + 2, n - 2); puts ("ok"); }
        else if (n >= 2 && !strcmp (w[0], "retry") && !strcmp (w[1], "reset")) { replay_fini (); replay_init (); puts ("ok"); }
        else if (n >= 3 && !strcmp (w[0], "retry") && !strcmp (w[1], "enc")) do_enc (w, n);
        else if (n >= 3 && !strcmp (w[0], "retry") && !strcmp (w[1], "dec")) do_dec (w, n);
        else if (n >= 3 && !strcmp (w[0], "retry") && !strcmp (w[1], "ctxseq")) do_ctxseq (w, n);
        else if (n >= 2 && !strcmp (w[0], "kern")) do_kern (w, n);       /* translation validation of the retry kernels */
        else puts ("bad-op");
        fflush (stdout);
        free (w); free (line);
    }
    shutdown (g_lfd, SHUT_RDWR); close (g_lfd);
    pthread_join (th, NULL);
    unlink (g_sock);
    replay_fini ();
    free (conf);
    return 0;
}
