/* Correspondence harness for C05/C07: the real src/munged/hash.c (linked as its own unit), the
 * real replay.c and dec.c (#included, to reach their statics), the real cred.c and base64.c.
 * Replaced environment: time(), timer_set_relative, conf, log, m_msg_* (m_msg_send is scripted),
 * auth_recv, gids_is_member, and the MAC primitive (a test double whose "digest" is the last
 * 20 bytes fed to it, so the driver of this harness chooses the MAC of a credential freely).
 * Cipher and compression are never reached (credentials are built with cipher = zip = none).
 * Line protocol: see lean/Driver/Hash.lean; one output line per input line. */
#include "hx.h"
#include <errno.h>
#include <pthread.h>
#include <stdarg.h>
#include <stdint.h>
#include <time.h>
#include <arpa/inet.h>

/* ---- environment ------------------------------------------------------------------------ */
static time_t fake_now;
time_t time (time_t *t) { if (t) *t = fake_now; return fake_now; }

static long rearm_ms = -1;
static int rearm_calls;

#include "replay.c"

static struct conf conf_storage;
conf_t conf = &conf_storage;

long timer_set_relative (callback_f cb, void *arg, long msecs) {
    (void) arg;
    if (cb == (callback_f) replay_purge) { rearm_ms = msecs; rearm_calls++; }
    return 1;
}
void log_msg (int priority, const char *format, ...) { (void) priority; (void) format; }
void log_err (int status, int priority, const char *format, ...) {
    (void) priority; fprintf (stderr, "log_err(%d): %s\n", status, format); abort (); }
void log_errno (int status, int priority, const char *format, ...) {
    (void) priority; fprintf (stderr, "log_errno(%d): %s\n", status, format); abort (); }

/* ---- observation hooks: dec.c's calls of replay_insert / replay_remove go through these ---- */
static int seen_ins, seen_ins_rc, seen_rem;
static int h_replay_insert (munge_cred_t c) { int r = replay_insert (c); int e = errno; seen_ins = 1; seen_ins_rc = r; errno = e; return r; }
static int h_replay_remove (munge_cred_t c) { seen_rem = 1; return replay_remove (c); }
#define replay_insert(c) h_replay_insert (c)
#define replay_remove(c) h_replay_remove (c)
#include "dec.c"
#undef replay_insert
#undef replay_remove

/* ---- m_msg doubles (semantics of src/libcommon/m_msg.c for the two setters) ---- */
int m_msg_set_err (m_msg_t m, munge_err_t e, char *s) {
    if ((m->error_num == EMUNGE_SUCCESS) && (e != EMUNGE_SUCCESS)) {
        m->error_num = e;
        m->error_str = s ? s : strdup ("err");
        m->error_len = (uint8_t) (strlen (m->error_str) + 1);
    }
    else if (s) free (s);
    return -1;
}
void m_msg_reset (m_msg_t m) {
    m->cipher = MUNGE_CIPHER_NONE; m->mac = MUNGE_MAC_NONE; m->zip = MUNGE_ZIP_NONE;
    m->realm_len = 0;
    if (m->realm_str) { if (!m->realm_is_copy) free (m->realm_str); m->realm_str = NULL; }
    m->ttl = MUNGE_TTL_DEFAULT; m->addr_len = 0; m->time0 = 0; m->time1 = 0;
    m->cred_uid = MUNGE_UID_ANY; m->cred_gid = MUNGE_GID_ANY; m->auth_uid = MUNGE_UID_ANY; m->auth_gid = MUNGE_GID_ANY;
    m->data_len = 0;
    if (m->data) { if (!m->data_is_copy) free (m->data); m->data = NULL; }
}
static int send_ok = 1, sent_code = -1;
munge_err_t m_msg_send (m_msg_t m, m_msg_type_t type, int maxlen) {
    (void) type; (void) maxlen;
    sent_code = m->error_num;
    return send_ok ? EMUNGE_SUCCESS : EMUNGE_SOCKET;
}
char *strdupf (const char *fmt, ...) { return strdup (fmt); }
void *memburn (void *v, int c, size_t n) { return memset (v, c, n); }
int crypto_memcmp (const void *a, const void *b, size_t n) { return memcmp (a, b, n); }
void random_add (const void *buf, int n) { (void) buf; (void) n; }
static int auth_ok = 1;
int auth_recv (m_msg_t m, uid_t *uid, gid_t *gid) { (void) m; *uid = 1000; *gid = 1000; return EMUNGE_SUCCESS; }
int gids_is_member (gids_t g, uid_t uid, gid_t gid) { (void) g; (void) uid; (void) gid; return 0; }

/* ---- MAC double: digest = last TOY_MAC_LEN bytes of the stream ---- */
#define TOY_MAC_LEN 20
static unsigned char toy_tail[TOY_MAC_LEN];
int mac_map_enum (munge_mac_t md, void *dst) { (void) dst; return md == 2 ? 0 : -1; }
int mac_size (munge_mac_t md) { return md == 2 ? TOY_MAC_LEN : -1; }
int mac_init (mac_ctx *x, munge_mac_t md, const void *key, int keylen) {
    (void) x; (void) md; (void) key; (void) keylen; memset (toy_tail, 0, sizeof toy_tail); return 0; }
int mac_update (mac_ctx *x, const void *src, int n) {
    const unsigned char *s = src; int i; (void) x;
    for (i = 0; i < n; i++) { memmove (toy_tail, toy_tail + 1, TOY_MAC_LEN - 1); toy_tail[TOY_MAC_LEN - 1] = s[i]; }
    return 0; }
int mac_final (mac_ctx *x, void *dst, int *n) { (void) x; memcpy (dst, toy_tail, TOY_MAC_LEN); *n = TOY_MAC_LEN; return 0; }
int mac_cleanup (mac_ctx *x) { (void) x; return 0; }
int mac_block (munge_mac_t md, const void *key, int keylen, void *dst, int *dstlen, const void *src, int srclen) {
    (void) md; (void) key; (void) keylen; (void) dst; (void) dstlen; (void) src; (void) srclen; abort (); }
/* never reached with cipher = zip = none, except cipher_key_size */
int cipher_key_size (munge_cipher_t c) { (void) c; return 0; }
int cipher_block_size (munge_cipher_t c) { (void) c; abort (); }
int cipher_iv_size (munge_cipher_t c) { (void) c; abort (); }
int cipher_map_enum (munge_cipher_t c, void *d) { (void) c; (void) d; return -1; }
int cipher_init (cipher_ctx *x, munge_cipher_t c, unsigned char *k, unsigned char *iv, int e) { (void) x; (void) c; (void) k; (void) iv; (void) e; abort (); }
int cipher_update (cipher_ctx *x, void *d, int *dl, const void *s, int sl) { (void) x; (void) d; (void) dl; (void) s; (void) sl; abort (); }
int cipher_final (cipher_ctx *x, void *d, int *dl) { (void) x; (void) d; (void) dl; abort (); }
int cipher_cleanup (cipher_ctx *x) { (void) x; abort (); }
int zip_is_valid_type (munge_zip_t t) { (void) t; return 0; }
int zip_decompress_block (munge_zip_t t, void *d, int *dl, const void *s, int sl) { (void) t; (void) d; (void) dl; (void) s; (void) sl; abort (); }
int zip_decompress_length (munge_zip_t t, const void *s, int l) { (void) t; (void) s; (void) l; abort (); }

int base64_encode_block (void *dst, int *dstlen, const void *src, int srclen);
int base64_encode_length (int srclen);

/* ---- helpers ---- */
static int table_count (void) { return replay_hash ? hash_count (replay_hash) : -1; }

/* a munge_cred with just what replay_insert / replay_remove read */
static void mk_cred (struct munge_cred *c, struct m_msg *m, const unsigned char *mac, long maclen, uint32_t t0, uint32_t ttl) {
    memset (c, 0, sizeof *c); memset (m, 0, sizeof *m);
    c->msg = m; m->time0 = t0; m->ttl = ttl;
    c->mac_len = (int) (maclen > (long) sizeof c->mac ? (long) sizeof c->mac : maclen);
    memcpy (c->mac, mac, c->mac_len);
}

static int first_dump;
static int dump_f (void *data, const void *key, void *arg) {
    replay_t r = data; (void) key; (void) arg;
    if (!first_dump) putchar (',');
    first_dump = 0;
    hx_print (r->data.mac, sizeof r->data.mac); printf (":%lld", (long long) r->data.t_expired);
    return 1;
}

/* ---- raw table over integer keys ---- */
struct rk { unsigned v; };
static hash_t raw; static unsigned raw_shift;
static unsigned rk_key (const struct rk *k) { return k->v >> raw_shift; }
static int rk_cmp (const struct rk *a, const struct rk *b) { return a->v < b->v ? -1 : a->v > b->v; }
static long del_m, del_r;
static int rk_sel (void *data, const void *key, void *arg) {
    long v = ((struct rk *) data)->v; (void) key; (void) arg;
    return v % del_m == del_r ? 1 : v % del_m == (del_r + 1) % del_m ? 0 : -1;
}
static int rk_dump (void *data, const void *key, void *arg) {
    (void) key; (void) arg;
    if (!first_dump) putchar (',');
    first_dump = 0; printf ("%u", ((struct rk *) data)->v); return 1;
}

/* ---- race: N threads insert the same credential at once ---- */
struct race_arg { pthread_barrier_t *bar; const unsigned char *mac; long maclen; uint32_t t0, ttl; int rc; };
static void *race_thr (void *p) {
    struct race_arg *a = p; struct munge_cred c; struct m_msg m;
    mk_cred (&c, &m, a->mac, a->maclen, a->t0, a->ttl);
    pthread_barrier_wait (a->bar);
    a->rc = replay_insert (&c);
    return NULL;
}

/* ---- a whole decode request through the real dec_process_msg ---- */
static void put32 (unsigned char **p, uint32_t v) { uint32_t u = htonl (v); memcpy (*p, &u, 4); *p += 4; }
static void do_req (const unsigned char *mac, long maclen, uint32_t t0, uint32_t ttl, int retry, int pre, int auth, int send) {
    unsigned char raw_[256], *p = raw_, macf[TOY_MAC_LEN]; char *b64; int n = 0, blen; struct m_msg *m;
    /* pre: the failure the caller expects from the stages before dec_validate_auth: 0, a MAC that does not
     * verify (EMUNGE_CRED_INVALID), or the refusal of retry counts above the limit (EMUNGE_SOCKET) */
    if (maclen != TOY_MAC_LEN || (pre != 0 && pre != EMUNGE_CRED_INVALID && pre != EMUNGE_SOCKET)
            || ((pre == EMUNGE_SOCKET) != (retry > MUNGE_SOCKET_RETRY_ATTEMPTS))) { puts ("bad-op"); return; }
    memcpy (macf, mac, TOY_MAC_LEN);
    if (pre == EMUNGE_CRED_INVALID) macf[TOY_MAC_LEN - 1] ^= 0x5a;     /* MAC field that does not verify */
    *p++ = 3; *p++ = MUNGE_CIPHER_NONE; *p++ = 2; *p++ = MUNGE_ZIP_NONE; *p++ = 0;     /* outer */
    memcpy (p, macf, TOY_MAC_LEN); p += TOY_MAC_LEN;
    memset (p, 0x11, MUNGE_CRED_SALT_LEN); p += MUNGE_CRED_SALT_LEN;                   /* inner */
    *p++ = 0;
    put32 (&p, t0); put32 (&p, ttl); put32 (&p, 1000); put32 (&p, 1000);
    put32 (&p, auth ? MUNGE_UID_ANY : 4242); put32 (&p, MUNGE_GID_ANY);
    put32 (&p, TOY_MAC_LEN); memcpy (p, mac, TOY_MAC_LEN); p += TOY_MAC_LEN;           /* payload = the MAC the double will compute */
    blen = base64_encode_length ((int) (p - raw_));
    b64 = malloc (strlen (MUNGE_CRED_PREFIX) + blen + strlen (MUNGE_CRED_SUFFIX) + 1);
    strcpy (b64, MUNGE_CRED_PREFIX);
    base64_encode_block (b64 + strlen (MUNGE_CRED_PREFIX), &n, raw_, (int) (p - raw_));
    strcpy (b64 + strlen (MUNGE_CRED_PREFIX) + n, MUNGE_CRED_SUFFIX);
    m = calloc (1, sizeof *m);
    m->sd = -1; m->type = MUNGE_MSG_DEC_REQ; m->retry = (uint8_t) retry;
    m->data = b64; m->data_len = (uint32_t) strlen (b64) + 1;
    seen_ins = seen_rem = 0; send_ok = send; sent_code = -1; auth_ok = auth;
    dec_process_msg (m);
    printf ("code=%d delivered=%d ins=", sent_code, send);
    if (seen_ins) printf ("%d", seen_ins_rc); else printf ("x");
    printf (" withdrew=%d n=%d\n", seen_rem, table_count ());
    if (m->data && !m->data_is_copy) free (m->data);
    free (m->error_str); free (m);
}

int main (void) {
    char *line;
    conf_storage.max_ttl = 3600; conf_storage.got_clock_skew = 1; conf_storage.got_socket_retry = 1;
    while ((line = hx_getline (stdin))) {
        char *w[12]; int n = hx_split (line, w, 12); const char *o = n > 1 ? w[1] : "";
        unsigned char *a = NULL, *b = NULL; long la, lb;
        if (n < 2 || strcmp (w[0], "hash")) puts ("bad-op");
        else if (n == 2 && !strcmp (o, "init")) { replay_init (); puts ("ok"); }
        else if (n == 2 && !strcmp (o, "fini")) { replay_fini (); puts ("ok"); }
        else if (n == 3 && !strcmp (o, "bench")) { conf_storage.got_benchmark = atoi (w[2]) != 0; puts ("ok"); }
        else if (n == 5 && !strcmp (o, "conf")) {
            conf_storage.max_ttl = (munge_ttl_t) atoll (w[2]); conf_storage.got_clock_skew = atoi (w[3]) != 0;
            conf_storage.got_socket_retry = atoi (w[4]) != 0; puts ("ok"); }
        else if (n == 3 && !strcmp (o, "clock")) { fake_now = (time_t) atoll (w[2]); puts ("ok"); }
        else if (n == 5 && (!strcmp (o, "ins") || !strcmp (o, "rem")) && (la = hx_parse (w[2], &a)) >= 16) {
            struct munge_cred c; struct m_msg m; int rc;
            mk_cred (&c, &m, a, la, (uint32_t) atoll (w[3]), (uint32_t) atoll (w[4]));
            rc = o[0] == 'i' ? replay_insert (&c) : replay_remove (&c);
            printf ("rc=%d n=%d\n", rc, table_count ());
        }
        else if (n == 3 && !strcmp (o, "purge")) {
            int before = table_count ();
            fake_now = (time_t) atoll (w[2]); rearm_ms = -1;
            replay_purge ();
            printf ("purged=%d n=%d rearm=%ld\n", before < 0 ? 0 : before - table_count (), table_count (), replay_hash ? rearm_ms : -1);
        }
        else if (n == 4 && !strcmp (o, "find") && (la = hx_parse (w[2], &a)) >= 16) {
            union replay_node k; memset (&k, 0, sizeof k);
            memcpy (k.data.mac, a, sizeof k.data.mac); k.data.t_expired = (time_t) atoll (w[3]);
            printf ("found=%d\n", replay_hash && hash_find (replay_hash, &k) != NULL);
        }
        else if (n == 2 && !strcmp (o, "dump")) {
            printf ("n=%d ", table_count ());
            first_dump = 1;
            if (!replay_hash || hash_for_each (replay_hash, dump_f, NULL) == 0) putchar ('-');
            putchar ('\n');
        }
        else if (n == 6 && !strcmp (o, "cmp") && (la = hx_parse (w[2], &a)) >= 16 && (lb = hx_parse (w[4], &b)) >= 16) {
            union replay_node k1, k2; int c;
            memset (&k1, 0, sizeof k1); memset (&k2, 0, sizeof k2);
            memcpy (k1.data.mac, a, sizeof k1.data.mac); k1.data.t_expired = (time_t) atoll (w[3]);
            memcpy (k2.data.mac, b, sizeof k2.data.mac); k2.data.t_expired = (time_t) atoll (w[5]);
            c = replay_cmp_f (&k1, &k2);
            printf ("%d\n", c < 0 ? -1 : c > 0);
        }
        else if (n == 3 && !strcmp (o, "key") && (la = hx_parse (w[2], &a)) >= 16) {
            union replay_node k; memset (&k, 0, sizeof k); memcpy (k.data.mac, a, sizeof k.data.mac);
            printf ("%u\n", replay_key_f (&k));
        }
        else if (n == 4 && !strcmp (o, "exp")) {
            union replay_node k; time_t t = (time_t) atoll (w[3]);
            memset (&k, 0, sizeof k); k.data.t_expired = (time_t) atoll (w[2]);
            printf ("%d\n", replay_is_expired (&k, &k, &t));
        }
        else if (n == 7 && !strcmp (o, "vt")) {
            struct munge_cred c; struct m_msg m; int rc; struct conf saved = conf_storage;
            memset (&c, 0, sizeof c); memset (&m, 0, sizeof m); c.msg = &m;
            m.time0 = (uint32_t) atoll (w[2]); m.ttl = (uint32_t) atoll (w[3]); m.time1 = (uint32_t) atoll (w[4]);
            conf_storage.max_ttl = (munge_ttl_t) atoll (w[5]); conf_storage.got_clock_skew = atoi (w[6]) != 0;
            rc = dec_validate_time (&c);
            printf ("rc=%d err=%d ttl=%u\n", rc, m.error_num, m.ttl);
            free (m.error_str); conf_storage = saved;
        }
        else if (n == 7 && !strcmp (o, "vr") && (la = hx_parse (w[2], &a)) >= 16) {
            struct munge_cred c; struct m_msg m; int rc; struct conf saved = conf_storage;
            mk_cred (&c, &m, a, la, (uint32_t) atoll (w[3]), (uint32_t) atoll (w[4]));
            m.retry = (uint8_t) atoi (w[5]); conf_storage.got_socket_retry = atoi (w[6]) != 0;
            rc = dec_validate_replay (&c);
            printf ("rc=%d err=%d n=%d\n", rc, m.error_num, table_count ());
            free (m.error_str); conf_storage = saved;
        }
        else if (n == 9 && !strcmp (o, "req") && (la = hx_parse (w[2], &a)) >= 0)
            do_req (a, la, (uint32_t) atoll (w[3]), (uint32_t) atoll (w[4]), atoi (w[5]), atoi (w[6]), atoi (w[7]), atoi (w[8]));
        else if (n == 6 && !strcmp (o, "race") && (la = hx_parse (w[3], &a)) >= 16) {
            int k = atoi (w[2]), i, z = 0, e = 0, x = 0; pthread_barrier_t bar;
            pthread_t *th = calloc (k, sizeof *th); struct race_arg *ra = calloc (k, sizeof *ra);
            pthread_barrier_init (&bar, NULL, k);
            for (i = 0; i < k; i++) {
                ra[i].bar = &bar; ra[i].mac = a; ra[i].maclen = la; ra[i].t0 = (uint32_t) atoll (w[4]); ra[i].ttl = (uint32_t) atoll (w[5]);
                pthread_create (&th[i], NULL, race_thr, &ra[i]);
            }
            for (i = 0; i < k; i++) { pthread_join (th[i], NULL); if (ra[i].rc == 0) z++; else if (ra[i].rc == 1) e++; else x++; }
            pthread_barrier_destroy (&bar);
            printf ("zeros=%d ones=%d errs=%d n=%d\n", z, e, x, table_count ());
            free (th); free (ra);
        }
        else if (n == 4 && !strcmp (o, "hnew")) {
            if (raw) hash_destroy (raw);
            raw_shift = (unsigned) atoi (w[3]);
            raw = hash_create (atoi (w[2]), (hash_key_f) rk_key, (hash_cmp_f) rk_cmp, (hash_del_f) free);
            puts ("ok");
        }
        else if (n == 3 && !strcmp (o, "hins") && raw) {
            struct rk *k = malloc (sizeof *k); k->v = (unsigned) atoll (w[2]);
            if (hash_insert (raw, k, k)) printf ("r=1 n=%d\n", hash_count (raw));
            else { int e = errno; free (k); printf ("r=%s n=%d\n", e == EEXIST ? "0" : "err", hash_count (raw)); }
        }
        else if (n == 3 && !strcmp (o, "hrem") && raw) {
            struct rk k, *d; k.v = (unsigned) atoll (w[2]);
            d = hash_remove (raw, &k);
            if (d) { printf ("r=%u n=%d\n", d->v, hash_count (raw)); free (d); } else printf ("r=- n=%d\n", hash_count (raw));
        }
        else if (n == 3 && !strcmp (o, "hfind") && raw) {
            struct rk k, *d; k.v = (unsigned) atoll (w[2]);
            d = hash_find (raw, &k);
            if (d) printf ("r=%u\n", d->v); else puts ("r=-");
        }
        else if (n == 4 && !strcmp (o, "hdel") && raw) {
            int r; del_m = atol (w[2]); del_r = atol (w[3]);
            r = hash_delete_if (raw, rk_sel, NULL);
            printf ("r=%d n=%d\n", r, hash_count (raw));
        }
        else if (n == 2 && !strcmp (o, "hdump") && raw) {
            printf ("n=%d ", hash_count (raw)); first_dump = 1;
            if (hash_for_each (raw, rk_dump, NULL) == 0) putchar ('-');
            putchar ('\n');
        }
        else puts ("bad-op");
        fflush (stdout);
        free (a); free (b); free (line);
    }
    if (raw) hash_destroy (raw);
    replay_fini ();
    hash_drop_memory ();
    return 0;
}
